import json, glob, sys, ast
import xml.etree.ElementTree as ET
base = json.load(open('/root/.vp/BASELINE.json'))
stable = base['stable_pass']
if isinstance(stable, str): stable = ast.literal_eval(stable)
stable = set(stable)
res = {}
for f in glob.glob(sys.argv[1] + '/*.xml'):
    for tc in ET.parse(f).getroot().iter('testcase'):
        name = f"{tc.get('classname')}::{tc.get('name')}"
        bad = any(ch.tag in ('failure', 'error') for ch in tc)
        skipped = any(ch.tag == 'skipped' for ch in tc)
        res[name] = 'fail' if bad else 'skip' if skipped else 'pass'
missing = [t for t in stable if t not in res]
notpass = [t for t in stable if res.get(t) not in ('pass',) and t in res]
print('baseline stable:', len(stable), '| seen:', len(res), '| stable missing:', len(missing), '| stable not passing:', len(notpass))
for t in notpass[:20]: print('  NOT PASSING:', t, res[t])
print('non-baseline failures:', sum(1 for t, r in res.items() if r == 'fail' and t not in stable))
