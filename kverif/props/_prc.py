"""Shared by C06/C07/C15: the decision table of processing.process_resource_causes (DESIGN.md Appendix A.3).

The function is enumerated path by path over its branch predicates (a predicate abstraction: 18-20 atoms); for every
path and every completion of the specification atoms the observed sequence of effects
(watching / spawning / finalizer fns appended / barrier sleep / changing / returned pair) must equal the table.
"""
from __future__ import annotations

import ast
from typing import Any

from .. import absint
from ..core import Ctx
from ..rules import construct
from ..srcmodel import dotted

FN = 'kopf._core.reactor.processing.process_resource_causes'

ATOMS = {
    'Wnone': r'isnone\(.*_detect_causes\(.*\)\[0\]\)',
    'Snone': r'isnone\(.*_detect_causes\(.*\)\[1\]\)',
    'Cnone': r'isnone\(.*_detect_causes\(.*\)\[2\]\)',
    'PM': r'truthy\(registry\._changing\.prematch\(',
    'mS': r'truthy\(registry\._spawning\.requires_finalizer\(',
    'mC': r'truthy\(registry\._changing\.requires_finalizer\(',
    'G': r'truthy\(.*is_deletion_ongoing\(',
    'B': r'truthy\(.*is_deletion_blocked\(',
    'T': r'isnone\(consistency_time\)',
    'CT': (r'truthy\(consistency_time\)', 'truthy(consistency_time)'),
    'GONE': r'eq\(.*Reason\.GONE',
    'U': r'isnone\(.*aiotime\.sleep\(',
    'X': r"eq\(raw_event\['type'\], 'DELETED'\)",
    'DS': r'truthy\(.*process_spawning_cause\(',
    'DC': r'truthy\(.*process_changing_cause\(',
    'P0': r'truthy\(patch\)$',
    'P1': r'truthy\(patch#\d+\)$',
}


def _effect(it, p, call, names):
    for n in names:
        if n.endswith('processing.process_watching_cause'):
            return 'watching'
        if n.endswith('processing.process_spawning_cause'):
            return 'spawning'
        if n.endswith('processing.process_changing_cause'):
            return 'changing'
        if n.endswith('aiotime.sleep'):
            w = next((k.value for k in call.keywords if k.arg == 'wakeup'), None)
            return 'sleep' if (w is not None and (dotted(w) or '') == 'stream_pressure') else 'sleep-not-interruptible-by-new-events'
    if isinstance(call.func, ast.Attribute) and call.func.attr == 'append' and (dotted(call.func.value) or '').endswith('.fns'):
        arg = it.ev(call.args[0], p).key if call.args else ''
        if 'finalizers.block_deletion' in arg:
            return 'append:block'
        if 'finalizers.allow_deletion' in arg:
            return 'append:allow'
        return 'append:other'
    return None


def paths(ctx: Ctx):
    repo = ctx.repo
    f = repo.fn(FN)
    ctx.analysed(f)
    cfg = absint.Config(
        effect=_effect,
        versioned={'patch'},
        pure={'finalizers.is_deletion_ongoing', 'finalizers.is_deletion_blocked', 'processing._detect_causes'},
        # the causes alias the cycle's patch: the low-level handlers write into it through `cause.patch`
        bump={'processing.process_watching_cause': {'patch'}, 'processing.process_spawning_cause': {'patch'},
              'processing.process_changing_cause': {'patch'}},
        mutators={r'patch(#\d+)?\.fns\.append': ('truthy({patch})', True)},
    )
    return f, absint.analyse(repo, f, cfg)


def spec(v: dict) -> tuple:
    eff: list[Any] = []
    W, S, C = not v['Wnone'], not v['Snone'], not v['Cnone']
    if W:
        eff.append('watching')
    if S:
        eff.append('spawning')
    if C and not v['PM']:
        C = False
    must = (S and v['mS']) or (C and v['mC'])
    appended = False
    if must and not v['B'] and not v['G']:
        eff.append('append:block'); C = False; appended = True
    if (not must) and v['B']:
        eff.append('append:allow'); C = False; appended = True
    required = C
    achieved = v['T']
    if C and v['GONE']:
        achieved = True
    # the patch as seen at the gate: non-empty after an append; else whatever the low-level handlers left
    p1 = True if appended else (v['P1'] if (W or S) else v['P0'])
    if required and not achieved and not p1 and v['CT']:
        eff.append('sleep')
        achieved = v['U']
    achieved = achieved and not v['P0']
    if required and not achieved:
        eff.append(('return', 'matched=False', 'delays:' + ('S' if S else '')))
        return tuple(eff)
    if C:
        eff.append('changing')
    delays = (S and v['DS']) or (C and v['DC'])
    if (not v['X']) and v['G'] and v['B'] and not delays:
        eff.append('append:allow')
    eff.append(('return', f'matched={C}', 'delays:' + ('S' if S else '') + ('C' if C else '')))
    return tuple(eff)


def observe(p: absint.Path) -> tuple:
    out: list[Any] = []
    for e in p.trace:
        if e.label in ('watching', 'spawning', 'changing', 'sleep', 'append:block', 'append:allow', 'append:other',
                       'sleep-not-interruptible-by-new-events'):
            out.append(e.label)
    if p.status != 'return' or p.retval is None or p.retval.kind != 'tuple' or len(p.retval.data) != 2:
        out.append(('no-pair-returned', p.status))
        return tuple(out)
    delays, matched = p.retval.data
    m = matched.data if matched.kind in ('bool', 'const') else matched.key
    which = ('S' if 'process_spawning_cause(' in delays.key else '') + ('C' if 'process_changing_cause(' in delays.key else '')
    out.append(('return', f'matched={m}', 'delays:' + which))
    return tuple(out)


def check_table(ctx: Ctx, rule: str, what: str) -> None:
    from ..rules import table_check
    f, ps = paths(ctx)
    table_check(ctx, rule, f, ps, ATOMS, spec, observe, what=what)
