"""C16 -- persistence storages: one location family per class, every operation overridden/forwarded, generated
annotation names valid, bounded and deterministic (DESIGN.md §4 C16, R16.1-R16.4).

This module also hosts the machinery shared with C04 (same author): the abstract string domain (STRDOM) that evaluates
the key-forming functions over their AST, and the location/erase-footprint model of the storage classes.
"""
from __future__ import annotations

import ast
import itertools
import string
from dataclasses import dataclass, replace
from typing import Any, Optional

from ..core import Ctx, PropSpec
from ..rules import calls_in, is_call_to, kwarg, norm
from ..srcmodel import AnalysisError, FuncInfo, Repo, dotted, src, walk_no_defs

CONV = 'kopf._cogs.configs.conventions'
PROG = 'kopf._cogs.configs.progress'
DIFB = 'kopf._cogs.configs.diffbase'
DICTS = 'kopf._cogs.structs.dicts'
PATCH_CLS = 'kopf._cogs.structs.patches.Patch'
BODY_CLS = 'kopf._cogs.structs.bodies.Body'
FORMING = f'{CONV}.StorageKeyFormingConvention'
MARKING = f'{CONV}.StorageKeyMarkingConvention'

# ====================================================================================== STRDOM: abstract strings
ALNUM = frozenset(string.ascii_letters + string.digits)
NAME_BODY = ALNUM | frozenset('_.-')            # Kubernetes qualified name: body characters of the name part
ID_ALPHABET = ALNUM | frozenset('_./<>-')       # handler ids quantified over by the property
NAME_MAX = 63


def _fmt_chars(cs: Optional[frozenset]) -> str:
    if cs is None:
        return '<any character>'
    rest = sorted(c for c in cs if c not in ALNUM)
    out = ('[alnum]' if cs & ALNUM else '') + ''.join(rest)
    return out or '<none>'


@dataclass(frozen=True)
class Seg:
    chars: Optional[frozenset]      # None = any character
    lo: int
    hi: Optional[int]               # None = unbounded
    tag: str = ''


@dataclass(frozen=True)
class AStr:
    """A string as a sequence of segments; ``last_not``: if the string is non-empty its last character is not in the set."""
    segs: tuple = ()
    last_not: frozenset = frozenset()

    @property
    def minlen(self) -> int:
        return sum(s.lo for s in self.segs)

    @property
    def maxlen(self) -> Optional[int]:
        tot = 0
        for s in self.segs:
            if s.hi is None:
                return None
            tot += s.hi
        return tot

    def chars(self) -> Optional[frozenset]:
        out: frozenset = frozenset()
        for s in self.segs:
            if s.hi == 0:
                continue
            if s.chars is None:
                return None
            out |= s.chars
        return out

    def first(self) -> Optional[frozenset]:
        out: frozenset = frozenset()
        for s in self.segs:
            if s.hi == 0:
                continue
            if s.chars is None:
                return None
            out |= s.chars
            if s.lo >= 1:
                break
        return out

    def last(self) -> Optional[frozenset]:
        out: frozenset = frozenset()
        for s in reversed(self.segs):
            if s.hi == 0:
                continue
            if s.chars is None:
                return None
            out |= s.chars
            if s.lo >= 1:
                break
        return out - self.last_not

    def concat(self, other: 'AStr') -> 'AStr':
        ln = other.last_not if other.minlen >= 1 else (self.last_not & other.last_not)
        return AStr(self.segs + other.segs, ln)

    def replaced(self, k: str, v: str) -> 'AStr':
        if len(k) != 1:
            segs = tuple(Seg(None if s.chars is None else s.chars | frozenset(v), 0, None if len(v) > len(k) else s.hi, s.tag) for s in self.segs)
            return AStr(segs)
        segs = []
        for s in self.segs:
            if s.chars is None or k not in s.chars:
                segs.append(s)
                continue
            cs = (s.chars - {k}) | frozenset(v)
            lo = s.lo if len(v) >= 1 else 0
            hi = s.hi if len(v) <= 1 else None
            segs.append(Seg(cs, lo, hi, s.tag))
        ln = (self.last_not - frozenset(v)) | (frozenset(k) - frozenset(v))
        return AStr(tuple(segs), ln)

    def rstripped(self, strip: frozenset) -> 'AStr':
        segs = list(self.segs)
        while segs and segs[-1].chars is not None and segs[-1].chars <= strip:
            segs.pop()
        out = []
        stopped = False
        for s in reversed(segs):
            if stopped or (s.chars is not None and not (s.chars & strip)):
                out.append(s)
                stopped = stopped or s.lo >= 1
            else:
                out.append(Seg(s.chars, 0, s.hi, s.tag))
        return AStr(tuple(reversed(out)), frozenset(strip))

    def prefix_slice(self, cap: Optional[int]) -> 'AStr':
        """``s[:n]`` for a non-negative n <= cap: a prefix (any character of s may become the last one)."""
        segs = []
        for s in self.segs:
            hi = s.hi if cap is None else (cap if s.hi is None else min(s.hi, cap))
            segs.append(Seg(s.chars, 0, hi, s.tag))
        return AStr(tuple(segs))

    def describe(self) -> str:
        return ' + '.join(f'{_fmt_chars(s.chars)}{{{s.lo},{"∞" if s.hi is None else s.hi}}}' for s in self.segs) or "''"


def lit(s: str) -> AStr:
    return AStr(tuple(Seg(frozenset(c), 1, 1) for c in s))


ANY_STR = AStr((Seg(None, 0, None),))


# ---------------------------------------------------------------------------------------------- abstract values
@dataclass(frozen=True)
class Part:
    val: 'SVal'
    term: Optional[tuple] = None         # identity of the variable the part reads (for len() relations)
    bound: Optional['IVal'] = None       # upper slice bound if the part is ``x[:bound]``
    base: Optional['SVal'] = None        # the sliced string
    node: Optional[ast.AST] = None


@dataclass(frozen=True)
class SVal:
    alts: tuple                          # alternatives (AStr)
    const: Optional[str] = None          # exact literal if known
    parts: Optional[tuple] = None        # concatenation structure (Part, ...) if the value is a concatenation
    term: Optional[tuple] = None


@dataclass(frozen=True)
class IVal:
    kind: str                            # const | lin | max | min | alt | top
    a: Any = None
    b: Any = None


@dataclass(frozen=True)
class BVal:
    n: Optional[int]
    text: Optional[AStr] = None


@dataclass(frozen=True)
class HVal:
    n: Optional[int]


@dataclass(frozen=True)
class DVal:
    items: tuple                         # ((str, str), ...)
    as_items: bool = False


@dataclass(frozen=True)
class TopVal:
    why: str = ''


TOP = TopVal()
I_TOP = IVal('top')


def s_top() -> SVal:
    return SVal((ANY_STR,))


def s_lit(s: str) -> SVal:
    return SVal((lit(s),), const=s)


def as_str(v: Any) -> SVal:
    return v if isinstance(v, SVal) else s_top()


def s_concat(a: SVal, b: SVal) -> SVal:
    alts = tuple(x.concat(y) for x in a.alts for y in b.alts)
    if len(alts) > 64:
        alts = (ANY_STR,)
    pa = a.parts if a.parts is not None else (Part(a, a.term),)
    pb = b.parts if b.parts is not None else (Part(b, b.term),)
    const = a.const + b.const if a.const is not None and b.const is not None else None
    return SVal(alts, const=const, parts=pa + pb)


def s_join(a: SVal, b: SVal) -> SVal:
    alts = tuple(dict.fromkeys(a.alts + b.alts))
    return SVal(alts, const=a.const if a.const == b.const else None)


def i_const(n: int) -> IVal:
    return IVal('const', n)


def i_lin(c: int, terms: dict) -> IVal:
    terms = {t: k for t, k in terms.items() if k}
    if not terms:
        return i_const(c)
    return IVal('lin', c, tuple(sorted(terms.items(), key=repr)))


def _lin_parts(v: IVal) -> Optional[tuple[int, dict]]:
    if v.kind == 'const':
        return v.a, {}
    if v.kind == 'lin':
        return v.a, dict(v.b)
    return None


def i_add(x: IVal, y: IVal, sign: int = 1) -> IVal:
    px, py = _lin_parts(x), _lin_parts(y)
    if px is None or py is None:
        return I_TOP
    terms = dict(px[1])
    for t, k in py[1].items():
        terms[t] = terms.get(t, 0) + sign * k
    return i_lin(px[0] + sign * py[0], terms)


# ---------------------------------------------------------------------------------------------- the evaluator
class Frame:
    _ids = itertools.count()

    def __init__(self, f: FuncInfo):
        self.f = f
        self.id = next(Frame._ids)
        self.env: dict[str, tuple[Any, int]] = {}
        self.returns: list = []

    def set(self, name: str, val: Any) -> None:
        # a fresh version per assignment: a term (frame, name, version) denotes exactly one value
        self.env[name] = (val, next(Frame._ids))


class KeyInterp:
    """Abstract interpretation of the string expressions of the key-forming methods of one class.

    Nothing is executed: statements are walked structurally (assignments, if/else with join, the replacement loop over a
    literal table, returns); strings are abstract (AStr alternatives), integers are linear forms over ``len(variable)``
    terms so that a slice bound can be related to the other parts of a concatenation."""

    def __init__(self, repo: Repo, cls_qual: str, *, prefix_nonempty: bool):
        self.repo = repo
        self.cls = cls_qual
        self.prefix_nonempty = prefix_nonempty
        self.terms: dict[tuple, SVal] = {}
        self.slices: list[tuple[FuncInfo, ast.AST, IVal, Optional[int]]] = []
        self.unsupported: list[tuple[FuncInfo, ast.AST, str]] = []
        self.calls: list[tuple[FuncInfo, ast.Call, str]] = []

    # -- integer bounds
    def lb(self, v: IVal) -> Optional[int]:
        """Lower bound (None = none)."""
        if v.kind == 'const':
            return v.a
        if v.kind == 'lin':
            tot = v.a
            for t, k in v.b:
                sv = self.terms.get(t)
                lo = min(a.minlen for a in sv.alts) if sv else 0
                his = [a.maxlen for a in sv.alts] if sv else [None]
                hi = None if any(h is None for h in his) else max(his)
                if k > 0:
                    tot += k * lo
                elif hi is None:
                    return None
                else:
                    tot += k * hi
            return tot
        if v.kind == 'max':
            bs = [b for b in (self.lb(x) for x in v.a) if b is not None]
            return max(bs) if bs else None
        if v.kind in ('min', 'alt'):
            bs = [self.lb(x) for x in v.a]
            return None if any(b is None for b in bs) else min(bs)
        return None

    def ub(self, v: IVal) -> Optional[int]:
        """Upper bound (None = unbounded)."""
        if v.kind == 'const':
            return v.a
        if v.kind == 'lin':
            tot = v.a
            for t, k in v.b:
                sv = self.terms.get(t)
                lo = min(a.minlen for a in sv.alts) if sv else 0
                his = [a.maxlen for a in sv.alts] if sv else [None]
                hi = None if any(h is None for h in his) else max(his)
                if k < 0:
                    tot += k * lo
                elif hi is None:
                    return None
                else:
                    tot += k * hi
            return tot
        if v.kind in ('max', 'alt'):
            bs = [self.ub(x) for x in v.a]
            return None if any(b is None for b in bs) else max(bs)
        if v.kind == 'min':
            bs = [b for b in (self.ub(x) for x in v.a) if b is not None]
            return min(bs) if bs else None
        return None

    # -- calls into methods of the class
    def method(self, name: str) -> Optional[FuncInfo]:
        return self.repo.find_method(self.cls, name)

    def call(self, f: FuncInfo, args: list, kwargs: dict, depth: int = 0) -> Any:
        if depth > 4:
            return TOP
        fr = Frame(f)
        a = f.node.args  # type: ignore[attr-defined]
        params = [p.arg for p in a.posonlyargs + a.args]
        if f.cls is not None and 'staticmethod' not in f.decorators and params:
            fr.set(params[0], TopVal('self'))
            params = params[1:]
        defaults = dict(zip([p.arg for p in (a.posonlyargs + a.args)][::-1], list(a.defaults)[::-1]))
        for p, d in zip(a.kwonlyargs, a.kw_defaults):
            if d is not None:
                defaults[p.arg] = d
        names = params + [p.arg for p in a.kwonlyargs]
        bound = dict(zip(params, args))
        bound.update(kwargs)
        for n in names:
            if n in bound:
                fr.set(n, bound[n])
            elif n in defaults:
                fr.set(n, self.ev(fr, defaults[n], depth))
            else:
                fr.set(n, TOP)
        self.block(fr, f.node.body, depth)  # type: ignore[attr-defined]
        out: Any = None
        for r in fr.returns:
            out = r if out is None else self.join(out, r)
        return TOP if out is None else out

    def join(self, a: Any, b: Any) -> Any:
        if a == b:
            return a
        if isinstance(a, SVal) and isinstance(b, SVal):
            return s_join(a, b)
        if isinstance(a, IVal) and isinstance(b, IVal):
            return IVal('alt', (a, b))
        return TOP

    # -- statements
    def block(self, fr: Frame, stmts: list, depth: int) -> bool:
        for s in stmts:
            if isinstance(s, ast.Return):
                fr.returns.append(self.ev(fr, s.value, depth) if s.value is not None else TOP)
                return False
            if isinstance(s, ast.Raise):
                return False
            if isinstance(s, (ast.Assign, ast.AnnAssign)):
                value = s.value
                targets = s.targets if isinstance(s, ast.Assign) else [s.target]
                if value is None:
                    continue
                v = self.ev(fr, value, depth)
                for t in targets:
                    if isinstance(t, ast.Name):
                        self.bind(fr, t.id, v)
                    else:
                        for n in ast.walk(t):
                            if isinstance(n, ast.Name) and isinstance(n.ctx, ast.Store):
                                self.bind(fr, n.id, TOP)
                continue
            if isinstance(s, ast.If):
                t = self.truth(fr, s.test, depth)
                if t is True:
                    if not self.block(fr, s.body, depth):
                        return False
                    continue
                if t is False:
                    if not self.block(fr, s.orelse, depth):
                        return False
                    continue
                env0 = dict(fr.env)
                ft_a = self.block(fr, s.body, depth)
                env_a = fr.env
                fr.env = dict(env0)
                ft_b = self.block(fr, s.orelse, depth)
                env_b = fr.env
                if ft_a and ft_b:
                    fr.env = dict(env0)
                    for n in set(env_a) | set(env_b):
                        if env_a.get(n) == env_b.get(n):
                            fr.env[n] = env_a[n]
                        elif n in env_a and n in env_b:
                            self.bind(fr, n, self.join(env_a[n][0], env_b[n][0]))
                        else:
                            self.bind(fr, n, TOP)
                elif ft_a:
                    fr.env = env_a
                elif ft_b:
                    fr.env = env_b
                else:
                    return False
                continue
            if isinstance(s, ast.For):
                if self.replacement_loop(fr, s, depth):
                    continue
                self.unsupported.append((fr.f, s, 'loop'))
                for n in ast.walk(s):
                    if isinstance(n, ast.Name) and isinstance(n.ctx, ast.Store):
                        self.bind(fr, n.id, TOP)
                continue
            if isinstance(s, ast.Expr):
                if not isinstance(s.value, ast.Constant):
                    self.ev(fr, s.value, depth)
                continue
            if isinstance(s, ast.Pass):
                continue
            self.unsupported.append((fr.f, s, type(s).__name__))
            for n in ast.walk(s):
                if isinstance(n, ast.Name) and isinstance(n.ctx, ast.Store):
                    self.bind(fr, n.id, TOP)
        return True

    def bind(self, fr: Frame, name: str, v: Any) -> None:
        if isinstance(v, SVal):
            v = replace(v, term=None)
        fr.set(name, v)
        if isinstance(v, SVal):
            self.terms[(fr.id, name, fr.env[name][1])] = v

    def replacement_loop(self, fr: Frame, s: ast.For, depth: int) -> bool:
        """``for k, v in TABLE.items(): x = x.replace(k, v)`` over a literal table: unrolled in table order."""
        it = self.ev(fr, s.iter, depth)
        if not (isinstance(it, DVal) and it.as_items and isinstance(s.target, ast.Tuple) and len(s.target.elts) == 2
                and all(isinstance(e, ast.Name) for e in s.target.elts) and not s.orelse):
            return False
        if any(not isinstance(x, (ast.Assign, ast.Expr)) for x in s.body):
            return False
        kn, vn = (e.id for e in s.target.elts)  # type: ignore[attr-defined]
        for k, v in it.items:
            self.bind(fr, kn, s_lit(k))
            self.bind(fr, vn, s_lit(v))
            self.block(fr, s.body, depth)
        return True

    # -- conditions
    def truth(self, fr: Frame, e: ast.AST, depth: int) -> Optional[bool]:
        if isinstance(e, ast.UnaryOp) and isinstance(e.op, ast.Not):
            t = self.truth(fr, e.operand, depth)
            return None if t is None else not t
        if isinstance(e, ast.BoolOp):
            ts = [self.truth(fr, v, depth) for v in e.values]
            if isinstance(e.op, ast.And):
                return False if any(t is False for t in ts) else (True if all(t is True for t in ts) else None)
            return True if any(t is True for t in ts) else (False if all(t is False for t in ts) else None)
        if isinstance(e, ast.Attribute) and dotted(e) == 'self.prefix':
            return True if self.prefix_nonempty else None
        if isinstance(e, (ast.Name, ast.Constant, ast.JoinedStr)):
            v = self.ev(fr, e, depth)
            if isinstance(v, SVal):
                if all(a.minlen >= 1 for a in v.alts):
                    return True
                if all(a.maxlen == 0 for a in v.alts):
                    return False
        return None

    # -- expressions
    def ev(self, fr: Frame, e: Optional[ast.AST], depth: int) -> Any:
        if e is None:
            return TOP
        if isinstance(e, ast.Constant):
            if isinstance(e.value, str):
                return s_lit(e.value)
            if isinstance(e.value, bool):
                return TOP
            if isinstance(e.value, int):
                return i_const(e.value)
            if isinstance(e.value, bytes):
                try:
                    return BVal(len(e.value), lit(e.value.decode('ascii')))
                except UnicodeDecodeError:
                    return BVal(len(e.value))
            return TOP
        if isinstance(e, ast.Name):
            if e.id in fr.env:
                v, ver = fr.env[e.id]
                if isinstance(v, SVal):
                    return replace(v, term=(fr.id, e.id, ver))
                return v
            return TOP
        if isinstance(e, ast.Attribute):
            if dotted(e) == 'self.prefix':
                return SVal((AStr((Seg(None, 1 if self.prefix_nonempty else 0, None, 'self.prefix'),)),))
            return TOP
        if isinstance(e, ast.JoinedStr):
            out = s_lit('')
            out = replace(out, parts=())
            for v in e.values:
                if isinstance(v, ast.Constant):
                    pv = s_lit(str(v.value))
                    pv = replace(pv, parts=(Part(pv, None, node=v),))
                elif isinstance(v, ast.FormattedValue) and v.conversion == -1 and v.format_spec is None:
                    pv = self.as_part(fr, v.value, depth)
                else:
                    pv = s_top()
                out = s_concat(out, pv)
            return out
        if isinstance(e, ast.BinOp) and isinstance(e.op, (ast.Add, ast.Sub)):
            l, r = self.ev(fr, e.left, depth), self.ev(fr, e.right, depth)
            if isinstance(l, IVal) and isinstance(r, IVal):
                return i_add(l, r, 1 if isinstance(e.op, ast.Add) else -1)
            if isinstance(e.op, ast.Add) and (isinstance(l, SVal) or isinstance(r, SVal)):
                return s_concat(self.as_part(fr, e.left, depth), self.as_part(fr, e.right, depth))
            return TOP
        if isinstance(e, ast.IfExp):
            t = self.truth(fr, e.test, depth)
            if t is True:
                return self.ev(fr, e.body, depth)
            if t is False:
                return self.ev(fr, e.orelse, depth)
            return self.join(self.ev(fr, e.body, depth), self.ev(fr, e.orelse, depth))
        if isinstance(e, ast.Dict):
            if all(isinstance(k, ast.Constant) and isinstance(k.value, str) for k in e.keys) and \
                    all(isinstance(v, ast.Constant) and isinstance(v.value, str) for v in e.values):
                return DVal(tuple((k.value, v.value) for k, v in zip(e.keys, e.values)))  # type: ignore[union-attr]
            return TOP
        if isinstance(e, ast.Subscript):
            return self.ev_subscript(fr, e, depth)
        if isinstance(e, ast.Call):
            return self.ev_call(fr, e, depth)
        return TOP

    def as_part(self, fr: Frame, e: ast.AST, depth: int) -> SVal:
        v = self.ev(fr, e, depth)
        if not isinstance(v, SVal):
            return s_top()
        if isinstance(e, ast.Name) or v.parts is None:
            return replace(v, parts=(Part(replace(v, parts=None), v.term if isinstance(e, ast.Name) else None, node=e),))
        return v

    def ev_subscript(self, fr: Frame, e: ast.Subscript, depth: int) -> Any:
        base = self.ev(fr, e.value, depth)
        if not isinstance(e.slice, ast.Slice):
            return TOP
        sl = e.slice
        if not isinstance(base, SVal):
            return TOP
        if sl.step is not None or (sl.lower is not None and not (isinstance(sl.lower, ast.Constant) and sl.lower.value == 0)):
            self.unsupported.append((fr.f, e, 'slice with lower bound/step'))
            return s_top()
        if sl.upper is None:
            return base
        k = self.ev(fr, sl.upper, depth)
        if not isinstance(k, IVal):
            k = I_TOP
        lo = self.lb(k)
        self.slices.append((fr.f, e, k, lo))
        if lo is None or lo < 0:
            res = SVal(tuple(AStr(tuple(Seg(s.chars, 0, s.hi, s.tag) for s in a.segs)) for a in base.alts))   # a negative bound cuts from the end: no length bound
            return replace(res, parts=(Part(res, None, bound=k, base=base, node=e),))
        cap = self.ub(k)
        res = SVal(tuple(a.prefix_slice(cap) for a in base.alts))
        return replace(res, parts=(Part(res, None, bound=k, base=base, node=e),))

    def ev_call(self, fr: Frame, c: ast.Call, depth: int) -> Any:
        fn = c.func
        args = [self.ev(fr, a, depth) for a in c.args]
        kwargs = {k.arg: self.ev(fr, k.value, depth) for k in c.keywords if k.arg}
        if isinstance(fn, ast.Attribute) and isinstance(fn.value, ast.Name) and fn.value.id in ('self', 'cls') \
                and isinstance(fr.env.get(fn.value.id, (None,))[0], TopVal):
            g = self.method(fn.attr)
            if g is None:
                return TOP
            self.calls.append((fr.f, c, g.qualname))
            return self.call(g, args, kwargs, depth + 1)
        if isinstance(fn, ast.Attribute):
            recv = self.ev(fr, fn.value, depth)
            m = fn.attr
            if isinstance(recv, SVal):
                if m == 'replace' and len(args) == 2 and all(isinstance(a, SVal) and a.const is not None for a in args):
                    return SVal(tuple(a.replaced(args[0].const, args[1].const) for a in recv.alts))
                if m == 'rstrip' and len(args) == 1 and isinstance(args[0], SVal) and args[0].const is not None:
                    return SVal(tuple(a.rstripped(frozenset(args[0].const)) for a in recv.alts))
                if m == 'encode':
                    return BVal(None)
                return s_top()
            if isinstance(recv, BVal):
                if m == 'decode' and recv.text is not None:
                    return SVal((recv.text,))
                return s_top() if m == 'decode' else TOP
            if isinstance(recv, HVal):
                if m == 'digest':
                    return BVal(recv.n)
                if m == 'hexdigest':
                    n = None if recv.n is None else 2 * recv.n
                    return SVal((AStr((Seg(frozenset('0123456789abcdef'), n or 0, n),)),))
                return TOP
            if isinstance(recv, DVal) and m == 'items' and not args:
                return DVal(recv.items, as_items=True)
        r = self.repo.resolve(fr.f.module, fn) or ''
        if r == 'len' and len(c.args) == 1:
            a = args[0]
            if isinstance(a, SVal) and a.term is not None:
                return i_lin(0, {a.term: 1})
            if isinstance(a, SVal):
                los = [x.minlen for x in a.alts]
                his = [x.maxlen for x in a.alts]
                if None not in his and min(los) == max(his):
                    return i_const(min(los))
                t = ('anon', id(c), 0)
                self.terms[t] = a
                return i_lin(0, {t: 1})
            return IVal('max', (i_const(0), I_TOP))     # a length is non-negative
        if r in ('max', 'min') and len(args) >= 2 and all(isinstance(a, IVal) for a in args):
            return IVal(r, tuple(args))
        if r.startswith('hashlib.'):
            algo = r.split('.', 1)[1]
            sizes = {'md5': 16, 'sha1': 20, 'sha224': 28, 'sha256': 32, 'sha384': 48, 'sha512': 64, 'blake2b': 64, 'blake2s': 32}
            n = sizes.get(algo)
            ds = kwargs.get('digest_size')
            if ds is not None:
                n = ds.a if isinstance(ds, IVal) and ds.kind == 'const' else None
            return HVal(n)
        if r in ('base64.b64encode', 'base64.urlsafe_b64encode', 'base64.standard_b64encode') and args and isinstance(args[0], BVal):
            alt: Optional[frozenset] = frozenset('+/')
            if r.endswith('urlsafe_b64encode'):
                alt = frozenset('-_')
            ac = kwargs.get('altchars', args[1] if len(args) > 1 else None)
            if ac is not None:
                alt = ac.text.chars() if isinstance(ac, BVal) and ac.text is not None else None
            alpha = None if alt is None else ALNUM | alt
            n = args[0].n
            if n is None:
                return BVal(None, AStr((Seg(alpha, 0, None), Seg(frozenset('='), 0, 2))))
            total = 4 * ((n + 2) // 3)
            pad = (3 - n % 3) % 3
            return BVal(total, AStr((Seg(alpha, total - pad, total - pad), Seg(frozenset('='), pad, pad))))
        return TOP


# ---------------------------------------------------------------------------------------------- key analysis
@dataclass
class KeyFacts:
    fn: FuncInfo
    value: Any
    prefixed: bool = False            # every result is `{self.prefix}/` + name
    name_alts: tuple = ()
    name_chars: Optional[frozenset] = None
    name_first: Optional[frozenset] = None
    name_last: Optional[frozenset] = None
    name_bound: Optional[int] = None
    bound_why: str = ''


def input_key() -> SVal:
    """A handler id / record key: one or more characters of the id alphabet the property quantifies over."""
    return SVal((AStr((Seg(ID_ALPHABET, 1, None, 'id'),)),))


def _split_name(v: SVal) -> Optional[list[Part]]:
    """Parts of the name (after the `{self.prefix}/` head) if the value is such a concatenation."""
    if v.parts is None:
        return None
    seen_prefix = False
    for i, p in enumerate(v.parts):
        if len(p.val.alts) != 1:
            return None
        segs = p.val.alts[0].segs
        for j, s in enumerate(segs):
            if s.tag == 'self.prefix' and s.lo >= 1 and not seen_prefix:
                seen_prefix = True
                continue
            if seen_prefix and s.chars == frozenset('/') and s.lo == 1 and s.hi == 1:
                rest = segs[j + 1:]
                tail = list(v.parts[i + 1:])
                if rest:
                    rv = SVal((AStr(tuple(rest)),))
                    tail.insert(0, Part(rv, None, node=p.node))
                return tail
            return None
    return None


def analyse_key_fn(it: KeyInterp, name: str, key: SVal) -> KeyFacts:
    f = it.method(name)
    if f is None:
        raise AnalysisError(f'scope anchor: {it.cls}.{name} not found')
    v = it.call(f, [key], {})
    facts = KeyFacts(f, v)
    if not isinstance(v, SVal):
        return facts
    parts = _split_name(v)
    if parts is None:
        return facts
    facts.prefixed = True
    alts = [AStr()]
    for p in parts:
        alts = [a.concat(b) for a in alts for b in p.val.alts]
    facts.name_alts = tuple(alts)
    chars: Optional[frozenset] = frozenset()
    first: Optional[frozenset] = frozenset()
    last: Optional[frozenset] = frozenset()
    for a in alts:
        chars = None if chars is None or a.chars() is None else chars | a.chars()
        first = None if first is None or a.first() is None else first | a.first()
        last = None if last is None or a.last() is None else last | a.last()
    facts.name_chars, facts.name_first, facts.name_last = chars, first, last

    def maxlen(sv: SVal) -> Optional[int]:
        hs = [a.maxlen for a in sv.alts]
        return None if None in hs else max(hs)

    slices = [p for p in parts if p.bound is not None]
    others = [p for p in parts if p.bound is None]
    if len(slices) != 1:
        tot = 0
        for p in parts:
            m = maxlen(p.val)
            if m is None:
                facts.bound_why = f'part `{src(p.node)}` is unbounded'
                return facts
            tot += m
        facts.name_bound, facts.bound_why = tot, 'sum of the parts'
        return facts
    sl = slices[0]
    k = sl.bound
    lo = it.lb(k)
    if lo is None or lo < 0:
        facts.bound_why = f'the slice bound `{src(sl.node)}` may be negative (a negative bound cuts from the end: no length bound)'
        return facts
    # len(slice) <= max(floor, E) with E = M - sum(len(t_i)); parts that E subtracts cancel out
    floor, inner = 0, k
    if k.kind == 'max':
        consts = [x.a for x in k.a if x.kind == 'const']
        lins = [x for x in k.a if x.kind in ('lin',)]
        if len(k.a) == 2 and len(consts) == 1 and len(lins) == 1:
            floor, inner = max(0, consts[0]), lins[0]
    lp = _lin_parts(inner)
    matched, unmatched = [], []
    if lp is not None:
        terms = dict(lp[1])
        for p in others:
            if p.term is not None and terms.get(p.term) == -1:
                matched.append(p)
                del terms[p.term]
            else:
                unmatched.append(p)
        inner_ub = it.ub(i_lin(lp[0], terms))
    else:
        unmatched = list(others)
        inner_ub = it.ub(inner)
    if inner_ub is None:
        facts.bound_why = 'the slice bound has no upper bound'
        return facts
    ms = [maxlen(p.val) for p in matched]
    us = [maxlen(p.val) for p in unmatched]
    if None in ms or None in us:
        bad = [p for p in matched + unmatched if maxlen(p.val) is None][0]
        facts.bound_why = f'part `{src(bad.node)}` is unbounded'
        return facts
    facts.name_bound = max(floor + sum(ms), inner_ub) + sum(us)
    facts.bound_why = (f'len(slice) <= max({floor}, {inner_ub} - parts subtracted in the bound); subtracted parts <= {sum(ms)}, '
                       f'other parts <= {sum(us)}')
    return facts


# ====================================================================================== locations in bodies/patches/essences
VIEW_ATTRS = {'metadata': 'metadata', 'meta': 'metadata', 'status': 'status', 'spec': 'spec', 'annotations': 'annotations',
              'labels': 'labels'}
WRAPPERS = {'typing.cast', 'cast', 'copy.deepcopy', 'copy.copy', 'dict', 'list', 'set', 'frozenset', 'tuple',
            'kopf._cogs.structs.bodies.Body', 'kopf._cogs.structs.bodies.RawBody'}
MUTATING_METHODS = {'update', 'setdefault', 'append', 'extend', 'insert', 'pop', 'popitem', 'clear', 'remove', '__setitem__', '__delitem__'}


def param_names(f: FuncInfo) -> set[str]:
    return {a.arg for a in f.params()}


def local_defs(f: FuncInfo, name: str) -> list[tuple[str, ast.AST]]:
    """('assign', value) / ('for', iterable) / ('other', node) for every binding of the local ``name`` in ``f``."""
    out: list[tuple[str, ast.AST]] = []
    for n in walk_no_defs(f.node):
        if isinstance(n, ast.Assign):
            for t in n.targets:
                if isinstance(t, ast.Name) and t.id == name:
                    out.append(('assign', n.value))
                elif any(isinstance(x, ast.Name) and x.id == name and isinstance(x.ctx, ast.Store) for x in ast.walk(t)):
                    out.append(('other', n))
        elif isinstance(n, ast.AnnAssign) and isinstance(n.target, ast.Name) and n.target.id == name and n.value is not None:
            out.append(('assign', n.value))
        elif isinstance(n, ast.AugAssign) and isinstance(n.target, ast.Name) and n.target.id == name:
            out.append(('other', n))
        elif isinstance(n, (ast.For, ast.AsyncFor)):
            if isinstance(n.target, ast.Name) and n.target.id == name:
                out.append(('for', n.iter))
            elif any(isinstance(x, ast.Name) and x.id == name for x in ast.walk(n.target)):
                out.append(('other', n))
        elif isinstance(n, (ast.With, ast.AsyncWith)):
            for it in n.items:
                if it.optional_vars is not None and any(isinstance(x, ast.Name) and x.id == name for x in ast.walk(it.optional_vars)):
                    out.append(('other', n))
    return out


def single_def(f: FuncInfo, name: str) -> Optional[tuple[str, ast.AST]]:
    ds = local_defs(f, name)
    return ds[0] if len(ds) == 1 else None


def unwrap(repo: Repo, f: FuncInfo, e: ast.AST) -> tuple[ast.AST, bool]:
    """Strip cast()/deepcopy()/dict()/Body() wrappers; second result: a copy was taken."""
    copied = False
    while isinstance(e, ast.Call):
        r = repo.resolve(f.module, e.func) or ''
        if r in ('typing.cast', 'cast') and len(e.args) == 2:
            e = e.args[1]
        elif r in WRAPPERS and len(e.args) == 1 and not e.keywords:
            copied = copied or r.startswith('copy.')
            e = e.args[0]
        else:
            break
    return e, copied


def is_make_keys(repo: Repo, f: FuncInfo, e: ast.AST) -> bool:
    return isinstance(e, ast.Call) and any(n.endswith('.make_keys') for n in repo.callee_names(f, e))


def arg_desc(f: FuncInfo, e: Optional[ast.AST]) -> tuple:
    if e is None:
        return ('absent',)
    if isinstance(e, ast.Name) and e.id in param_names(f) and not local_defs(f, e.id):
        return ('param', e.id)
    if isinstance(e, ast.Attribute) and isinstance(e.value, ast.Name) and e.value.id == 'self':
        return ('self', e.attr)
    if isinstance(e, ast.Constant):
        return ('const', e.value)
    return ('expr', src(e))


def make_keys_desc(repo: Repo, f: FuncInfo, call: ast.Call) -> tuple:
    a0 = call.args[0] if call.args else kwarg(call, 'key')
    body = kwarg(call, 'body', 1)
    return ('make_keys', arg_desc(f, a0), arg_desc(f, body))


def key_desc(repo: Repo, f: FuncInfo, e: ast.AST, depth: int = 0) -> tuple:
    e, _ = unwrap(repo, f, e)
    if isinstance(e, ast.Constant):
        return ('lit', e.value) if isinstance(e.value, str) else ('const', e.value)
    if isinstance(e, ast.Name):
        ds = local_defs(f, e.id)
        if not ds and e.id in param_names(f):
            return ('param', e.id)
        if len(ds) == 1 and depth < 4:
            kind, v = ds[0]
            if kind == 'for':
                it, _ = unwrap(repo, f, v)
                kd = key_desc(repo, f, it, depth + 1)
                return kd if kd[0] == 'make_keys' else ('each', kd)
            if kind == 'assign':
                return key_desc(repo, f, v, depth + 1)
        return ('expr', e.id)
    if isinstance(e, ast.JoinedStr):
        parts = []
        for v in e.values:
            if isinstance(v, ast.Constant):
                parts.append(('lit', str(v.value)))
            elif isinstance(v, ast.FormattedValue):
                parts.append(key_desc(repo, f, v.value, depth + 1))
        return ('fstr', tuple(parts))
    if isinstance(e, ast.Attribute) and isinstance(e.value, ast.Name) and e.value.id == 'self':
        return ('self', e.attr)
    if is_make_keys(repo, f, e):
        return make_keys_desc(repo, f, e)  # type: ignore[arg-type]
    return ('expr', src(e))


def segs_to_loc(segs: list) -> tuple:
    if len(segs) >= 3 and segs[0] == ('lit', 'metadata') and segs[1] == ('lit', 'annotations'):
        return ('ann', segs[2]) if len(segs) == 3 else ('path', tuple(segs))
    return ('path', tuple(segs))


def loc_desc(repo: Repo, f: FuncInfo, e: ast.AST, depth: int = 0) -> tuple:
    """Abstract location named by a field specification expression (argument of dicts.ensure/resolve/remove)."""
    e, _ = unwrap(repo, f, e)
    if isinstance(e, ast.Name):
        ds = local_defs(f, e.id)
        if not ds and e.id in param_names(f):
            return ('param', e.id)
        if len(ds) == 1 and depth < 4:
            kind, v = ds[0]
            if kind == 'assign':
                return loc_desc(repo, f, v, depth + 1)
            if kind == 'for':
                return ('each', loc_desc(repo, f, v, depth + 1))
        return ('expr', e.id)
    if isinstance(e, (ast.List, ast.Tuple)):
        return segs_to_loc([key_desc(repo, f, x) for x in e.elts])
    if isinstance(e, ast.BinOp) and isinstance(e.op, ast.Add) and isinstance(e.right, (ast.Tuple, ast.List)):
        return ('sub', loc_desc(repo, f, e.left, depth + 1), tuple(key_desc(repo, f, x) for x in e.right.elts))
    if isinstance(e, ast.Attribute) and isinstance(e.value, ast.Name) and e.value.id == 'self':
        return ('selfattr', e.attr)
    if isinstance(e, ast.Constant) and isinstance(e.value, str):
        return segs_to_loc([('lit', s) for s in e.value.split('.')])
    return ('expr', src(e))


def root_kind(repo: Repo, f: FuncInfo, e: ast.AST, depth: int = 0) -> str:
    """patch | body | essence | other -- what kind of object an expression denotes (types first, then local flow)."""
    e, copied = unwrap(repo, f, e)
    t = repo.type_of(f, e) if isinstance(e, (ast.Name, ast.Attribute, ast.Call)) else None
    if t == PATCH_CLS:
        return 'patch'
    if t == BODY_CLS:
        return 'essence' if copied else 'body'
    if t and t.endswith('bodies.BodyEssence'):
        return 'essence'
    if t and t.endswith('bodies.RawBody'):
        return 'body'
    if isinstance(e, ast.Call) and isinstance(e.func, ast.Attribute) and e.func.attr in ('build', 'clear'):
        return 'essence'
    if isinstance(e, ast.Name) and depth < 4:
        kinds = set()
        for kind, v in local_defs(f, e.id):
            if kind == 'assign':
                kinds.add(root_kind(repo, f, v, depth + 1))
        kinds.discard('other')
        if len(kinds) == 1:
            k = kinds.pop()
            return 'essence' if copied and k == 'body' else k
        if e.id in param_names(f):
            for a in f.params():
                if a.arg == e.id and (repo.ann_class(f.module, a.annotation) or '').endswith('bodies.BodyEssence'):
                    return 'essence'
    return 'other'


def chain_path(repo: Repo, f: FuncInfo, e: ast.AST, depth: int = 0) -> tuple[ast.AST, list]:
    """(root expression, path segments) of a container expression: subscripts, .get()/.setdefault() steps, the
    metadata/status/spec/annotations/labels views of bodies and patches, and local aliases of such chains."""
    e, _ = unwrap(repo, f, e)
    if isinstance(e, ast.Subscript) and not isinstance(e.slice, ast.Slice):
        root, segs = chain_path(repo, f, e.value, depth)
        return root, segs + [key_desc(repo, f, e.slice)]
    if isinstance(e, ast.Call) and isinstance(e.func, ast.Attribute) and e.func.attr in ('get', 'setdefault') and e.args:
        root, segs = chain_path(repo, f, e.func.value, depth)
        if root_kind(repo, f, root) != 'other':
            return root, segs + [key_desc(repo, f, e.args[0])]
        return e, []
    if isinstance(e, ast.Attribute) and e.attr in VIEW_ATTRS:
        root, segs = chain_path(repo, f, e.value, depth)
        if root_kind(repo, f, root) in ('patch', 'body'):
            return root, segs + [('lit', VIEW_ATTRS[e.attr])]
        return e, []
    if isinstance(e, ast.Name) and depth < 4:
        d = single_def(f, e.id)
        if d is not None and d[0] == 'assign':
            root, segs = chain_path(repo, f, d[1], depth + 1)
            if segs:
                return root, segs
            r2, copied = unwrap(repo, f, d[1])
            if isinstance(r2, ast.Name) and r2.id != e.id and not copied:
                return chain_path(repo, f, r2, depth + 1)
    return e, []


@dataclass
class Access:
    f: FuncInfo
    node: ast.AST
    root: str            # patch | body | essence
    op: str              # read | set | drop | merge | fn
    loc: tuple
    root_expr: Optional[ast.AST] = None
    value: Optional[ast.AST] = None

    @property
    def where(self) -> str:
        return self.f.loc(self.node)


def accesses(repo: Repo, f: FuncInfo) -> list[Access]:
    """Every read/write of a location in a patch, body or essence inside ``f`` (selected by type and resolved callee)."""
    out: list[Access] = []
    parent = f.module.parent
    for n in walk_no_defs(f.node, include_lambdas=True):
        if isinstance(n, ast.Call):
            for name, op in (('ensure', 'set'), ('remove', 'drop'), ('resolve', 'read')):
                if is_call_to(repo, f, n, f'{DICTS}.{name}') and len(n.args) + len(n.keywords) >= 2:
                    target = n.args[0] if n.args else kwarg(n, 'd')
                    field = n.args[1] if len(n.args) > 1 else kwarg(n, 'field')
                    if target is None or field is None:
                        continue
                    rk = root_kind(repo, f, target)
                    if rk != 'other':
                        val = n.args[2] if len(n.args) > 2 else kwarg(n, 'value')
                        out.append(Access(f, n, rk, op, loc_desc(repo, f, field), target, val))
            if isinstance(n.func, ast.Attribute):
                m = n.func.attr
                recv = n.func.value
                if m == 'get' and n.args and not isinstance(parent.get(n), ast.Attribute):
                    # container.get(key) on the result of dicts.resolve(x, field, {}) reads field + (key,)
                    r0, _ = unwrap(repo, f, recv)
                    if isinstance(r0, ast.Name):
                        d = single_def(f, r0.id)
                        if d is not None and d[0] == 'assign' and is_call_to(repo, f, d[1], f'{DICTS}.resolve'):
                            c = d[1]
                            rk = root_kind(repo, f, c.args[0]) if c.args else 'other'  # type: ignore[attr-defined]
                            if rk != 'other':
                                out.append(Access(f, n, rk, 'read', ('sub', loc_desc(repo, f, c.args[1]), (key_desc(repo, f, n.args[0]),)), c.args[0]))  # type: ignore[attr-defined]
                                continue
                    root, segs = chain_path(repo, f, n)
                    rk = root_kind(repo, f, root)
                    if segs and rk != 'other':
                        out.append(Access(f, n, rk, 'read', segs_to_loc(segs), root))
                elif m in MUTATING_METHODS and not isinstance(parent.get(n), (ast.Attribute, ast.Subscript)):
                    root, segs = chain_path(repo, f, recv)
                    rk = root_kind(repo, f, root)
                    if rk == 'other':
                        # patch.fns.append(fn)
                        if isinstance(recv, ast.Attribute) and recv.attr == 'fns' and root_kind(repo, f, recv.value) == 'patch' and m in ('append', 'extend', 'insert'):
                            out.append(Access(f, n, 'patch', 'fn', ('fns',), recv.value, n.args[-1] if n.args else None))
                        continue
                    if m == 'setdefault' and n.args:
                        out.append(Access(f, n, rk, 'set', segs_to_loc(segs + [key_desc(repo, f, n.args[0])]), root, n.args[1] if len(n.args) > 1 else None))
                    elif m in ('update',):
                        out.append(Access(f, n, rk, 'merge', segs_to_loc(segs + [('any',)]), root, n.args[0] if n.args else None))
                    elif m in ('pop', 'popitem', 'clear', 'remove', '__delitem__'):
                        out.append(Access(f, n, rk, 'drop', segs_to_loc(segs + ([key_desc(repo, f, n.args[0])] if n.args else [('any',)])), root))
                    else:
                        out.append(Access(f, n, rk, 'set', segs_to_loc(segs + [('any',)]), root))
        elif isinstance(n, ast.Subscript) and isinstance(n.ctx, (ast.Store, ast.Del)):
            root, segs = chain_path(repo, f, n)
            rk = root_kind(repo, f, root)
            if rk != 'other' and segs:
                st = repo.stmt_of(f.module, n)
                val = st.value if isinstance(st, (ast.Assign, ast.AnnAssign)) else None
                out.append(Access(f, n, rk, 'set' if isinstance(n.ctx, ast.Store) else 'drop', segs_to_loc(segs), root, val))
        elif isinstance(n, ast.AugAssign) and isinstance(n.target, (ast.Name, ast.Attribute)):
            rk = root_kind(repo, f, n.target)
            if rk != 'other':
                if isinstance(n.value, ast.Dict) and all(k is not None for k in n.value.keys):
                    for k in n.value.keys:
                        out.append(Access(f, n, rk, 'merge', segs_to_loc([key_desc(repo, f, k), ('any',)]), n.target, n.value))
                else:
                    out.append(Access(f, n, rk, 'merge', ('path', (('any',),)), n.target, n.value))
    return out


def fmt_loc(loc: tuple) -> str:
    k = loc[0]
    if k == 'ann':
        return f'metadata.annotations[{fmt_loc(loc[1])}]'
    if k == 'path':
        return '.'.join(fmt_loc(s) for s in loc[1])
    if k == 'lit':
        return str(loc[1])
    if k == 'any':
        return '*'
    if k == 'make_keys':
        return f'make_keys({fmt_loc(loc[1])}, body={fmt_loc(loc[2])})'
    if k in ('param', 'self', 'selfattr'):
        return ('self.' if k != 'param' else '') + str(loc[1])
    if k == 'sub':
        return f'{fmt_loc(loc[1])} + ({", ".join(fmt_loc(s) for s in loc[2])},)'
    if k == 'fstr':
        return 'f"' + ''.join(p[1] if p[0] == 'lit' else '{' + fmt_loc(p) + '}' for p in loc[1]) + '"'
    if k == 'each':
        return f'each of {fmt_loc(loc[1])}'
    return str(loc[1]) if len(loc) > 1 else k


# ====================================================================================== erase footprint of build()/clear()
@dataclass
class Erase:
    f: FuncInfo
    node: ast.AST
    kind: str        # path | loc | ann-keys | ann-prefix | ann-marked | ann-const | restore | restore-param | chain | unknown
    desc: Any = None

    def __str__(self) -> str:
        d = self.desc
        if self.kind in ('path', 'restore'):
            return f'{self.kind} {".".join(str(x) for x in d)}'
        if self.kind in ('loc', 'ann-keys', 'ann-prefix'):
            return f'{self.kind} {fmt_loc(d)}'
        return f'{self.kind} {d}'


def _guards_of(f: FuncInfo, node: ast.AST, stop: ast.AST) -> list[ast.AST]:
    """Tests of the `if` arms enclosing ``node`` (body side) up to the statement ``stop``."""
    out = []
    parent = f.module.parent
    child, p = node, parent.get(node)
    while p is not None and p is not stop:
        if isinstance(p, ast.If) and any(child is s for s in p.body):
            out.append(p.test)
        child, p = p, parent.get(p)
    return out


def _enclosing_for(f: FuncInfo, node: ast.AST) -> Optional[ast.For]:
    p = f.module.parent.get(node)
    while p is not None and p is not f.node:
        if isinstance(p, ast.For):
            return p
        p = f.module.parent.get(p)
    return None


def _startswith_prefix(repo: Repo, f: FuncInfo, e: ast.AST, var: str) -> Optional[ast.AST]:
    """``var.startswith(f'{P}/')`` -> the expression P."""
    if isinstance(e, ast.Call) and isinstance(e.func, ast.Attribute) and e.func.attr == 'startswith' and isinstance(e.func.value, ast.Name) \
            and e.func.value.id == var and len(e.args) == 1 and isinstance(e.args[0], ast.JoinedStr):
        vs = e.args[0].values
        if len(vs) == 2 and isinstance(vs[0], ast.FormattedValue) and isinstance(vs[1], ast.Constant) and vs[1].value == '/':
            return vs[0].value
    return None


def _conjuncts(e: ast.AST) -> list[ast.AST]:
    if isinstance(e, ast.BoolOp) and isinstance(e.op, ast.And):
        return [c for v in e.values for c in _conjuncts(v)]
    return [e]


def _is_essence_annotations(repo: Repo, f: FuncInfo, e: ast.AST) -> bool:
    e, _ = unwrap(repo, f, e)
    root, segs = chain_path(repo, f, e)
    return segs == [('lit', 'metadata'), ('lit', 'annotations')] and root_kind(repo, f, root) in ('essence', 'body')


def erasures(repo: Repo, f: FuncInfo) -> list[Erase]:
    """The erase/restore rules a build()/clear() method applies to the essence (its own statements only)."""
    out: list[Erase] = []
    for a in accesses(repo, f):
        if a.root != 'essence' or a.op == 'read':
            continue
        if a.op in ('set', 'merge'):
            segs = a.loc[1] if a.loc[0] == 'path' else (('lit', 'metadata'), ('lit', 'annotations'), a.loc[1])
            out.append(Erase(f, a.node, 'restore', tuple(s[1] if s[0] == 'lit' else '*' for s in segs)))
            continue
        loc = a.loc
        if loc[0] == 'path' and all(s[0] == 'lit' for s in loc[1]):
            out.append(Erase(f, a.node, 'path', tuple(s[1] for s in loc[1])))
        elif loc[0] in ('selfattr', 'each', 'sub', 'param') and not (loc[0] == 'each' and loc[1][0] not in ('selfattr',)):
            out.append(Erase(f, a.node, 'loc', loc))
        elif loc[0] == 'ann' and loc[1][0] == 'each':
            loop = _enclosing_for(f, a.node)
            var = loop.target.id if loop is not None and isinstance(loop.target, ast.Name) else None
            guards = _guards_of(f, a.node, loop) if loop is not None else []
            def classify(g: ast.AST) -> tuple:
                kind, desc = 'unknown', src(a.node)
                if isinstance(g, ast.Call) and dotted(g.func) == 'any' and len(g.args) == 1 and isinstance(g.args[0], ast.GeneratorExp) \
                        and len(g.args[0].generators) == 1 and not g.args[0].generators[0].ifs:
                    gen = g.args[0].generators[0]
                    pexpr = _startswith_prefix(repo, f, g.args[0].elt, var)
                    if pexpr is not None and isinstance(gen.target, ast.Name) and isinstance(pexpr, ast.Name) and pexpr.id == gen.target.id:
                        it, _ = unwrap(repo, f, gen.iter)
                        if isinstance(it, ast.Name):
                            d = single_def(f, it.id)
                            it = d[1] if d is not None and d[0] == 'assign' else it
                        if isinstance(it, ast.Call) and any(n.endswith('._detect_marked_prefixes') for n in repo.callee_names(f, it)) \
                                and it.args and _is_essence_annotations(repo, f, it.args[0]):
                            kind, desc = 'ann-marked', 'prefixes recognised by _detect_marked_prefixes'
                elif isinstance(g, ast.Compare) and len(g.ops) == 1 and isinstance(g.ops[0], ast.Eq) and isinstance(g.left, ast.Name) \
                        and g.left.id == var and isinstance(g.comparators[0], ast.Constant):
                    kind, desc = 'ann-const', g.comparators[0].value
                return kind, desc
            if var is not None and len(guards) == 1:
                # `if A or B: del ...` erases what `if A: del ... elif B: del ...` erases: one rule per disjunct
                disj = guards[0].values if isinstance(guards[0], ast.BoolOp) and isinstance(guards[0].op, ast.Or) else [guards[0]]
                for g in disj:
                    kind, desc = classify(g)
                    out.append(Erase(f, a.node, kind, desc))
                continue
            kind, desc = 'unknown', src(a.node)
            out.append(Erase(f, a.node, kind, desc))
        else:
            out.append(Erase(f, a.node, 'unknown', fmt_loc(loc)))
    for c in calls_in(f.node):
        names = repo.callee_names(f, c)
        if any(n.endswith('StorageStanzaCleaner.remove_annotations') for n in names) and len(c.args) == 2:
            keys, _ = unwrap(repo, f, c.args[1])
            if isinstance(keys, ast.Name):
                d = single_def(f, keys.id)
                keys = unwrap(repo, f, d[1])[0] if d is not None and d[0] == 'assign' else keys
            if is_make_keys(repo, f, keys):
                out.append(Erase(f, c, 'ann-keys', make_keys_desc(repo, f, keys)))  # type: ignore[arg-type]
            elif isinstance(keys, (ast.SetComp, ast.ListComp, ast.GeneratorExp)) and len(keys.generators) == 1 \
                    and isinstance(keys.generators[0].target, ast.Name) and isinstance(keys.elt, ast.Name) \
                    and keys.elt.id == keys.generators[0].target.id and _is_essence_annotations(repo, f, keys.generators[0].iter):
                var = keys.elt.id
                conj = [x for t in keys.generators[0].ifs for x in _conjuncts(t)]
                prefixes = [p for p in (_startswith_prefix(repo, f, x, var) for x in conj) if p is not None]
                extra = [x for x in conj if _startswith_prefix(repo, f, x, var) is None
                         and not (len(prefixes) == 1 and src(x) == src(prefixes[0]))]   # `P and key.startswith(f'{P}/')`
                if len(prefixes) == 1 and not extra:
                    out.append(Erase(f, c, 'ann-prefix', arg_desc(f, prefixes[0])))
                else:
                    out.append(Erase(f, c, 'unknown', f'remove_annotations of {src(keys)}'))
            else:
                out.append(Erase(f, c, 'unknown', f'remove_annotations of {src(keys)}'))
        elif is_call_to(repo, f, c, f'{DICTS}.cherrypick'):
            dst = kwarg(c, 'dst', 1)
            fields = kwarg(c, 'fields', 2)
            if dst is not None and root_kind(repo, f, dst) == 'essence' and fields is not None:
                if isinstance(fields, (ast.List, ast.Tuple)) and all(isinstance(x, ast.Constant) and isinstance(x.value, str) for x in fields.elts):
                    for x in fields.elts:
                        out.append(Erase(f, x, 'restore', tuple(x.value.split('.'))))  # type: ignore[attr-defined]
                elif isinstance(fields, ast.Name) and fields.id in param_names(f):
                    out.append(Erase(f, c, 'restore-param', fields.id))
                else:
                    out.append(Erase(f, c, 'unknown', f'cherrypick of {src(fields)}'))
        elif isinstance(c.func, ast.Attribute) and c.func.attr in ('build', 'clear'):
            recv = c.func.value
            if isinstance(recv, ast.Call) and dotted(recv.func) == 'super':
                out.append(Erase(f, c, 'chain', 'super'))
            elif isinstance(recv, ast.Name):
                d = single_def(f, recv.id)
                if d is not None and d[0] == 'for' and dotted(d[1]) == 'self.storages':
                    out.append(Erase(f, c, 'chain', 'substorages'))
                else:
                    out.append(Erase(f, c, 'chain', src(recv)))
    return out


def super_method(repo: Repo, cls_qual: str, f: FuncInfo) -> Optional[FuncInfo]:
    """The method ``super().<name>`` resolves to inside ``f`` for an instance of ``cls_qual``."""
    mro = repo.mro(cls_qual)
    if f.cls is None or f.cls.qualname not in mro:
        return None
    for c in mro[mro.index(f.cls.qualname) + 1:]:
        ci = repo.classes.get(c)
        if ci is not None and f.name in ci.methods:
            return ci.methods[f.name]
    return None


def footprint(repo: Repo, cls_qual: str, method: str) -> list[Erase]:
    """Erase rules applied by ``cls.method`` including the super() chain it calls."""
    f = repo.find_method(cls_qual, method)
    out: list[Erase] = []
    seen = set()
    while f is not None and f.qualname not in seen:
        seen.add(f.qualname)
        es = erasures(repo, f)
        out.extend(es)
        f = super_method(repo, cls_qual, f) if any(e.kind == 'chain' and e.desc == 'super' for e in es) else None
    return out


# ====================================================================================== storage classes
def storage_classes(repo: Repo, base: str) -> list[str]:
    return [c for c in repo.subclasses(base)]


def abstract_methods(repo: Repo, base: str) -> list[str]:
    ci = repo.cls(base)
    return [m for m, f in ci.methods.items() if any(d.endswith('abstractmethod') for d in f.decorators)]


def is_noop(f: FuncInfo) -> bool:
    body = [s for s in f.node.body if not (isinstance(s, ast.Expr) and isinstance(s.value, ast.Constant))]  # type: ignore[attr-defined]
    return all(isinstance(s, ast.Pass) for s in body)


def storages_loop(f: FuncInfo) -> list[ast.For]:
    return [n for n in walk_no_defs(f.node) if isinstance(n, ast.For) and dotted(n.iter) == 'self.storages' and isinstance(n.target, ast.Name)]


def is_forwarder(repo: Repo, cls_qual: str) -> bool:
    ci = repo.classes[cls_qual]
    return any('storages' in repo.classes[c].fields for c in repo.mro(cls_qual) if c in repo.classes) and \
        not any(accesses(repo, f) for m, f in ci.methods.items() if m in ('fetch', 'store', 'purge', 'touch'))


def method_locations(repo: Repo, f: FuncInfo) -> set:
    """Locations of the object/patch a storage method addresses (container reads that only serve an element access dropped)."""
    accs = [a for a in accesses(repo, f) if a.root in ('body', 'patch')]
    locs = {a.loc for a in accs}
    return {l for l in locs if not any(o[0] == 'sub' and o[1] == l for o in locs)}


def covers(e: Erase, loc: tuple, *, prefixed: bool) -> bool:
    """Does the erase rule remove the location from the essence?"""
    if loc[0] == 'ann':
        if e.kind == 'ann-keys':
            return e.desc == loc[1]
        if e.kind == 'ann-prefix':
            return prefixed and loc[1][0] == 'make_keys' and e.desc == ('self', 'prefix')
        return False
    if e.kind == 'loc':
        return e.desc == loc or (loc[0] == 'sub' and e.desc == loc[1])
    return False


# ---------------------------------------------------------------------------------------------- R16.1
def check_locations(ctx: Ctx, prefixed: bool) -> None:
    repo = ctx.repo
    n_methods = 0
    for base, ops, eraser in ((f'{PROG}.ProgressStorage', ('fetch', 'store', 'purge'), 'clear'),
                              (f'{DIFB}.DiffBaseStorage', ('fetch', 'store'), 'build')):
        for c in storage_classes(repo, base):
            ci = repo.classes[c]
            if is_forwarder(repo, c):
                continue
            short = c.rsplit('.', 1)[-1]
            fams: dict[str, set] = {}
            for m in ops:
                f = repo.find_method(c, m)
                if f is None or f.cls is None or f.cls.qualname == base or is_noop(f):
                    continue
                ctx.analysed(f)
                n_methods += 1
                locs = method_locations(repo, f)
                fams[m] = locs
                ctx.ob('R16.1', f'{short}.{m} addresses exactly one location family of the object', len(locs) == 1, loc=f.loc(),
                       construct=f'{c}.{m}:keys:single-location', detail='; '.join(sorted(fmt_loc(l) for l in locs)) or 'no location addressed')
            if not fams:
                continue
            allv = set().union(*fams.values())
            ctx.ob('R16.1', f'{short}: {"/".join(fams)} derive the record location identically ({"; ".join(sorted(fmt_loc(l) for l in allv))[:150]})',
                   len(allv) == 1 and all(len(v) == 1 for v in fams.values()), loc=ci.module.relpath() + f':{ci.node.lineno}',
                   construct=f'{c}:sibling:record-location',
                   detail='; '.join(f'{m}: {sorted(fmt_loc(l) for l in v)}' for m, v in fams.items()))
            rec = next(iter(allv)) if len(allv) == 1 else None
            if rec is not None and rec[0] == 'ann' and rec[1][0] == 'make_keys':
                ctx.ob('R16.1', f'{short}: keys are derived for the object at hand (make_keys(..., body=<the method\'s body>))',
                       rec[1][2] == ('param', 'body'), loc=ci.module.relpath() + f':{ci.node.lineno}', construct=f'{c}:sibling:keys-for-body',
                       detail=fmt_loc(rec))
            # the cleaning operation removes the same family
            fp = footprint(repo, c, eraser)
            ef = repo.find_method(c, eraser)
            if rec is not None and ef is not None:
                ctx.analysed(ef)
                hit = [e for e in fp if covers(e, rec, prefixed=prefixed)]
                ctx.ob('R16.1', f'{short}.{eraser} removes the location family that {"/".join(fams)} address', bool(hit), loc=ef.loc(),
                       construct=f'{c}.{eraser}:sibling:erases-record-location',
                       detail=f'record location {fmt_loc(rec)}; rules: {[str(e) for e in fp if e.kind not in ("restore", "chain")]}')
            # touch: its own single location, distinct from the records
            if 'Progress' in base:
                t = repo.find_method(c, 'touch')
                if t is not None and t.cls is not None and t.cls.qualname != base and not is_noop(t):
                    ctx.analysed(t)
                    n_methods += 1
                    tl = method_locations(repo, t)
                    ctx.ob('R16.1', f'{short}.touch reads and writes one location, distinct from the handler records', len(tl) == 1 and rec not in tl,
                           loc=t.loc(), construct=f'{c}.touch:keys:single-location', detail='; '.join(sorted(fmt_loc(l) for l in tl)))
                    if rec is not None and len(tl) == 1:
                        tloc = next(iter(tl))
                        same_space = (tloc[0] == rec[0] == 'ann' and tloc[1][0] == 'make_keys' and tloc[1][2] == rec[1][2]) or \
                                     (tloc[0] == 'selfattr' and rec[0] in ('sub', 'selfattr'))
                        ctx.ob('R16.1', f'{short}.touch uses the same addressing scheme as the records (same key forming / configured field)',
                               same_space, loc=t.loc(), construct=f'{c}.touch:sibling:addressing', detail=f'{fmt_loc(tloc)} vs {fmt_loc(rec)}')
    ctx.count('storage_methods', n_methods)
    ctx.require_sites('R16.1', 'storage methods addressing object locations', n_methods, 12)


# ---------------------------------------------------------------------------------------------- R16.2
def _forward_check(repo: Repo, f: FuncInfo, m: str) -> tuple[bool, str]:
    loops = storages_loop(f)
    if len(loops) != 1:
        return False, f'{len(loops)} loops over self.storages'
    loop = loops[0]
    var = loop.target.id  # type: ignore[attr-defined]
    fcalls = [c for c in calls_in(loop) if isinstance(c.func, ast.Attribute) and c.func.attr == m and isinstance(c.func.value, ast.Name) and c.func.value.id == var]
    if len(fcalls) != 1:
        return False, f'{len(fcalls)} calls of <sub-storage>.{m} in the loop'
    call = fcalls[0]
    if call.args:
        return False, 'positional arguments'
    params = [a.arg for a in f.params()][1:]
    st = repo.stmt_of(f.module, call)
    inner = [n for s in loop.body for n in walk_no_defs(s)]
    flow = [n for n in inner if isinstance(n, (ast.If, ast.Break, ast.Continue, ast.Return, ast.Try, ast.While, ast.For, ast.Raise, ast.IfExp, ast.Match))]
    if loop.orelse:
        return False, 'loop has an else clause'
    kw = {k.arg: k.value for k in call.keywords if k.arg}
    if any(k.arg is None for k in call.keywords):
        return False, '** forwarding'
    kind = 'read' if m == 'fetch' else ('transform' if m in ('clear', 'build') else 'write')
    threaded = None
    if kind == 'transform':
        if not (isinstance(st, ast.Assign) and len(st.targets) == 1 and isinstance(st.targets[0], ast.Name) and st.value is call):
            return False, 'the result of the sub-storage call is not kept'
        threaded = st.targets[0].id
    for p in params:
        v = kw.get(p)
        if kind == 'transform' and p in ('body', 'essence'):
            inner_v = unwrap(repo, f, v)[0] if v is not None else None
            if not (isinstance(inner_v, ast.Name) and inner_v.id == threaded):
                return False, f'{p}= is not the result of the previous sub-storage ({src(v)})'
            continue
        if not (isinstance(v, ast.Name) and v.id == p):
            return False, f'parameter {p} is not forwarded as {p}={p} ({src(v) or "missing"})'
    extra = set(kw) - set(params)
    if extra:
        return False, f'extra keywords {sorted(extra)}'
    after = f.node.body[f.node.body.index(loop) + 1:] if loop in f.node.body else None  # type: ignore[attr-defined]
    if after is None:
        return False, 'the loop is nested in another statement'
    if kind == 'write':
        if flow or not (isinstance(st, ast.Expr) and st.value is call):
            return False, 'the forwarding call is conditional or its loop can be left early: ' + ', '.join(sorted({type(n).__name__ for n in flow}))
        return True, ''
    if kind == 'transform':
        if flow:
            return False, 'the chain is conditional or can be left early'
        rets = [s for s in after if isinstance(s, ast.Return)]
        if not (len(rets) == 1 and isinstance(rets[0].value, ast.Name) and rets[0].value.id == threaded):
            return False, 'the chained result is not what is returned'
        return True, ''
    # read: first found
    if not (isinstance(st, ast.Assign) and len(st.targets) == 1 and isinstance(st.targets[0], ast.Name)):
        return False, 'the result of the sub-storage call is not kept'
    res = st.targets[0].id
    ifs = [n for n in flow if isinstance(n, ast.If)]
    rets = [n for n in flow if isinstance(n, ast.Return)]
    others = [n for n in flow if not isinstance(n, (ast.If, ast.Return))]
    if others or len(ifs) != 1 or len(rets) != 1:
        return False, 'not the first-found shape (one `if <result> is not None: return <result>`)'
    t = ifs[0].test
    ok_test = isinstance(t, ast.Compare) and len(t.ops) == 1 and isinstance(t.ops[0], ast.IsNot) and isinstance(t.left, ast.Name) and t.left.id == res \
        and isinstance(t.comparators[0], ast.Constant) and t.comparators[0].value is None
    ok_ret = rets[0] in ifs[0].body and isinstance(rets[0].value, (ast.Name, ast.Call)) and res in {n.id for n in ast.walk(rets[0].value) if isinstance(n, ast.Name)} \
        and not ifs[0].orelse
    if not (ok_test and ok_ret):
        return False, 'the first non-None result is not what is returned'
    final = [s for s in after if isinstance(s, ast.Return)]
    if any(not (isinstance(s.value, ast.Constant) and s.value.value is None) and s.value is not None for s in final):
        return False, 'falls back to something else than None'
    return True, ''


def check_dispatch(ctx: Ctx) -> None:
    repo = ctx.repo
    n = 0
    for base in (f'{PROG}.ProgressStorage', f'{DIFB}.DiffBaseStorage'):
        abstract = abstract_methods(repo, base)
        ctx.require_sites('R16.2', f'{base.rsplit(".", 1)[-1]}: abstract operations', len(abstract), 2)
        for c in storage_classes(repo, base):
            short = c.rsplit('.', 1)[-1]
            ci = repo.classes[c]
            for m in abstract:
                impl = repo.find_method(c, m)
                ok = impl is not None and impl.cls is not None and impl.cls.qualname != base
                n += 1
                ctx.ob('R16.2', f'{short} overrides the abstract operation {m}()', ok, loc=f'{ci.module.relpath()}:{ci.node.lineno}',
                       construct=f'{c}:dispatch:{m}')
            if 'storages' in ci.fields:
                for m in abstract + [x for x in ('build',) if x in ci.methods and x not in abstract]:
                    f = ci.methods.get(m)
                    if f is None:
                        ctx.ob('R16.2', f'{short} forwards {m}() to its sub-storages', False, loc=f'{ci.module.relpath()}:{ci.node.lineno}',
                               construct=f'{c}.{m}:dispatch:forward', detail='not defined in the fan-out class')
                        continue
                    ctx.analysed(f)
                    ok, why = _forward_check(repo, f, m)
                    how = 'the first sub-storage that has a value (reads)' if m == 'fetch' else \
                        ('every sub-storage in a chain (cleaning)' if m in ('clear', 'build') else 'every sub-storage unconditionally with all arguments (writes)')
                    ctx.ob('R16.2', f'{short}.{m} forwards to {how}', ok, loc=f.loc(), construct=f'{c}.{m}:dispatch:forward', detail=why)
    ctx.count('override_checks', n)


# ---------------------------------------------------------------------------------------------- R16.3 / R4.2 (STRDOM)
def prefix_is_enforced(repo: Repo) -> tuple[bool, FuncInfo]:
    """StorageKeyFormingConvention.__init__ raises when the prefix is empty."""
    init = repo.fn(f'{FORMING}.__init__')
    for n in walk_no_defs(init.node):
        if isinstance(n, ast.If) and isinstance(n.test, ast.UnaryOp) and isinstance(n.test.op, ast.Not) and \
                dotted(n.test.operand) in ('self.prefix', 'prefix') and any(isinstance(s, ast.Raise) for s in n.body):
            return True, init
    return False, init


@dataclass
class NameAnalysis:
    interp: KeyInterp
    facts: dict                       # method name -> KeyFacts
    key_in: Any                       # the (possibly marked) key fed to the forming functions
    forming: list                     # names of the forming methods make_keys draws its elements from
    elements_ok: bool
    enforced: bool


def make_keys_sources(repo: Repo, f: FuncInfo) -> tuple[list[str], bool]:
    """Methods whose results make up the elements of make_keys' return value; False if anything else may be returned."""
    ok = True
    names: list[str] = []

    def elems(e: ast.AST, depth: int = 0) -> None:
        nonlocal ok
        if depth > 6:
            ok = False
            return
        if isinstance(e, ast.BinOp) and isinstance(e.op, (ast.Add, ast.BitOr)):
            elems(e.left, depth + 1); elems(e.right, depth + 1)
        elif isinstance(e, ast.BinOp) and isinstance(e.op, (ast.Sub, ast.BitAnd)):
            elems(e.left, depth + 1)
        elif isinstance(e, ast.Call) and dotted(e.func) in ('list', 'set', 'tuple', 'frozenset', 'sorted') and len(e.args) == 1:
            elems(e.args[0], depth + 1)
        elif isinstance(e, (ast.List, ast.Tuple, ast.Set)):
            for x in e.elts:
                if isinstance(x, ast.Call) and isinstance(x.func, ast.Attribute) and isinstance(x.func.value, ast.Name) and x.func.value.id == 'self':
                    names.append(x.func.attr)
                else:
                    ok = False
        elif isinstance(e, ast.IfExp):
            elems(e.body, depth + 1); elems(e.orelse, depth + 1)
        elif isinstance(e, (ast.ListComp, ast.SetComp, ast.GeneratorExp)) and len(e.generators) == 1 and isinstance(e.generators[0].target, ast.Name) \
                and isinstance(e.elt, ast.Name) and e.elt.id == e.generators[0].target.id:
            elems(e.generators[0].iter, depth + 1)       # a filtering comprehension: its elements are elements of the iterated sequence
        elif isinstance(e, ast.Name):
            ds = local_defs(f, e.id)
            if not ds or any(k != 'assign' for k, _ in ds):
                ok = False
            for _, v in ds:
                elems(v, depth + 1)
        else:
            ok = False
    rets = [n for n in walk_no_defs(f.node) if isinstance(n, ast.Return)]
    if not rets:
        ok = False
    for r in rets:
        if r.value is None:
            ok = False
        else:
            elems(r.value)
    return sorted(set(names)), ok


def analyse_names(repo: Repo) -> NameAnalysis:
    enforced, _ = prefix_is_enforced(repo)
    it = KeyInterp(repo, FORMING, prefix_nonempty=enforced)
    mk = repo.fn(f'{FORMING}.make_keys')
    forming, elements_ok = make_keys_sources(repo, mk)
    key = input_key()
    marker = it.method('mark_key')
    # make_keys passes the key through mark_key when a body is given: both the plain and the marked key are formed
    marks = [c for c in calls_in(mk.node) if isinstance(c.func, ast.Attribute) and c.func.attr == 'mark_key']
    if marks and marker is not None:
        marked = it.call(marker, [key], {})
        key_in = it.join(key, marked) if isinstance(marked, SVal) else s_top()
    else:
        key_in = key
    facts = {}
    for m in forming:
        if it.method(m) is not None:
            facts[m] = analyse_key_fn(it, m, key_in)
    return NameAnalysis(it, facts, key_in, forming, elements_ok, enforced)


def check_names(ctx: Ctx, na: NameAnalysis) -> None:
    repo = ctx.repo
    it = na.interp
    enforced, init = prefix_is_enforced(repo)
    ctx.analysed(init)
    ctx.ob('R16.3', 'annotation storages reject an empty prefix at construction (keys are always `<prefix>/<name>`)', enforced, loc=init.loc(),
           construct=f'{FORMING}.__init__:config:prefix-nonempty')
    mk = repo.fn(f'{FORMING}.make_keys')
    ctx.analysed(mk)
    ctx.ob('R16.3', f'make_keys returns nothing but results of the key-forming methods ({", ".join(na.forming)})', na.elements_ok and len(na.forming) >= 1,
           loc=mk.loc(), construct=f'{FORMING}.make_keys:flow:elements')
    # callers never override the length limit
    for f, c, callee in it.calls:
        g = repo.funcs.get(callee)
        if g is not None and any(a.arg == 'max_length' for a in g.params()):
            ctx.ob('R16.3', f'{f.name} calls {g.name} with the default length limit', len(c.args) <= 1 and kwarg(c, 'max_length') is None, loc=f.loc(c),
                   construct=f'{f.qualname}:config:{g.name}(max_length)')
    # the replacement table
    safe = it.method('make_safe_key')
    if safe is None:
        raise AnalysisError(f'scope anchor: {FORMING}.make_safe_key not found')
    ctx.analysed(safe)
    sv = it.call(safe, [input_key()], {})
    sc = None
    if isinstance(sv, SVal):
        sc = frozenset()
        for a in sv.alts:
            sc = None if sc is None or a.chars() is None else sc | a.chars()
    bad = None if sc is None else sc - NAME_BODY
    ctx.ob('R16.3', 'make_safe_key maps every character of the id alphabet [A-Za-z0-9_./<>-] into the name alphabet [A-Za-z0-9_.-] '
           '(the replacement table covers `/`, `<`, `>`)', sc is not None and not bad, loc=safe.loc(), construct=f'{safe.qualname}:strdom:alphabet',
           detail='result not analysable' if sc is None else f'characters left over: {_fmt_chars(bad)}')
    # the hash suffix
    suf = it.method('make_suffix')
    if suf is not None:
        ctx.analysed(suf)
        v = it.call(suf, [input_key()], {})
        if isinstance(v, SVal):
            chars: Optional[frozenset] = frozenset()
            last: Optional[frozenset] = frozenset()
            his = []
            for a in v.alts:
                chars = None if chars is None or a.chars() is None else chars | a.chars()
                last = None if last is None or a.last() is None else last | a.last()
                his.append(a.maxlen)
            ctx.ob('R16.3', 'make_suffix: characters of the hash suffix lie in [A-Za-z0-9_.-] (base64 with alternative characters, padding stripped)',
                   chars is not None and chars <= NAME_BODY, loc=suf.loc(), construct=f'{suf.qualname}:strdom:alphabet',
                   detail=_fmt_chars(None if chars is None else chars - NAME_BODY))
            ctx.ob('R16.3', 'make_suffix: a non-empty suffix ends with an alphanumeric character (rstrip covers padding and both alternative characters)',
                   last is not None and last <= ALNUM, loc=suf.loc(), construct=f'{suf.qualname}:strdom:last-alnum',
                   detail=_fmt_chars(None if last is None else last - ALNUM))
            hi = None if None in his else max(his)
            ctx.ob('R16.3', f'make_suffix: the suffix has a fixed small length bound (found {hi})', hi is not None and hi < NAME_MAX, loc=suf.loc(),
                   construct=f'{suf.qualname}:strdom:length')
        else:
            ctx.ob('R16.3', 'make_suffix: result is analysable as a string', False, loc=suf.loc(), construct=f'{suf.qualname}:strdom:alphabet')
    # slices
    seen = set()
    for f, node, k, lo in it.slices:
        if (f.qualname, id(node)) in seen:
            continue
        seen.add((f.qualname, id(node)))
        ctx.ob('R16.3', f'{f.name}: the slice bound in `{src(node)}` is provably non-negative (a negative bound would cut from the end and '
               'leave names of arbitrary length)', lo is not None and lo >= 0, loc=f.loc(node), construct=f'{f.qualname}:strdom:slice-bound-nonneg',
               detail='' if lo is not None and lo >= 0 else f'lower bound of the bound expression: {lo if lo is not None else "none (it subtracts an unbounded length and is not clamped with max(0, ...))"}')
    ctx.require_sites('R16.3', 'key forming: slices cutting the name', len(seen), 2, mk.loc())
    for f, node, why in it.unsupported:
        ctx.ob('R16.3', f'{f.name}: construct `{src(node, 60)}` is within the analysed string fragment', False, loc=f.loc(node),
               construct=f'{f.qualname}:strdom:unsupported:{why}')
    # per forming function
    edge_bad = []
    for m, fa in na.facts.items():
        f = fa.fn
        ctx.analysed(f)
        ctx.ob('R16.3', f'{m}: every result has the form `<self.prefix>/<name>`', fa.prefixed, loc=f.loc(), construct=f'{f.qualname}:strdom:prefixed')
        if not fa.prefixed:
            continue
        ctx.ob('R16.3', f'{m}: characters of the generated name lie in [A-Za-z0-9_.-]', fa.name_chars is not None and fa.name_chars <= NAME_BODY,
               loc=f.loc(), construct=f'{f.qualname}:strdom:name-alphabet', detail=_fmt_chars(None if fa.name_chars is None else fa.name_chars - NAME_BODY))
        ctx.ob('R16.3', f'{m}: the generated name is at most {NAME_MAX} characters long (bound found: {fa.name_bound})',
               fa.name_bound is not None and fa.name_bound <= NAME_MAX, loc=f.loc(), construct=f'{f.qualname}:strdom:name-length', detail=fa.bound_why)
        for side, cs in (('first', fa.name_first), ('last', fa.name_last)):
            if cs is None or not cs <= ALNUM:
                edge_bad.append(f'{m}: {side} character may be {_fmt_chars(None if cs is None else cs - ALNUM)}')
    if na.facts:
        ctx.ob('R16.3', 'generated annotation names begin and end with an alphanumeric character (Kubernetes qualified-name syntax)', not edge_bad,
               loc=mk.loc(), construct=f'{FORMING}:strdom:name-edges-alphanumeric', detail='; '.join(edge_bad))
    ctx.require_sites('R16.3', 'key-forming methods analysed', len(na.facts), 2, mk.loc())
    # configured keys at their defaults belong to the alphabet the analysis assumed
    for cq, param in ((f'{PROG}.AnnotationsProgressStorage', 'touch_key'), (f'{DIFB}.AnnotationsDiffBaseStorage', 'key'),
                      (f'{PROG}.SmartProgressStorage', 'touch_key')):
        init = repo.find_method(cq, '__init__')
        if init is None:
            continue
        a = init.node.args  # type: ignore[attr-defined]
        d = {p.arg: v for p, v in zip(a.kwonlyargs, a.kw_defaults) if v is not None}
        v = d.get(param)
        ok = isinstance(v, ast.Constant) and isinstance(v.value, str) and v.value != '' and set(v.value) <= ID_ALPHABET
        ctx.ob('R16.3', f'{cq.rsplit(".", 1)[-1]}: the default {param}={src(v)} lies in the id alphabet the name analysis assumes', ok, loc=init.loc(),
               construct=f'{cq}:config:{param}-alphabet')


# ---------------------------------------------------------------------------------------------- R16.4
PURE_BUILTINS = {'len', 'max', 'min', 'set', 'list', 'tuple', 'frozenset', 'dict', 'any', 'all', 'str', 'sorted', 'isinstance', 'bool', 'int'}
PURE_METHODS = {'replace', 'rstrip', 'lstrip', 'strip', 'encode', 'decode', 'digest', 'hexdigest', 'items', 'get', 'join', 'format', 'lower', 'upper',
                'startswith', 'endswith', 'keys', 'values'}
PURE_LIBS = ('hashlib.', 'base64.')
IMPURE = ('hash', 'id', 'object', 'time', 'random', 'uuid', 'os', 'datetime', 'secrets', 'socket', 'getpass', 'platform')


def key_forming_closure(repo: Repo) -> list[FuncInfo]:
    todo = ['make_keys']
    seen: dict[str, FuncInfo] = {}
    while todo:
        m = todo.pop()
        f = repo.find_method(FORMING, m)
        if f is None or f.qualname in seen:
            continue
        seen[f.qualname] = f
        for c in calls_in(f.node):
            if isinstance(c.func, ast.Attribute) and isinstance(c.func.value, ast.Name) and c.func.value.id in ('self', 'cls'):
                todo.append(c.func.attr)
    return list(seen.values())


def check_determinism(ctx: Ctx) -> None:
    repo = ctx.repo
    fns = key_forming_closure(repo)
    ctx.require_sites('R16.4', 'key-forming methods reachable from make_keys', len(fns), 5)
    own = {f.name for f in fns}
    for f in fns:
        ctx.analysed(f)
        bad: list[str] = []
        locals_ = param_names(f) | {n.id for n in ast.walk(f.node) if isinstance(n, ast.Name) and isinstance(n.ctx, ast.Store)}
        call_funcs = {id(c.func) for c in calls_in(f.node)}
        for c in calls_in(f.node):
            fn = c.func
            if isinstance(fn, ast.Attribute) and isinstance(fn.value, ast.Name) and fn.value.id in ('self', 'cls'):
                if fn.attr not in own:
                    bad.append(f'call of self.{fn.attr}')
                continue
            r = repo.resolve(f.module, fn)
            if isinstance(fn, ast.Name):
                if fn.id in locals_:
                    bad.append(f'call of the local `{fn.id}`')
                elif r not in PURE_BUILTINS:
                    bad.append(f'call of {r or fn.id}')
                continue
            if r is not None and r.startswith(PURE_LIBS):
                if r.startswith('hashlib.'):
                    for k in c.keywords:
                        if k.arg != 'digest_size' or not isinstance(k.value, ast.Constant):
                            bad.append(f'{r}({k.arg}=...) is not a constant digest size')
                continue
            if r is not None and dotted(fn) and dotted(fn).split('.')[0] in f.module.imports:
                bad.append(f'call of {r}')
                continue
            if isinstance(fn, ast.Attribute) and fn.attr in PURE_METHODS:
                continue
            bad.append(f'call of `{src(fn)}`')
        for n in [x for st in f.node.body for x in walk_no_defs(st)]:  # type: ignore[attr-defined]
            if isinstance(n, ast.Name) and isinstance(n.ctx, ast.Load) and n.id not in locals_ and id(n) not in call_funcs:
                r = repo.resolve(f.module, n)
                parent = f.module.parent.get(n)
                if isinstance(parent, ast.Attribute) and id(parent) in call_funcs:
                    continue      # module qualifier of a call, judged above
                if n.id in ('self', 'cls', 'True', 'False', 'None'):
                    continue
                bad.append(f'reads the global `{r or n.id}`')
            if isinstance(n, ast.Attribute) and isinstance(n.value, ast.Name) and n.value.id == 'self' and id(n) not in call_funcs \
                    and n.attr not in ('prefix', 'v1'):
                bad.append(f'reads self.{n.attr}')
        ctx.ob('R16.4', f'{f.name}: the key depends only on its arguments, self.prefix/self.v1, blake2b and base64 (no hash(), id(), time, randomness, '
               'environment): identical across restarts', not bad, loc=f.loc(), construct=f'{f.qualname}:config:deterministic', detail='; '.join(sorted(set(bad))))
    # the digest input is the key itself
    suf = repo.find_method(FORMING, 'make_suffix')
    if suf is not None:
        hcalls = [c for c in calls_in(suf.node) if (repo.resolve(suf.module, c.func) or '').startswith('hashlib.')]
        ctx.require_sites('R16.4', 'make_suffix: digest call', len(hcalls), 1, suf.loc())
        for c in hcalls:
            srcs = {n.id for a in c.args for n in ast.walk(a) if isinstance(n, ast.Name)}
            ctx.ob('R16.4', 'make_suffix: the digest is computed from the key argument only', bool(srcs) and srcs <= param_names(suf) - {'self'}, loc=suf.loc(c),
                   construct=f'{suf.qualname}:flow:digest-input', detail=norm(c))


def check(ctx: Ctx) -> None:
    na = analyse_names(ctx.repo)
    prefixed = bool(na.facts) and all(fa.prefixed for fa in na.facts.values()) and na.elements_ok
    check_locations(ctx, prefixed)
    check_dispatch(ctx)
    check_names(ctx, na)
    check_determinism(ctx)
    from . import _extra
    _extra.check_fetch_none_tests(ctx, 'R16.5')
    _extra.check_store_unconditional(ctx, 'R16.6')


SPEC = PropSpec(
    id='C16',
    title='Persistence storages round-trip, isolate and produce valid annotation names',
    technique='static analysis: sibling agreement of location descriptors per storage class (SIBLING/KEYS), exhaustive override and fan-out '
              'forwarding shapes (DISPATCH), abstract string domain over the AST of the key-forming methods (STRDOM), allow-list of callees (CONFIG)',
    level_text='Static analysis of the current source: per storage class fetch/store/purge derive one identical location descriptor and the class\'s '
               'clear()/build() removes that family; every abstract operation is overridden in every concrete class and the Multi* classes forward '
               'each operation to all sub-storages (writes, cleaning chains) or the first that has a value (reads); an abstract interpretation of '
               'make_safe_key/make_suffix/make_v1_key/make_v2_key (character sets per segment, length bounds, linear slice bounds over len() terms) '
               'proves: names over the id alphabet [A-Za-z0-9_./<>-] contain only [A-Za-z0-9_.-], every slice bound is non-negative, the name part '
               'is at most 63 characters; the first/last-character clause is decided too (and fails: known finding D9); key forming calls nothing '
               'but pure string operations, blake2b and base64. Decides these clauses, NOT read-back identity or injectivity.',
    level_note='ids range over [A-Za-z0-9_./<>-]+; the prefix is the user\'s (non-empty, enforced by the constructor); base64/blake2b output '
               'shapes as documented; DESIGN.md §3 (6)',
    design_ref='DESIGN.md §4 C16',
    explanation='SIBLING/KEYS over the storage methods (locations of dicts.ensure/resolve/remove and annotation views), DISPATCH(exhaustive) over the '
                'abstract operations and the fan-out loops, STRDOM over the key-forming methods, CONFIG allow-list for determinism.',
    not_decided='read-back identity, complete purge, isolation between prefixes, distinctness of long ids sharing a prefix (value/hash properties); '
                'validity of the user-chosen prefix and the 253-character total.',
    check=check,
)
