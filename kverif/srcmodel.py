"""Source model of the repository under analysis: modules, symbols, classes, light type inference,
call resolution.  ``ast`` only; the tree is re-parsed from the working tree on every run.
"""
from __future__ import annotations

import ast
import builtins
import hashlib
import os
from typing import Iterable, Iterator, Optional


class AnalysisError(Exception):
    """The analysis cannot give a verdict (anchor vanished, unsupported construct, ...): exit 2."""


REPO_ROOT = os.environ.get('KVERIF_REPO', '/repo')

# Exception classes that are not defined in the repository: name -> base.
BUILTIN_EXC = {
    'BaseException': None,
    'Exception': 'BaseException',
    'GeneratorExit': 'BaseException',
    'KeyboardInterrupt': 'BaseException',
    'SystemExit': 'BaseException',
    'asyncio.CancelledError': 'BaseException',
    'asyncio.exceptions.CancelledError': 'BaseException',
    'concurrent.futures.CancelledError': 'BaseException',
    'StopIteration': 'Exception',
    'StopAsyncIteration': 'Exception',
    'ArithmeticError': 'Exception',
    'ZeroDivisionError': 'ArithmeticError',
    'AssertionError': 'Exception',
    'AttributeError': 'Exception',
    'ImportError': 'Exception',
    'ModuleNotFoundError': 'ImportError',
    'LookupError': 'Exception',
    'KeyError': 'LookupError',
    'IndexError': 'LookupError',
    'NameError': 'Exception',
    'OSError': 'Exception',
    'IOError': 'Exception',
    'ConnectionError': 'OSError',
    'TimeoutError': 'OSError',
    'asyncio.TimeoutError': 'OSError',   # alias of TimeoutError on 3.11+
    'asyncio.QueueEmpty': 'Exception',
    'asyncio.InvalidStateError': 'Exception',
    'RuntimeError': 'Exception',
    'NotImplementedError': 'RuntimeError',
    'RecursionError': 'RuntimeError',
    'TypeError': 'Exception',
    'ValueError': 'Exception',
    'UnicodeError': 'ValueError',
    'json.JSONDecodeError': 'ValueError',
    'Warning': 'Exception',
    'DeprecationWarning': 'Warning',
    'FutureWarning': 'Warning',
    'UserWarning': 'Warning',
    'aiohttp.ClientError': 'Exception',
    'aiohttp.ClientConnectionError': 'aiohttp.ClientError',
    'aiohttp.ClientOSError': 'aiohttp.ClientConnectionError',
    'aiohttp.ServerDisconnectedError': 'aiohttp.ClientConnectionError',
    'aiohttp.ClientResponseError': 'aiohttp.ClientError',
    'aiohttp.ClientPayloadError': 'aiohttp.ClientError',
    'aiohttp.ClientSSLError': 'aiohttp.ClientConnectionError',
    'ssl.SSLError': 'OSError',
    'jsonpatch.JsonPatchConflict': 'Exception',
    'iso8601.ParseError': 'ValueError',
}
EXC_ALIASES = {'asyncio.TimeoutError': 'TimeoutError', 'asyncio.exceptions.CancelledError': 'asyncio.CancelledError',
               'IOError': 'OSError'}


def walk_no_defs(node: ast.AST, *, include_lambdas: bool = False) -> Iterator[ast.AST]:
    """Walk a node without descending into nested function/class definitions (they run later, elsewhere)."""
    todo = [node]
    while todo:
        n = todo.pop()
        yield n
        for c in ast.iter_child_nodes(n):
            if isinstance(c, (ast.FunctionDef, ast.AsyncFunctionDef, ast.ClassDef)):
                continue
            if isinstance(c, ast.Lambda) and not include_lambdas:
                continue
            todo.append(c)


def dotted(node: ast.AST) -> Optional[str]:
    """``a.b.c`` for a Name/Attribute chain, else None."""
    parts = []
    while isinstance(node, ast.Attribute):
        parts.append(node.attr)
        node = node.value
    if isinstance(node, ast.Name):
        parts.append(node.id)
        return '.'.join(reversed(parts))
    return None


def src(node: Optional[ast.AST], limit: int = 100) -> str:
    if node is None:
        return ''
    try:
        s = ast.unparse(node)
    except Exception:  # pragma: no cover
        s = f'<{type(node).__name__}>'
    s = ' '.join(s.split())
    return s if len(s) <= limit else s[:limit - 1] + '…'


class Module:
    def __init__(self, name: str, path: str, text: str):
        self.name = name
        self.path = path
        self.text = text
        self.tree = ast.parse(text, filename=path)
        from . import canon
        self.canon_stats = canon.canonicalise(name, self.tree)
        self.imports: dict[str, str] = {}
        self.defs: dict[str, ast.AST] = {}      # top-level name -> def/class/assigned value
        self.assigns: dict[str, ast.AST] = {}   # top-level simple assignments name -> value expr
        self.parent: dict[ast.AST, ast.AST] = {}
        for p in ast.walk(self.tree):
            for c in ast.iter_child_nodes(p):
                self.parent[c] = p
        pkg = name.rsplit('.', 1)[0] if '.' in name else name
        is_pkg = path.endswith('__init__.py')
        for n in ast.walk(self.tree):
            if isinstance(n, ast.Import):
                for a in n.names:
                    if a.asname:
                        self.imports[a.asname] = a.name
                    else:
                        self.imports[a.name.split('.')[0]] = a.name.split('.')[0]
            elif isinstance(n, ast.ImportFrom):
                base = n.module or ''
                if n.level:
                    anchor = name if is_pkg else pkg
                    parts = anchor.split('.')
                    parts = parts[:len(parts) - (n.level - 1)] if n.level > 1 else parts
                    base = '.'.join(parts + ([n.module] if n.module else []))
                for a in n.names:
                    self.imports[a.asname or a.name] = f'{base}.{a.name}'
        for n in self.tree.body:
            self._collect_top(n)

    def _collect_top(self, n: ast.AST) -> None:
        if isinstance(n, (ast.FunctionDef, ast.AsyncFunctionDef, ast.ClassDef)):
            self.defs[n.name] = n
        elif isinstance(n, ast.Assign):
            for t in n.targets:
                if isinstance(t, ast.Name):
                    self.defs[t.id] = n.value
                    self.assigns[t.id] = n.value
        elif isinstance(n, ast.AnnAssign) and isinstance(n.target, ast.Name) and n.value is not None:
            self.defs[n.target.id] = n.value
            self.assigns[n.target.id] = n.value
        elif isinstance(n, (ast.If, ast.Try)):
            for sub in ast.iter_child_nodes(n):
                if isinstance(sub, ast.stmt):
                    self._collect_top(sub)

    @property
    def short(self) -> str:
        return self.name.rsplit('.', 1)[-1]

    def relpath(self) -> str:
        return os.path.relpath(self.path, REPO_ROOT)


class ClassInfo:
    def __init__(self, qualname: str, node: ast.ClassDef, module: Module):
        self.qualname = qualname
        self.node = node
        self.module = module
        self.bases: list[str] = []           # resolved later
        self.methods: dict[str, 'FuncInfo'] = {}
        self.fields: dict[str, Optional[ast.AST]] = {}   # name -> annotation node (or None)
        self.field_defaults: dict[str, ast.AST] = {}
        self.field_values: dict[str, ast.AST] = {}       # `self.x = <value>` in __init__ (for untyped fields)

    def __repr__(self) -> str:
        return f'<class {self.qualname}>'


class FuncInfo:
    def __init__(self, qualname: str, node: ast.AST, module: Module, cls: Optional[ClassInfo], outer: Optional['FuncInfo']):
        self.qualname = qualname
        self.node = node
        self.module = module
        self.cls = cls
        self.outer = outer
        self.is_async = isinstance(node, ast.AsyncFunctionDef)
        self.decorators: list[str] = []

    @property
    def name(self) -> str:
        return self.node.name  # type: ignore[attr-defined]

    @property
    def short(self) -> str:
        return self.qualname.split('.', 1)[1] if self.qualname.startswith('kopf.') else self.qualname

    def loc(self, node: Optional[ast.AST] = None) -> str:
        n = node if node is not None else self.node
        return f'{self.module.relpath()}:{getattr(n, "lineno", 0)}'

    def params(self) -> list[ast.arg]:
        a = self.node.args  # type: ignore[attr-defined]
        return list(a.posonlyargs) + list(a.args) + list(a.kwonlyargs) + ([a.vararg] if a.vararg else []) + ([a.kwarg] if a.kwarg else [])

    def is_generator(self) -> bool:
        return any(isinstance(n, (ast.Yield, ast.YieldFrom)) for n in walk_no_defs(self.node) if n is not self.node) or \
            any(isinstance(n, (ast.Yield, ast.YieldFrom)) for s in self.node.body for n in walk_no_defs(s))  # type: ignore[attr-defined]

    def __repr__(self) -> str:
        return f'<func {self.qualname}>'


class Repo:
    """All of ``kopf/**/*.py`` of the working tree."""

    def __init__(self, root: str = REPO_ROOT, package: str = 'kopf'):
        self.root = root
        self.package = package
        self.modules: dict[str, Module] = {}
        self.classes: dict[str, ClassInfo] = {}
        self.funcs: dict[str, FuncInfo] = {}
        self.by_short: dict[str, list[str]] = {}
        self._digest = hashlib.sha256()
        pkgdir = os.path.join(root, package)
        if not os.path.isdir(pkgdir):
            raise AnalysisError(f'package directory {pkgdir} not found')
        for dirpath, dirnames, filenames in sorted(os.walk(pkgdir)):
            dirnames.sort()
            for fn in sorted(filenames):
                if not fn.endswith('.py'):
                    continue
                path = os.path.join(dirpath, fn)
                rel = os.path.relpath(path, root)[:-3].replace(os.sep, '.')
                if rel.endswith('.__init__'):
                    rel = rel[:-len('.__init__')]
                with open(path, encoding='utf-8') as f:
                    text = f.read()
                self._digest.update(rel.encode() + b'\0' + text.encode() + b'\0')
                try:
                    self.modules[rel] = Module(rel, path, text)
                except SyntaxError as e:
                    raise AnalysisError(f'{path}: does not parse: {e}') from e
        for m in self.modules.values():
            self.by_short.setdefault(m.short, []).append(m.name)
            self._index_defs(m, m.tree.body, m.name, None, None)
        for c in self.classes.values():
            c.bases = [self.resolve(c.module, b) or (dotted(b) or src(b)) for b in c.node.bases]
        for f in self.funcs.values():
            f.decorators = [self.resolve(f.module, d.func if isinstance(d, ast.Call) else d) or src(d)
                            for d in f.node.decorator_list]  # type: ignore[attr-defined]
        self._callers_cache: Optional[dict] = None

    @property
    def digest(self) -> str:
        return self._digest.hexdigest()[:16]

    # ------------------------------------------------------------------ indexing
    def _index_defs(self, m: Module, body: Iterable[ast.AST], prefix: str, cls: Optional[ClassInfo], outer: Optional[FuncInfo]) -> None:
        for n in body:
            if isinstance(n, (ast.FunctionDef, ast.AsyncFunctionDef)):
                q = f'{prefix}.{n.name}'
                if q in self.funcs:   # overloads / conditional redefinitions: keep the last, number the others
                    k = 2
                    while f'{q}#{k}' in self.funcs:
                        k += 1
                    self.funcs[f'{q}#{k}'] = self.funcs[q]
                fi = FuncInfo(q, n, m, cls, outer)
                self.funcs[q] = fi
                if cls is not None and outer is None:
                    cls.methods[n.name] = fi
                self._index_defs(m, n.body, q, None, fi)
            elif isinstance(n, ast.ClassDef):
                q = f'{prefix}.{n.name}'
                ci = ClassInfo(q, n, m)
                self.classes[q] = ci
                for s in n.body:
                    if isinstance(s, ast.AnnAssign) and isinstance(s.target, ast.Name):
                        ci.fields[s.target.id] = s.annotation
                        if s.value is not None:
                            ci.field_defaults[s.target.id] = s.value
                    elif isinstance(s, ast.Assign):
                        for t in s.targets:
                            if isinstance(t, ast.Name):
                                ci.fields.setdefault(t.id, None)
                                ci.field_defaults[t.id] = s.value
                self._index_defs(m, n.body, q, ci, None)
                init = ci.methods.get('__init__')
                if init is not None:
                    for s in ast.walk(init.node):
                        tgt = None
                        if isinstance(s, ast.AnnAssign):
                            tgt, ann = s.target, s.annotation
                        elif isinstance(s, ast.Assign) and len(s.targets) == 1:
                            tgt, ann = s.targets[0], None
                        if isinstance(tgt, ast.Attribute) and isinstance(tgt.value, ast.Name) and tgt.value.id == 'self':
                            if getattr(s, 'value', None) is not None:
                                ci.field_values.setdefault(tgt.attr, s.value)
                            if ann is not None or tgt.attr not in ci.fields:
                                ci.fields[tgt.attr] = ann if ann is not None else ci.fields.get(tgt.attr)
            elif isinstance(n, (ast.If, ast.Try, ast.With)):
                subs = [s for s in ast.iter_child_nodes(n) if isinstance(s, ast.stmt)]
                for h in getattr(n, 'handlers', []):
                    subs.extend(h.body)
                self._index_defs(m, subs, prefix, cls, outer)

    # ------------------------------------------------------------------ lookup
    def module(self, name: str) -> Module:
        if name in self.modules:
            return self.modules[name]
        cands = self.by_short.get(name, [])
        if len(cands) == 1:
            return self.modules[cands[0]]
        raise AnalysisError(f'scope anchor: module {name!r} not found (candidates: {cands})')

    def _split(self, ref: str) -> tuple[Module, str]:
        """'queueing.worker' / 'kopf._core.reactor.queueing.worker' / 'progression.State.done' -> (module, rest)."""
        parts = ref.split('.')
        for i in range(len(parts), 0, -1):
            head = '.'.join(parts[:i])
            if head in self.modules and i < len(parts):
                return self.modules[head], '.'.join(parts[i:])
        cands = self.by_short.get(parts[0], [])
        if len(cands) == 1 and len(parts) > 1:
            return self.modules[cands[0]], '.'.join(parts[1:])
        raise AnalysisError(f'scope anchor {ref!r}: module not found or ambiguous ({cands})')

    def fn(self, ref: str) -> FuncInfo:
        m, rest = self._split(ref)
        q = f'{m.name}.{rest}'
        if q in self.funcs:
            return self.funcs[q]
        # inherited method?
        if '.' in rest:
            cname, meth = rest.rsplit('.', 1)
            c = self.classes.get(f'{m.name}.{cname}')
            if c is not None:
                f = self.find_method(c.qualname, meth)
                if f is not None:
                    return f
        raise AnalysisError(f'scope anchor: function {ref!r} not found in {m.relpath()}')

    def has_fn(self, ref: str) -> bool:
        try:
            self.fn(ref)
            return True
        except AnalysisError:
            return False

    def cls(self, ref: str) -> ClassInfo:
        m, rest = self._split(ref)
        q = f'{m.name}.{rest}'
        if q in self.classes:
            return self.classes[q]
        raise AnalysisError(f'scope anchor: class {ref!r} not found in {m.relpath()}')

    def const(self, ref: str) -> ast.AST:
        m, rest = self._split(ref)
        if rest in m.assigns:
            return m.assigns[rest]
        raise AnalysisError(f'scope anchor: module constant {ref!r} not found in {m.relpath()}')

    def functions_in(self, module: str) -> list[FuncInfo]:
        m = self.module(module)
        return [f for q, f in self.funcs.items() if f.module is m and '#' not in q]

    def all_functions(self) -> list[FuncInfo]:
        return [f for q, f in self.funcs.items() if '#' not in q]

    # ------------------------------------------------------------------ name resolution
    def resolve(self, m: Module, node: ast.AST, _depth: int = 0) -> Optional[str]:
        """Resolve a Name/Attribute chain to a dotted global name (repo symbol or external 'asyncio.Queue')."""
        d = dotted(node)
        if d is None:
            if isinstance(node, ast.Subscript):      # Generic[...] / asyncio.Queue[int]
                return self.resolve(m, node.value, _depth)
            return None
        return self.resolve_dotted(m, d, _depth)

    def resolve_dotted(self, m: Module, d: str, _depth: int = 0) -> Optional[str]:
        if _depth > 8:
            return None
        parts = d.split('.')
        head = parts[0]
        if head in m.defs and not isinstance(m.defs[head], (ast.FunctionDef, ast.AsyncFunctionDef, ast.ClassDef)):
            # module-level alias: X = other.Y
            tgt = m.defs[head]
            if isinstance(tgt, (ast.Name, ast.Attribute)) and dotted(tgt) != head:
                base = self.resolve(m, tgt, _depth + 1)
                if base:
                    return self._descend(base, parts[1:], _depth)
            base = f'{m.name}.{head}'
            return self._descend(base, parts[1:], _depth)
        if head in m.defs:
            return self._descend(f'{m.name}.{head}', parts[1:], _depth)
        if head in m.imports:
            return self._descend(m.imports[head], parts[1:], _depth)
        if hasattr(builtins, head):
            return '.'.join(parts)
        return None

    def _descend(self, base: str, rest: list[str], _depth: int) -> str:
        """Follow re-exports: base may be 'kopf._cogs.structs.bodies.Body' or a module re-exporting it."""
        cur = base
        # normalise cur through re-export chains
        cur = self._follow(cur, _depth)
        for p in rest:
            cur = self._follow(f'{cur}.{p}', _depth)
        return cur

    def _follow(self, name: str, _depth: int) -> str:
        if name in self.modules or name in self.classes or name in self.funcs:
            return name
        if '.' in name:
            head, last = name.rsplit('.', 1)
            if head in self.modules:
                mod = self.modules[head]
                if last in mod.imports and last not in mod.defs and _depth < 8:
                    return self._follow(mod.imports[last], _depth + 1)
                if last in mod.defs and isinstance(mod.defs[last], (ast.Name, ast.Attribute)) and _depth < 8:
                    r = self.resolve(mod, mod.defs[last], _depth + 1)
                    if r and r != name:
                        return r
        return name

    # ------------------------------------------------------------------ class hierarchy
    def class_bases(self, cname: str) -> list[str]:
        cname = EXC_ALIASES.get(cname, cname)
        if cname in self.classes:
            return [EXC_ALIASES.get(b, b) for b in self.classes[cname].bases]
        if cname in BUILTIN_EXC:
            b = BUILTIN_EXC[cname]
            return [b] if b else []
        return []

    def mro(self, cname: str) -> list[str]:
        out, todo = [], [EXC_ALIASES.get(cname, cname)]
        while todo:
            c = todo.pop(0)
            if c in out:
                continue
            out.append(c)
            todo.extend(self.class_bases(c))
        return out

    def is_subclass(self, a: str, b: str) -> bool:
        return EXC_ALIASES.get(b, b) in self.mro(a)

    def known_class(self, cname: str) -> bool:
        cname = EXC_ALIASES.get(cname, cname)
        return cname in self.classes or cname in BUILTIN_EXC

    def subclasses(self, cname: str) -> list[str]:
        return [c for c in self.classes if c != cname and self.is_subclass(c, cname)]

    def find_method(self, cname: str, meth: str) -> Optional[FuncInfo]:
        for c in self.mro(cname):
            ci = self.classes.get(c)
            if ci is not None and meth in ci.methods:
                return ci.methods[meth]
        return None

    def find_field(self, cname: str, field: str) -> tuple[Optional[ClassInfo], Optional[ast.AST]]:
        for c in self.mro(cname):
            ci = self.classes.get(c)
            if ci is not None and field in ci.fields:
                return ci, ci.fields[field]
        return None, None

    # ------------------------------------------------------------------ light type inference
    def ann_class(self, m: Module, ann: Optional[ast.AST]) -> Optional[str]:
        """Class named by an annotation, looking through Optional/| None/quotes; containers give None."""
        if ann is None:
            return None
        if isinstance(ann, ast.Constant) and isinstance(ann.value, str):
            try:
                ann = ast.parse(ann.value, mode='eval').body
            except SyntaxError:
                return None
        if isinstance(ann, ast.BinOp) and isinstance(ann.op, ast.BitOr):
            for side in (ann.left, ann.right):
                if isinstance(side, ast.Constant) and side.value is None:
                    continue
                r = self.ann_class(m, side)
                if r:
                    return r
            return None
        if isinstance(ann, ast.Subscript):
            base = self.resolve(m, ann.value)
            if base in ('typing.Optional', 'Optional'):
                return self.ann_class(m, ann.slice)
            if base in ('typing.Annotated',):
                return self.ann_class(m, ann.slice.elts[0]) if isinstance(ann.slice, ast.Tuple) else None
            if base and (base in self.classes):
                return base
            return base if base and base.split('.')[0] in ('asyncio',) else None
        r = self.resolve(m, ann)
        if r is None:
            return None
        if r in self.classes:
            return r
        # type alias at module level:  X = Y | None
        if '.' in r:
            head, last = r.rsplit('.', 1)
            mod = self.modules.get(head)
            if mod is not None and last in mod.assigns:
                return self.ann_class(mod, mod.assigns[last])
        return r if r.split('.')[0] in ('asyncio', 'aiohttp', 'logging', 'threading', 'datetime') else None

    def local_types(self, f: FuncInfo) -> dict[str, str]:
        """name -> class for parameters and annotated/constructed locals of ``f`` (flow-insensitive)."""
        cache = getattr(f, '_local_types', None)
        if cache is not None:
            return cache
        env: dict[str, str] = {}
        f._local_types = env  # type: ignore[attr-defined]
        if f.outer is not None:
            env.update(self.local_types(f.outer))
        m = f.module
        params = f.params()
        if f.cls is not None and params and not any(d in ('staticmethod',) for d in f.decorators):
            env[params[0].arg] = f.cls.qualname
        for a in params:
            c = self.ann_class(m, a.annotation)
            if c:
                env[a.arg] = c
        for _ in range(2):   # two rounds: locals defined from other locals
            for n in walk_no_defs(f.node):
                if isinstance(n, ast.AnnAssign) and isinstance(n.target, ast.Name):
                    c = self.ann_class(m, n.annotation)
                    if c:
                        env[n.target.id] = c
                elif isinstance(n, ast.Assign) and len(n.targets) == 1 and isinstance(n.targets[0], ast.Name):
                    if n.targets[0].id not in env:
                        c = self.type_of(f, n.value, env)
                        if c:
                            env[n.targets[0].id] = c
                elif isinstance(n, (ast.With, ast.AsyncWith)):
                    for it in n.items:
                        if isinstance(it.optional_vars, ast.Name) and it.optional_vars.id not in env:
                            c = self.type_of(f, it.context_expr, env)
                            if c:
                                env[it.optional_vars.id] = c
        return env

    def type_of(self, f: FuncInfo, e: ast.AST, env: Optional[dict[str, str]] = None) -> Optional[str]:
        env = env if env is not None else self.local_types(f)
        m = f.module
        if isinstance(e, ast.Await):
            return self.type_of(f, e.value, env)
        if isinstance(e, ast.Name):
            if e.id in env:
                return env[e.id]
            r = self.resolve(m, e)
            if r and '.' in r:
                head, last = r.rsplit('.', 1)
                mod = self.modules.get(head)
                if mod is not None and last in mod.assigns:   # module-level singleton: x = Cls(...)
                    v = mod.assigns[last]
                    if isinstance(v, ast.Call):
                        c = self.resolve(mod, v.func)
                        if c in self.classes:
                            return c
            return None
        if isinstance(e, ast.Attribute):
            base = self.type_of(f, e.value, env)
            if base is not None:
                ci, ann = self.find_field(base, e.attr)
                if ci is not None and ann is not None:
                    return self.ann_class(ci.module, ann)
                if ci is not None and isinstance(ci.field_values.get(e.attr), ast.Call):
                    c = self.resolve(ci.module, ci.field_values[e.attr].func)  # type: ignore[attr-defined]
                    if c in self.classes:
                        return c
                meth = self.find_method(base, e.attr)
                if meth is not None and any(d.endswith('property') for d in meth.decorators):
                    return self.ann_class(meth.module, meth.node.returns)  # type: ignore[attr-defined]
                return None
            r = self.resolve(m, e)
            if r and '.' in r:
                head, last = r.rsplit('.', 1)
                mod = self.modules.get(head)
                if mod is not None and last in mod.assigns and isinstance(mod.assigns[last], ast.Call):
                    c = self.resolve(mod, mod.assigns[last].func)  # type: ignore[attr-defined]
                    if c in self.classes:
                        return c
            return None
        if isinstance(e, ast.Call):
            for callee in self.callees(f, e):
                if callee in self.classes:
                    return callee
                fi = self.funcs.get(callee)
                if fi is not None:
                    if fi.cls is not None and fi.name in ('__init__',):
                        return fi.cls.qualname
                    c = self.ann_class(fi.module, fi.node.returns)  # type: ignore[attr-defined]
                    if c:
                        return c
                    if isinstance(fi.node.returns, ast.Name) and fi.node.returns.id in ('Self',) and fi.cls:  # type: ignore[attr-defined]
                        return fi.cls.qualname
                    if isinstance(fi.node.returns, ast.Constant) and isinstance(fi.node.returns.value, str) and fi.cls \
                            and fi.node.returns.value == fi.cls.node.name:  # type: ignore[attr-defined]
                        return fi.cls.qualname
                if callee.split('.')[0] in ('asyncio',) and callee.split('.')[-1][:1].isupper():
                    return callee
            return None
        if isinstance(e, ast.IfExp):
            return self.type_of(f, e.body, env) or self.type_of(f, e.orelse, env)
        if isinstance(e, ast.Subscript):
            # X[...] where X: dict[K, V] -- resolve V from the annotation if available
            vt = self._value_type_of_container(f, e.value, env)
            return vt
        return None

    def _value_type_of_container(self, f: FuncInfo, e: ast.AST, env: dict[str, str]) -> Optional[str]:
        ann: Optional[ast.AST] = None
        m = f.module
        if isinstance(e, ast.Name):
            for a in f.params():
                if a.arg == e.id:
                    ann = a.annotation
            if ann is None:
                for n in walk_no_defs(f.node):
                    if isinstance(n, ast.AnnAssign) and isinstance(n.target, ast.Name) and n.target.id == e.id:
                        ann = n.annotation
            if ann is None and f.outer is not None:
                return self._value_type_of_container(f.outer, e, env)
        elif isinstance(e, ast.Attribute):
            base = self.type_of(f, e.value, env)
            if base:
                ci, ann = self.find_field(base, e.attr)
                if ci is not None:
                    m = ci.module
        if isinstance(ann, ast.Subscript) and isinstance(ann.slice, ast.Tuple) and len(ann.slice.elts) == 2:
            return self.ann_class(m, ann.slice.elts[1])
        if isinstance(ann, ast.Subscript) and not isinstance(ann.slice, ast.Tuple):
            head = self.resolve(m, ann.value) or ''
            if head.split('.')[-1] in ('list', 'List', 'Sequence', 'Collection', 'Iterable', 'set', 'Set', 'frozenset', 'tuple'):
                return self.ann_class(m, ann.slice)
        return None

    # ------------------------------------------------------------------ call resolution
    def callees(self, f: FuncInfo, call: ast.Call) -> list[str]:
        """Fully-qualified candidates for the callee of ``call`` inside ``f``.

        Exact when the receiver is typed or the name is module-qualified; for an untyped receiver the
        fallback is every repo method of that name (over-approximation), marked by a leading '?'.
        """
        fn = call.func
        m = f.module
        if isinstance(fn, ast.Name):
            # nested function of this or an enclosing function?
            g: Optional[FuncInfo] = f
            while g is not None:
                q = f'{g.qualname}.{fn.id}'
                if q in self.funcs:
                    return [q]
                g = g.outer
            # local variable bound to functools.partial(f, ...) or to a function
            r = self.resolve(m, fn)
            if r:
                if r in self.classes:
                    return [r]
                return [r]
            return []
        if isinstance(fn, ast.Attribute):
            r = self.resolve(m, fn)
            if r and (r in self.funcs or r in self.classes or r.split('.')[0] not in (self.package,) and dotted(fn) and dotted(fn).split('.')[0] in m.imports):
                return [r]
            base = self.type_of(f, fn.value)
            if base is not None:
                meth = self.find_method(base, fn.attr)
                if meth is not None:
                    out = [meth.qualname]
                    # virtual dispatch: overriding implementations in subclasses
                    for sc in self.subclasses(base):
                        sm = self.classes[sc].methods.get(fn.attr)
                        if sm is not None and sm.qualname not in out:
                            out.append(sm.qualname)
                    return out
                return [f'{base}.{fn.attr}']
            if r and r in self.funcs:
                return [r]
            # untyped receiver: class-hierarchy fallback by method name
            cands = [fi.qualname for fi in self.funcs.values() if fi.cls is not None and fi.name == fn.attr and fi.outer is None]
            return ['?' + c for c in cands]
        return []

    def callee_names(self, f: FuncInfo, call: ast.Call) -> set[str]:
        return {c.lstrip('?') for c in self.callees(f, call)}

    def calls_in(self, f: FuncInfo, *, into_nested: bool = False) -> list[ast.Call]:
        it = ast.walk(f.node) if into_nested else walk_no_defs(f.node, include_lambdas=True)
        return [n for n in it if isinstance(n, ast.Call)]

    def call_index(self) -> dict[str, list[tuple[FuncInfo, ast.Call, bool]]]:
        """callee -> [(function, call, exact)] over the whole package, built in one pass and cached."""
        if self._callers_cache is None:
            idx: dict[str, list[tuple[FuncInfo, ast.Call, bool]]] = {}
            for f in self.all_functions():
                for c in self.calls_in(f):
                    for cal in self.callees(f, c):
                        ex = not cal.startswith('?')
                        idx.setdefault(cal.lstrip('?'), []).append((f, c, ex))
            self._callers_cache = idx
        return self._callers_cache

    def call_sites_of(self, target: str, *, exact: bool = False) -> list[tuple[FuncInfo, ast.Call]]:
        """Every call in the package whose resolved callee is ``target``."""
        tq = self._qual(target)
        out = []
        seen = set()
        for f, c, ex in self.call_index().get(tq, []):
            if exact and not ex:
                continue
            if id(c) in seen:
                continue
            seen.add(id(c))
            out.append((f, c))
        return out

    def _qual(self, ref: str) -> str:
        if ref in self.funcs or ref in self.classes:
            return ref
        try:
            m, rest = self._split(ref)
            return f'{m.name}.{rest}'
        except AnalysisError:
            return ref

    def enclosing_function(self, m: Module, node: ast.AST) -> Optional[FuncInfo]:
        p = m.parent.get(node)
        while p is not None:
            if isinstance(p, (ast.FunctionDef, ast.AsyncFunctionDef)):
                for fi in self.funcs.values():
                    if fi.node is p:
                        return fi
            p = m.parent.get(p)
        return None

    def stmt_of(self, m: Module, node: ast.AST) -> ast.AST:
        p = node
        while p is not None and not isinstance(p, ast.stmt):
            p = m.parent.get(p)
        return p if p is not None else node
