"""
D2 (C20): watcher, peering and keep-alive tasks are created by the orchestrator, stored in the
Ensemble and never awaited or monitored. When one of them fails (unknown ERROR event in the watch
stream, escalated API error, an object worker failing unrecoverably -> RuntimeError from the
watcher), the failure is only logged: the orchestrator -- an essential root task -- keeps waiting
for insight revisions and the operator lingers half-alive. On a later shutdown the failure is not
re-raised either. Here the real queueing.watcher is replaced by a coroutine that fails the same
way the real one does.
Run: /venv/bin/python D02_unobserved_watcher_task.py
"""
import asyncio, logging
from kopf._core.reactor import orchestration, queueing
from kopf._cogs.structs import references
from kopf._cogs.configs import configuration
from kopf._cogs.aiokits import aiotoggles

async def failing_watcher(**kw):
    await asyncio.sleep(0.05)
    raise RuntimeError("Event processing has failed with an unrecoverable error (simulated)")
orchestration.queueing.watcher = failing_watcher

async def proc(**kw): return None

async def main():
    settings = configuration.OperatorSettings(); settings.peering.standalone = True
    insights = references.Insights()
    r = references.Resource('g', 'v1', 'plural', namespaced=True, verbs=frozenset({'list','watch','patch'}))
    insights.watched_resources.add(r); insights.namespaces.add(None)
    paused = aiotoggles.ToggleSet(any)
    t = asyncio.create_task(orchestration.orchestrator(processor=proc, settings=settings, identity='me', insights=insights, operator_paused=paused))
    await asyncio.sleep(0.01)
    async with insights.revised: insights.revised.notify_all()
    await asyncio.sleep(1.0)
    print("orchestrator done after watcher failure?", t.done())
    t.cancel()
    try: await t
    except BaseException as e: print("orchestrator ended with", type(e).__name__)
asyncio.run(main())
