"""Mutation self-test of the checkers (DESIGN.md §2.3): each mutant is a scratch copy of /repo/kopf with one rule
instance broken (must be reported, naming that rule) or a benign refactoring (must stay silent).

Mutants are textual edits of a *scratch copy* -- they test the checkers; the checkers themselves never match text.
Usage: ./bin/selftest [Cxx ...] [-j N] [-k substring]
"""
from __future__ import annotations

import importlib
import os
import shutil
import subprocess
import sys
import tempfile
import time
from concurrent.futures import ThreadPoolExecutor

VERIF_ROOT = os.path.dirname(os.path.dirname(os.path.abspath(__file__)))
REPO = os.environ.get('KVERIF_REPO', '/repo')
PY = '/venv/bin/python' if os.path.exists('/venv/bin/python') else sys.executable


def load_mutants(props: list[str]) -> list[dict]:
    out = []
    mdir = os.path.join(VERIF_ROOT, 'kverif', 'mutants')
    for fn in sorted(os.listdir(mdir)):
        if not fn.endswith('.py') or fn.startswith('_'):
            continue
        pid = fn[:-3]
        if props and pid not in props:
            continue
        mod = importlib.import_module(f'kverif.mutants.{pid}')
        for m in mod.MUTANTS:
            m = dict(m)
            m.setdefault('prop', pid)
            out.append(m)
    return out


def run_one(m: dict) -> tuple[dict, bool, str]:
    tmp = tempfile.mkdtemp(prefix='kverif-mut-')
    try:
        shutil.copytree(os.path.join(REPO, 'kopf'), os.path.join(tmp, 'kopf'))
        edits = m.get('edits') or [(m['file'], m['old'], m['new'])]
        for file, old, new in edits:
            path = os.path.join(tmp, file)
            text = open(path).read()
            if text.count(old) != 1:
                return m, False, f'mutant does not apply: {text.count(old)} occurrences of the anchor in {file}'
            text = text.replace(old, new)
            try:
                compile(text, path, 'exec')
            except SyntaxError as e:
                return m, False, f'mutant does not compile: {e}'
            open(path, 'w').write(text)
        env = dict(os.environ, KVERIF_REPO=tmp, KVERIF_EVIDENCE_DIR=os.path.join(tmp, 'evidence'),
                   PYTHONPATH=VERIF_ROOT, PYTHONDONTWRITEBYTECODE='1')
        r = subprocess.run([PY, '-m', 'kverif.core', m['prop'], '--tier', m.get('tier', 'quick')], cwd=VERIF_ROOT, env=env,
                           capture_output=True, text=True, timeout=600)
        out = r.stdout + r.stderr
        if m.get('benign'):
            ok = r.returncode == 0 and 'VIOLATION' not in out
            return m, ok, '' if ok else f'benign twin raised an alarm (exit {r.returncode}):\n{out[-1500:]}'
        lines = [ln for ln in out.splitlines() if ln.strip().startswith(m['rule'] + ' ')]
        ok = r.returncode == 1 and 'VIOLATION' in out and bool(lines)
        return m, ok, '' if ok else f'mutant not reported under {m["rule"]} (exit {r.returncode}):\n{out[-1500:]}'
    finally:
        shutil.rmtree(tmp, ignore_errors=True)


def main() -> int:
    import argparse
    ap = argparse.ArgumentParser()
    ap.add_argument('props', nargs='*')
    ap.add_argument('-j', type=int, default=16)
    ap.add_argument('-k', default='')
    a = ap.parse_args()
    muts = [m for m in load_mutants(a.props) if a.k in m['id']]
    t0 = time.time()
    failed = 0
    with ThreadPoolExecutor(max_workers=a.j) as ex:
        for m, ok, msg in ex.map(run_one, muts):
            kind = 'benign' if m.get('benign') else 'mutant'
            print(f'{"ok  " if ok else "FAIL"} {m["prop"]} {m.get("rule", "-"):7} {kind:6} {m["id"]}')
            if not ok:
                failed += 1
                print('     ' + msg.replace('\n', '\n     '))
    print(f'{len(muts)} variants, {failed} failed, {time.time() - t0:.1f} s')
    return 1 if failed else 0


if __name__ == '__main__':
    sys.exit(main())
