"""
D12 (C15): for creation, deletion and resume handlers the `value=` criterion is evaluated against
[new, old] exactly as for update handlers, although such handlers see one state only (docs:
"For all other handlers that have no concept of 'updating' ... the field=/value= filters check the
resource in its current ---and only--- state"; property C15: "current value; for updates old or new
value"). Consequences shown below: the documented example `@kopf.on.create(field=..., value=kopf.ABSENT)`
("created_without_field") is selected for an object created WITH the field, because the "old" side of a
creation is always absent; deletion/resume handlers are selected by a value the object no longer has.
(12 tests in tests/registries pin the present behaviour, so this is recorded, not repaired.)
Run: /venv/bin/python D12_value_criterion_uses_old_state.py
"""
import kopf, logging
from kopf._core.intents import registries, causes
from kopf._cogs.structs import bodies, patches, references, diffs
from kopf._core.engines.indexing import OperatorIndexers
registry = registries.OperatorRegistry()
@kopf.on.create('g', 'v1', 'plural', registry=registry, field='spec.field', value=kopf.ABSENT)
def created_without_field(**_): pass
@kopf.on.delete('g', 'v1', 'plural', registry=registry, field='spec.field', value='old-value')
def deleted_with_value(**_): pass
@kopf.on.resume('g', 'v1', 'plural', registry=registry, field='spec.field', value='old-value')
def resumed_with_value(**_): pass
resource = references.Resource('g', 'v1', 'plural')
def cause(reason, old, new, body, initial=False):
    return causes.ChangingCause(resource=resource, indices=OperatorIndexers().indices, logger=logging.getLogger(), patch=patches.Patch(),
        body=bodies.Body(body), memo=None, initial=initial, reason=reason, old=old, new=new, diff=diffs.diff(old, new))
new = {'spec': {'field': 'present-value'}}
c = cause(causes.Reason.CREATE, None, new, {'metadata': {'name': 'x'}, **new})
print('CREATE of an object WITH spec.field; handlers selected:', [h.id for h in registry._changing.get_handlers(c)])
old = {'spec': {'field': 'old-value'}}; new = {'spec': {'field': 'new-value'}}
c = cause(causes.Reason.DELETE, old, new, {'metadata': {'name': 'x', 'deletionTimestamp': 't', 'finalizers': ['kopf.zalando.org/KopfFinalizerMarker']}, **new})
print('DELETE of an object whose CURRENT spec.field is "new-value" (last handled: "old-value"); selected:', [h.id for h in registry._changing.get_handlers(c)])
c = cause(causes.Reason.UPDATE, old, new, {'metadata': {'name': 'x'}, **new}, initial=True)
print('RESUME mixed into UPDATE, current "new-value"; selected:', [h.id for h in registry._changing.get_handlers(c)])
