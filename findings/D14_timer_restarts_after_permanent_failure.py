"""
D14 (C11/C10): in daemons._timer the per-tick state is reset whenever `state.done`, and `done` means
"succeeded OR failed for good". After a PermanentError, an arbitrary error in PERMANENT mode, exhausted
`retries=` or an exceeded `timeout=`, the timer therefore sleeps one interval and starts again from
retry=0 -- forever. The docs ("For kopf.PermanentError, the timer stops forever and is not retried"),
the code comment ("Reset ... if it has succeeded. Keep it if failed.") and the test name
`test_timer_stopped_on_permanent_error` (which uses interval=999 and only waits 123 s, so it never
reaches the second tick) all say otherwise. `retries=N` is thus not an upper bound for timers.
Run: /venv/bin/python D14_timer_restarts_after_permanent_failure.py
"""
import asyncio, logging
import kopf
from kopf._core.engines import daemons
from kopf._core.intents import causes, handlers as H
from kopf._cogs.structs import bodies, patches, references, ids
from kopf._cogs.configs import configuration
from kopf._core.engines.indexing import OperatorIndexers
logging.disable(logging.CRITICAL)
calls = []
async def fn(retry, **_):
    calls.append(retry)
    raise kopf.PermanentError("never again")
calls2 = []
async def fn2(retry, **_):
    calls2.append(retry)
    raise Exception("arbitrary")

async def run(fn, **kw):
    settings = configuration.OperatorSettings()
    handler = H.TimerHandler(id=ids.HandlerId('t'), fn=fn, param=None, errors=None, timeout=None, retries=kw.get('retries'), backoff=0.01,
        selector=None, labels=None, annotations=None, when=None, field=None, value=None,
        requires_finalizer=True, initial_delay=None, sharp=None, idle=None, interval=0.05)
    body = bodies.Body({'metadata': {'name': 'x', 'namespace': 'ns', 'uid': 'u'}})
    memory = daemons.DaemonsMemory(); memory.live_fresh_body = body
    cause = causes.SpawningCause(resource=references.Resource('g', 'v1', 'plural'), indices=OperatorIndexers().indices,
        logger=logging.getLogger('x'), memo=None, body=body, patch=patches.Patch(body=body), reset=False)
    running = {}
    await daemons.spawn_daemons(settings=settings, handlers=[handler], daemons=running, cause=cause, memory=memory)
    await asyncio.sleep(1.0)
    for d in list(running.values()): d.task.cancel()
    await asyncio.sleep(0.05)

async def main():
    await run(fn)
    print('timer raising PermanentError, interval=0.05s, observed for 1s: invocations =', len(calls), 'retry kwargs =', calls[:8])
    await run(fn2, retries=3)
    print('timer with retries=3 raising arbitrary errors: invocations =', len(calls2), 'retry kwargs =', calls2[:12])
asyncio.run(main())
