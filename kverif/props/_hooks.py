"""Extension rule sets: every module `kverif/props/_x_*.py` may define

    EXTRA = {'C02': [(check_function, 'R2.12'), ...], ...}

Each `check_function(ctx, rule)` is run as part of the named property's check (quick and thorough), after the property's own rules.
"""
from __future__ import annotations

import importlib
import os
import pkgutil

from ..core import Ctx


def run(ctx: Ctx, pid: str) -> None:
    here = os.path.dirname(__file__)
    for m in sorted(pkgutil.iter_modules([here]), key=lambda m: m.name):
        if not m.name.startswith('_x_'):
            continue
        mod = importlib.import_module(f'kverif.props.{m.name}')
        for fn, rule in getattr(mod, 'EXTRA', {}).get(pid, []):
            fn(ctx, rule)


def describe(pid: str) -> str:
    """One sentence per extension module that contributes rules to this property: the rule ids and what kind of rules they are (the module's
    `KINDS[pid]` text if given, else the first line of its docstring)."""
    here = os.path.dirname(__file__)
    parts = []
    for m in sorted(pkgutil.iter_modules([here]), key=lambda m: m.name):
        if not m.name.startswith('_x_'):
            continue
        mod = importlib.import_module(f'kverif.props.{m.name}')
        entries = getattr(mod, 'EXTRA', {}).get(pid, [])
        if not entries:
            continue
        ids = ', '.join(sorted({rule for _, rule in entries}, key=lambda r: [int(x) if x.isdigit() else x for x in r[1:].split('.')]))
        kinds = getattr(mod, 'KINDS', {}).get(pid) or (mod.__doc__ or '').strip().split('\n')[0][:160]
        parts.append(f'{m.name[3:]} [{ids}]: {kinds}')
    return '; '.join(parts)
