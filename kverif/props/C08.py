"""C08 -- accumulated patches are delivered completely, atomically and exactly once (R8.1-R8.6)."""
from __future__ import annotations

import ast
import re
from typing import Any, Optional

from .. import absint
from ..core import Ctx, PropSpec
from ..rules import calls_in, construct, is_call_to, kwarg, norm, origin
from ..srcmodel import AnalysisError, FuncInfo, dotted, src, walk_no_defs

PATCHING = 'kopf._cogs.clients.patching'
E422 = 'kopf._cogs.clients.errors.APIUnprocessableEntityError'
E404 = 'kopf._cogs.clients.errors.APINotFoundError'

ATOMS = {
    'S': r"^in\('status', resource\.subresources\)$",
    'B': r'^truthy\((dict\(patch\)#\d+|dict\(patch\)|patch)\)$',
    'TN': r"^isnone\(dict\(patch\)(#\d+)?\.pop\('status', None\)\)$",
    'JBs': r"^truthy\(\[op for op in .* if not \(",
    'JBn': r'^truthy\(.*\.as_json_patch\(.*\)\)$',
    'JS': r"^truthy\(\[op for op in .* if op\['path'\]",
}


def _requests(p: absint.Path) -> list[dict]:
    out = []
    for e in p.trace:
        if e.label == 'patch':
            url = e.kw.get('url')
            hdr = e.kw.get('headers')
            payload = e.kw.get('payload')
            ct = 'json' if hdr is not None and 'json-patch+json' in hdr.key else 'merge' if hdr is not None and 'merge-patch+json' in hdr.key else '?'
            sub = 'status' if url is not None and "subresource='status'" in url.key else 'main'
            out.append({'ct': ct, 'sub': sub, 'payload': payload, 'result': e.key, 'raised': None, 'url': url})
        elif e.label.startswith('raised:') and out:
            out[-1]['raised'] = e.label.split(':', 1)[1]
    return out


def _test_op(payload: Optional[absint.V]) -> Optional[dict]:
    """kwargs of the JSONPatchItem that is the FIRST element of a JSON payload."""
    if payload is None or payload.kind != 'coll' or payload.data[0] != 'concat':
        return None
    first = payload.data[1][0]
    if first.kind != 'coll' or first.data[0] != 'display' or len(first.data[1]) != 1:
        return None
    item = first.data[1][0]
    if item.kind != 'new' or not item.data[0].endswith('patches.JSONPatchItem'):
        return None
    return item.data[1]


def check_patch_obj(ctx: Ctx, rule_prefix: str = 'R8') -> None:
    repo = ctx.repo
    f = repo.fn(f'{PATCHING}.patch_obj')
    ctx.analysed(f)

    def eff(it, p, call, names):
        if any(n.endswith('clients.api.patch') for n in names):
            return 'patch'
        if any(n.endswith('patches.Patch.as_json_patch') for n in names) or (isinstance(call.func, ast.Attribute) and call.func.attr == 'as_json_patch'):
            return 'jsonops'
        return None
    cfg = absint.Config(effect=eff, versioned={'body_patch'}, raising={'api.patch': [E422, E404]})
    paths = absint.analyse(repo, f, cfg)
    ctx.count('paths', len(paths))
    n_val = 0
    bad: dict[str, list[str]] = {'R8.1': [], 'R8.2': [], 'R8.3': []}
    rows = set()
    for p in paths:
        reqs = _requests(p)
        raised = next(((i, r['raised']) for i, r in enumerate(reqs) if r['raised']), None)
        for v in absint.completions(p, ATOMS, lambda k, _p=p: absint.entails(repo, f, _p, k)):
            n_val += 1
            s = v['S']
            exp: list[tuple[str, str]] = []
            if v['B']:
                exp.append(('merge', 'main'))
            if s and not v['TN']:
                exp.append(('merge', 'status'))
            jb = v['JBs'] if s else v['JBn']
            js = v['JS'] if s else False
            if jb:
                exp.append(('json', 'main'))
            if js:
                exp.append(('json', 'status'))
            if raised is not None:
                exp = exp[:raised[0] + 1]
            got = [(r['ct'], r['sub']) for r in reqs]
            rows.add((tuple(exp), raised[1] if raised else None))
            if got != exp:
                bad['R8.1'].append(f'valuation {_fmt(v)}: expected requests {exp}, observed {got}')
                continue
            # outcome
            if raised is None:
                ok = p.status == 'return' and p.retval is not None and p.retval.kind == 'tuple' and len(p.retval.data) == 2 \
                    and p.retval.data[1].kind == 'const' and p.retval.data[1].data is None
                last = reqs[-1]['result'] if reqs else None
                if ok and last is not None and p.retval.data[0].key != last:
                    ok = False
                if not ok:
                    bad['R8.3'].append(f'success path must return (last response body, None): returns {p.retval.key if p.retval else p.status}')
            elif raised[1] == E404:
                ok = p.status == 'return' and p.retval is not None and p.retval.key == '(None, None)'
                if not ok:
                    bad['R8.2'].append(f'404 on request #{raised[0] + 1} {got[raised[0]]} must end patching silently with (None, None): '
                                       f'{p.status} {p.retval.key if p.retval else p.exc}')
            elif raised[1] == E422:
                kind = got[raised[0]][0]
                if kind == 'json':
                    rv = p.retval
                    ok = p.status == 'return' and rv is not None and rv.kind == 'tuple' and len(rv.data) == 2 and rv.data[1].kind == 'new' \
                        and rv.data[1].data[0].endswith('patches.Patch')
                    if ok:
                        kws = rv.data[1].data[1]
                        ok = set(kws) == {'fns'} and kws['fns'].key == 'patch.fns'
                    if not ok:
                        bad['R8.3'].append(f'422 on JSON request #{raised[0] + 1} must return the remaining patch holding exactly patch.fns and no dict '
                                           f'content: {p.status} {rv.key if rv else p.exc}')
                else:
                    # a 422 on a merge-patch is not a concurrency conflict: it must propagate
                    if p.status != 'raise':
                        bad['R8.3'].append(f'422 on a merge request must propagate, observed {p.status}')
        # the JSON ops are computed against the freshest body known when they are computed (the response of the last merge request,
        # else the body the patch was built for) -- the same body whose resourceVersion the test op then pins
        merged = [r['result'] for r in reqs if r['ct'] == 'merge' and not r['raised']]
        for e in p.trace:
            if e.label == 'jsonops':
                base = e.kw.get('#0') or e.kw.get('body')
                freshest = merged[-1] if merged else 'patch._original'
                allowed = {freshest, 'patch._original'} if absint.entails(repo, f, p, f'truthy({freshest})') is not True else {freshest}
                recv_ok = isinstance(e.node.func, ast.Attribute) and 'fns=patch.fns' in e.key.split('.as_json_patch')[0]
                if base is None or base.key not in allowed:
                    bad['R8.1'].append(f'the JSON ops of the transformations are computed against `{base.key if base else None}`, not against the freshest body '
                                       f'`{freshest}` whose resourceVersion the test op pins (ops from a stale state would pass the test)')
                if not recv_ok:
                    bad['R8.1'].append(f'the JSON ops are not computed from the remaining patch (exactly patch.fns): `{e.key[:100]}`')
        # JSON payloads: first op is the resourceVersion test against the freshest body known
        prev_results: list[str] = []
        for i, r in enumerate(reqs):
            if r['ct'] == 'json':
                t = _test_op(r['payload'])
                okt = t is not None and t.get('op') is not None and t['op'].key == "'test'" and t.get('path') is not None \
                    and t['path'].key == "'/metadata/resourceVersion'" and t.get('value') is not None
                if not okt:
                    bad['R8.1'].append(f'JSON request #{i + 1} {r["sub"]}: the payload does not start with a test op on /metadata/resourceVersion: '
                                       f'{r["payload"].key[:120] if r["payload"] else None}')
                else:
                    m = re.match(r"^\((.*) or \{\}\)\.get\('metadata', \{\}\)\.get\('resourceVersion'\)$", t['value'].key)
                    fresh = m.group(1) if m else None
                    freshest = prev_results[-1] if prev_results else 'patch._original'
                    # `patched_body or patch._original`: an empty response body (tests' mocks) falls back to the original
                    allowed = {freshest, 'patch._original'} if absint.entails(repo, f, p, f'truthy({freshest})') is not True else {freshest}
                    if fresh not in allowed:
                        bad['R8.1'].append(f'JSON request #{i + 1} {r["sub"]}: the tested resourceVersion comes from `{fresh}`, not from the freshest body `{freshest}`')
            if not r['raised']:
                prev_results.append(r['result'])
    ctx.count('valuations', n_val)
    for rule, msgs in bad.items():
        uniq = list(dict.fromkeys(msgs))
        what = {
            'R8.1': 'patch_obj (Appendix A.8): requests = merge(body) iff body keys, merge(status subresource) iff a status key and the resource has the '
                    'subresource, json(body), json(status); every JSON payload starts with a resourceVersion test against the freshest body',
            'R8.2': 'patch_obj: a 404 on any of the four requests ends patching silently with (None, None)',
            'R8.3': 'patch_obj: a 422 on a JSON request returns the remaining patch = exactly patch.fns (nothing dropped, no dict content); success returns None',
        }[rule]
        ctx.ob(rule if rule_prefix == 'R8' else rule_prefix,
               f'{what} ({len(paths)} paths, {n_val} valuations, {len(rows)} distinct request rows)', not uniq and len(rows) >= 8,
               loc=f.loc(), construct=construct(f, f'table:{rule}'), detail=' | '.join(uniq[:3]))
    ctx.sample({'rule': 'R8.1', 'rows': sorted(str(r) for r in rows)[:12]})


def _fmt(v: dict) -> str:
    return ' '.join(f'{k}={int(bool(x))}' for k, x in sorted(v.items()))


# ------------------------------------------------------------------------------------------------ NODROP / FLOW
def _patch_sites(ctx: Ctx) -> list[tuple[FuncInfo, ast.Call, str]]:
    repo = ctx.repo
    out = []
    for target in ('patching.patch_obj', 'application.patch_and_check'):
        for f, c in repo.call_sites_of(target, exact=False):
            out.append((f, c, target))
    return out


def _proved_fn_free(repo, f: FuncInfo, call: ast.Call) -> Optional[str]:
    """Reason why the patch passed at this call site carries no transformation fns, else None."""
    arg = kwarg(call, 'patch')
    if arg is None:
        return None

    def is_plain_ctor(e: ast.AST) -> bool:
        if not (isinstance(e, ast.Call) and any(n.endswith('patches.Patch') for n in repo.callee_names(f, e))):
            return False
        if any(k.arg in ('fns',) or k.arg is None for k in e.keywords):
            return False
        # a positional source must be a dict display (not another Patch whose fns would be inherited)
        return all(isinstance(a, ast.Dict) for a in e.args)
    if is_plain_ctor(arg):
        return 'constructed at the call site as a plain Patch({...})'
    if isinstance(arg, ast.Name):
        # bindings of the local: one plain constructor + any number of `name |= {dict content}`
        binds: list = []
        for n in walk_no_defs(f.node):
            if isinstance(n, ast.Assign) and any(isinstance(t, ast.Name) and t.id == arg.id for t in n.targets):
                binds.append(('ctor', n.value))
            elif isinstance(n, ast.AnnAssign) and isinstance(n.target, ast.Name) and n.target.id == arg.id and n.value is not None:
                binds.append(('ctor', n.value))
            elif isinstance(n, ast.AugAssign) and isinstance(n.target, ast.Name) and n.target.id == arg.id:
                binds.append(('aug', n))
            elif isinstance(n, ast.Name) and n.id == arg.id and isinstance(n.ctx, ast.Store) and not isinstance(f.module.parent.get(n), (ast.Assign, ast.AnnAssign, ast.AugAssign)):
                binds.append(('other', n))
        ctors = [v for k, v in binds if k == 'ctor']
        augs_ok = all(isinstance(v.op, ast.BitOr) and isinstance(v.value, (ast.Dict, ast.DictComp)) for k, v in binds if k == 'aug')
        if len(ctors) == 1 and is_plain_ctor(ctors[0]) and augs_ok and not any(k == 'other' for k, _ in binds):
            name = arg.id
            # the local must not be handed to anything else, nor have its .fns touched
            for n in walk_no_defs(f.node, include_lambdas=True):
                if isinstance(n, ast.Attribute) and isinstance(n.value, ast.Name) and n.value.id == name and n.attr in ('fns', '_fns'):
                    return None
                if isinstance(n, ast.Call) and n is not call:
                    for a in list(n.args) + [k.value for k in n.keywords]:
                        if isinstance(a, ast.Name) and a.id == name:
                            # progress_storage.touch(body=, patch=touch, value=) writes annotations/status only: allowed callee list
                            if not is_call_to(repo, f, n, 'progress.ProgressStorage.touch'):
                                return None
            return f'`{name}` is a local plain Patch() that is only filled with dict content'
    return None


def check_carry_forward(ctx: Ctx, rule_prefix: str = 'R8') -> None:
    """R8.4 NODROP + R8.5 FLOW (also used as R6.6)."""
    repo = ctx.repo
    sites = _patch_sites(ctx)
    r4 = f'{rule_prefix}.4' if rule_prefix == 'R8' else rule_prefix
    r5 = f'{rule_prefix}.5' if rule_prefix == 'R8' else rule_prefix
    ctx.require_sites(r4, 'call sites of patch_obj / patch_and_check', len(sites), 9)
    for f, c, target in sites:
        ctx.analysed(f)
        stmt = repo.stmt_of(f.module, c)
        consumed = False
        how = ''
        if isinstance(stmt, ast.Assign) and len(stmt.targets) == 1 and isinstance(stmt.targets[0], ast.Tuple) and len(stmt.targets[0].elts) == 2:
            t = stmt.targets[0].elts[1]
            if isinstance(t, ast.Name) and t.id != '_':
                uses = [n for n in walk_no_defs(f.node) if isinstance(n, ast.Name) and n.id == t.id and isinstance(n.ctx, ast.Load)]
                meaningful = [u for u in uses if not _only_logged(f, u)]
                consumed = bool(meaningful)
                how = f'bound to `{t.id}` and used'
        elif isinstance(stmt, ast.Return):
            consumed = True
            how = 'returned to the caller'
        reason = _proved_fn_free(repo, f, c)
        ok = consumed or reason is not None
        ctx.ob(r4, f'{f.short}: the remaining patch returned by {target.split(".")[-1]} is consumed ({how}) or the patch passed is proved free of '
               f'transformation fns' + (f' ({reason})' if reason and not consumed else ''), ok, loc=f.loc(c),
               construct=f'{f.qualname}:nodrop:{target.split(".")[-1]}:{norm(kwarg(c, "patch"), 40)}',
               detail='' if ok else f'`{norm(stmt, 100)}` discards the second result and the patch may carry fns')
    # R8.5 FLOW: the cycle's patch starts from the carried-forward one and the new remainder is stored back
    pe = repo.fn('processing.process_resource_event')
    ctx.analysed(pe)
    ctors = [c for c in calls_in(pe.node) if any(n.endswith('patches.Patch') for n in repo.callee_names(pe, c))]
    from_mem = [c for c in ctors if c.args and src(c.args[0]).endswith('.remaining_patch')]
    ctx.ob(r5, 'process_resource_event: the cycle patch is built from memory.remaining_patch (transformations carried forward are re-evaluated)',
           len(from_mem) == 1 and len(ctors) == 1, loc=pe.loc(), construct=construct(pe, 'flow:Patch(memory.remaining_patch)'),
           detail='; '.join(norm(c) for c in ctors))
    stores = [n for n in walk_no_defs(pe.node) if isinstance(n, ast.Assign) and any(isinstance(t, ast.Attribute) and t.attr == 'remaining_patch' for t in n.targets)]
    ok = False
    for s in stores:
        if isinstance(s.value, ast.Name):
            # the stored name is the 3rd element unpacked from application.apply(...)
            for a in walk_no_defs(pe.node):
                if isinstance(a, ast.Assign) and isinstance(a.targets[0], ast.Tuple) and isinstance(a.value, ast.Await) \
                        and is_call_to(repo, pe, a.value.value, 'application.apply'):
                    elts = a.targets[0].elts
                    if len(elts) == 3 and isinstance(elts[2], ast.Name) and elts[2].id == s.value.id:
                        ok = True
    ctx.ob(r5, 'process_resource_event: the remaining patch returned by apply() is stored back into the object memory', ok and len(stores) == 1,
           loc=pe.loc(stores[0]) if stores else pe.loc(), construct=construct(pe, 'flow:memory.remaining_patch='))
    # ... unconditionally: also a None/empty remainder must replace the old one (else a stale remainder pre-populates every later cycle,
    # which then never reaches the state-dependent handlers again -- table A.3, atom P0)
    from ..rules import cfg_of, witness
    g = cfg_of(ctx, pe)[1]
    apply_nodes = g.call_nodes('application.apply')
    store_nodes = [n for n in g.nodes if n.stmt is not None and any(n.stmt is s_ for s_ in stores)]
    after_apply = [m for n in apply_nodes for m in n.succ if m not in n.exc_edges.values()]     # apply() completed normally
    esc = g.escaping_exits(after_apply, store_nodes, classes=('normal',)) if apply_nodes else [None]
    esc = [e for e in esc if not any(m in store_nodes for m in after_apply)] if esc != [None] else esc
    ctx.ob(r5, 'process_resource_event: after apply() every normal path stores the new remainder (None included) -- a stale remainder is never kept',
           bool(apply_nodes) and bool(store_nodes) and not esc, loc=pe.loc(stores[0]) if stores else pe.loc(),
           construct=construct(pe, 'allexits:memory.remaining_patch= after apply'),
           detail='' if not esc or esc == [None] else 'a normal exit is reachable after apply() without the store: ' + witness(g, after_apply, esc[0], store_nodes))
    ap = repo.fn('application.apply')
    ctx.analysed(ap)
    rets = [r for r in walk_no_defs(ap.node) if isinstance(r, ast.Return) and isinstance(r.value, ast.Tuple) and len(r.value.elts) == 3]
    first = None
    for a in walk_no_defs(ap.node):
        if isinstance(a, ast.Assign) and isinstance(a.targets[0], ast.Tuple) and len(a.targets[0].elts) == 2 and isinstance(a.value, ast.Await) \
                and is_call_to(repo, ap, a.value.value, 'application.patch_and_check') and dotted(kwarg(a.value.value, 'patch')) == 'patch':
            first = a.targets[0].elts[1]
    ok = bool(rets) and first is not None and isinstance(first, ast.Name) and all(dotted(r.value.elts[2]) == first.id for r in rets)
    # ... and that name is not rebound afterwards
    if ok:
        rebinds = [n for n in walk_no_defs(ap.node) if isinstance(n, ast.Name) and n.id == first.id and isinstance(n.ctx, ast.Store)]
        ok = len(rebinds) == 1
    ctx.ob(r5, 'apply(): the third result is the remaining patch of the request that carried the cycle patch', ok, loc=ap.loc(),
           construct=construct(ap, 'flow:return remaining_patch'))
    for ref in ('daemons._daemon', 'daemons._timer'):
        d = repo.fn(ref)
        ctx.analysed(d)
        okd = False
        for a in walk_no_defs(d.node):
            if isinstance(a, ast.Assign) and isinstance(a.value, ast.Call) and any(n.endswith('patches.Patch') for n in repo.callee_names(d, a.value)):
                tg = [src(t) for t in a.targets]
                if 'cause.patch' in tg and a.value.args and isinstance(a.value.args[0], ast.Name):
                    nm = a.value.args[0].id
                    for b in walk_no_defs(d.node):
                        if isinstance(b, ast.Assign) and isinstance(b.targets[0], ast.Tuple) and len(b.targets[0].elts) == 2 \
                                and isinstance(b.targets[0].elts[1], ast.Name) and b.targets[0].elts[1].id == nm and isinstance(b.value, ast.Await) \
                                and is_call_to(repo, d, b.value.value, 'application.patch_and_check'):
                            # the patch handed to the next attempt is the rebuilt one: either the local alias is rebound together with cause.patch, or
                            # the loop (re-)reads its patch from cause.patch after the rebuild (an alias bound inside the loop, `p = cause.patch`)
                            used = kwarg(b.value.value, 'patch')
                            used_name = used.id if isinstance(used, ast.Name) else None
                            reread = any(isinstance(c, ast.Assign) and any(isinstance(t, ast.Name) and t.id == used_name for t in c.targets) and src(c.value) == 'cause.patch'
                                         and any(c is x for lp in walk_no_defs(d.node) if isinstance(lp, (ast.While, ast.For)) for x in ast.walk(lp)) for c in walk_no_defs(d.node))
                            okd = (used_name is not None and used_name in tg) or reread or src(used) == 'cause.patch'
        ctx.ob(r5, f'{d.short}: after each attempt the handler patch is rebuilt from the remaining patch (both `patch` and `cause.patch`)', okd, loc=d.loc(),
               construct=construct(d, 'flow:Patch(remaining_patch)'))


def _only_logged(f: FuncInfo, use: ast.Name) -> bool:
    p = f.module.parent.get(use)
    while p is not None and not isinstance(p, ast.stmt):
        if isinstance(p, ast.Call) and isinstance(p.func, ast.Attribute) and p.func.attr in ('debug', 'info', 'warning', 'error', 'exception'):
            return True
        p = f.module.parent.get(p)
    return False


def check_identity(ctx: Ctx) -> None:
    """R8.6: every request whose payload was computed from object X is bound to X's identity, not only its name."""
    repo = ctx.repo
    f = repo.fn(f'{PATCHING}.patch_obj')
    merges = []
    for c in calls_in(f.node):
        if is_call_to(repo, f, c, 'api.patch'):
            h = kwarg(c, 'headers')
            if h is not None and 'merge-patch+json' in src(h):
                merges.append(c)
    ctx.require_sites('R8.6', 'patch_obj: merge-patch requests', len(merges), 2, f.loc())
    bound = []
    for c in merges:
        payload = kwarg(c, 'payload')
        url = kwarg(c, 'url')
        txt = src(payload, 300) + ' ' + src(url, 300)
        # an identity precondition would show as a uid / resourceVersion put into the payload or the URL/query of the request
        o = origin(f, payload) if payload is not None else None
        has = any(w in txt or (o is not None and w in src(o, 300)) for w in ('uid', 'resourceVersion', 'resource_version'))
        bound.append(has)
    ctx.ob('R8.6', 'patch_obj: merge-patch requests carry an identity precondition (uid or resourceVersion of the object the patch was computed for), '
           'not only the name', all(bound), loc=f.loc(merges[0]) if merges else f.loc(),
           construct=construct(f, 'config:merge-patch-identity-precondition'),
           detail='the merge-patch payloads and URLs are built from namespace/name only: a patch computed for a deleted object lands on a re-created namesake')


def check(ctx: Ctx) -> None:
    check_patch_obj(ctx)
    check_carry_forward(ctx)
    from . import _prc
    _prc.check_table(ctx, 'R8.5', 'process_resource_causes (Appendix A.3): a cycle that starts from a carried-forward patch (non-empty at entry, dict content '
                     'or transformation fns alike) skips the state-dependent handlers and only re-applies it')
    check_identity(ctx)


SPEC = PropSpec(
    id='C08',
    title='Accumulated patches are delivered completely, atomically and exactly once',
    technique='static analysis: request-sequence table of patch_obj by path enumeration with declared 404/422 raising points (TABLE), structural '
              'inspection of JSON payloads (first op = resourceVersion test from the freshest body; FLOW), no-drop of the remaining patch at every call site '
              'with a checked fn-free exemption (NODROP), def-use of the carried-forward patch (FLOW), identity precondition (CONFIG)',
    level_text='Static analysis of the current source: for every valuation of patch_obj\'s branch predicates and every position of a 404/422, the request '
               'sequence equals Appendix A.8 (status through the subresource iff declared), each JSON payload starts with a resourceVersion test taken '
               'from the freshest body, a 404 ends silently, a 422 returns exactly patch.fns; every call site consumes the remaining patch or passes a '
               'patch proved free of fns; the next cycle starts from the stored remainder. The server-side end state under foreign writers is NOT decided.',
    level_note='api.patch is the only raising point modelled (404/422 declared); list comprehensions over ops are opaque atoms; DESIGN.md §3',
    design_ref='DESIGN.md §4 C08, Appendix A.8',
    explanation='TABLE over patching.patch_obj with raising api.patch; NODROP over the 9 call sites of patch_obj/patch_and_check; FLOW through '
                'process_resource_event/apply/_daemon/_timer; CONFIG of the merge-patch requests (known finding D5).',
    not_decided='server-side end state under a foreign writer between the four requests; exactly-once over retries of the HTTP layer.',
    check=check,
)
