#!/bin/sh
# Development aid: run every registered check (tier $2, default quick) against a scratch copy of /repo/kopf with a seeded change applied.
# (Equivalent to `git -C /repo apply` + checks + `git -C /repo checkout -- .`, but safe while other work reads /repo.)
# usage: tools/try_seed.sh <patch.diff> [quick|thorough]
patch="$(readlink -f "$1")"; tier="${2:-quick}"
cd /verif || exit 2
tmp="$(mktemp -d /tmp/kverif-seed-XXXXXX)"
trap 'rm -rf "$tmp"' EXIT
cp -r /repo/kopf "$tmp/kopf"
git -C "$tmp" init -q 2>/dev/null
( cd "$tmp" && git apply "$patch" ) || { echo "patch does not apply"; exit 2; }
export KVERIF_REPO="$tmp" KVERIF_EVIDENCE_DIR="$tmp/evidence"
hit=""
for p in $(/venv/bin/python -c "import json;print(' '.join(c['property_id'] for c in json.load(open('MANIFEST.json'))['checks']))"); do
  out=$(./bin/check "$p" --tier "$tier" 2>&1); e=$?
  if [ $e -ne 0 ]; then
    hit="$hit $p(exit=$e)"
    echo "== $p exit=$e"; echo "$out" | grep -v '^  analysed\|^KNOWN-FINDING\|^  fixed:' | grep -v "^$p \[" | cut -c1-400 | head -6
  fi
done
echo "DETECTED-BY:${hit:- none}"
