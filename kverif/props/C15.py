"""C15 -- exactly the handlers whose declared criteria hold are invoked (DESIGN.md §4, R15.1-R15.5).

Helpers of general use for FORMULA rules live here too (``bool_results``, ``lazy_table``); C18 imports them.
"""
from __future__ import annotations

import ast
import copy
import re
from typing import Any, Callable, Iterable, Optional

from .. import absint
from ..core import Ctx, PropSpec
from ..rules import SKIP, calls_in, cfg_of, cond_implies, construct, dominating_conditions, is_call_to, kwarg, method_call, norm, origin
from ..srcmodel import AnalysisError, FuncInfo, dotted, src, walk_no_defs

REG = 'kopf._core.intents.registries'
HANDLERS = 'kopf._core.intents.handlers'
CAUSES = 'kopf._core.intents.causes'
TOKEN_ABSENT = 'kopf._core.intents.filters.MetaFilterToken.ABSENT'
TOKEN_PRESENT = 'kopf._core.intents.filters.MetaFilterToken.PRESENT'

ALL_PREDICATES = ('_matches_resource', '_matches_subresource', '_matches_labels', '_matches_annotations',
                  '_matches_field_values', '_matches_field_changes', '_matches_filter_callback')


# ====================================================================== generic FORMULA support
def _stmts(f: FuncInfo) -> list:
    return [s for s in f.node.body if not (isinstance(s, ast.Expr) and isinstance(s.value, ast.Constant))]  # type: ignore[attr-defined]


def run_paths(repo, f: FuncInfo, cfg: Optional[absint.Config] = None, *, env: Optional[dict] = None,
              stmts: Optional[list] = None) -> tuple[absint.Interp, list[absint.Path]]:
    """Like absint.analyse, but hands out the interpreter too (needed to fork on the returned value)."""
    it = absint.Interp(repo, f, cfg or absint.Config())
    p0 = absint.Path()
    p0.fn = f.qualname
    for a in f.params():
        p0.env[a.arg] = absint.sym(a.arg)
    kw = f.node.args.kwarg  # type: ignore[attr-defined]
    if kw is not None:
        p0.env[kw.arg] = absint.V('dict', kw.arg, ({}, True))
    if env:
        p0.env.update(env)
    return it, it.run_block(stmts if stmts is not None else _stmts(f), [p0])


def bool_results(repo, f: FuncInfo, cfg: Optional[absint.Config] = None, *, env: Optional[dict] = None,
                 stmts: Optional[list] = None) -> list[tuple[absint.Path, Any]]:
    """Feasible paths of a predicate function with the *truth* of what each returns (forking on the returned value)."""
    it, paths = run_paths(repo, f, cfg, env=env, stmts=stmts)
    out: list[tuple[absint.Path, Any]] = []
    for p in paths:
        if p.status == 'return' and p.retval is not None:
            out.extend(it.truth_value(p.retval, p))
        else:
            out.append((p, f'<{p.status}>'))
    return out


class _Need(Exception):
    def __init__(self, name: str):
        super().__init__(name)
        self.name = name


class _View(dict):
    def __missing__(self, k: str) -> Any:
        raise _Need(k)


def _fmt(val: dict) -> str:
    return ' '.join(f'{k}={"1" if v is True else "0" if v is False else v}' for k, v in sorted(val.items()))


def lazy_table(ctx: Ctx, rule: str, f: FuncInfo, results: Iterable[tuple[absint.Path, Any]], atoms: dict[str, str],
               spec: Callable[[dict], Any], *, what: str, role: str = 'table', rename: Optional[Callable[[str], str]] = None,
               canon: Optional[dict[str, str]] = None, max_report: int = 4, min_rows: int = 2) -> int:
    """FORMULA/TABLE comparison with *lazy* completion: for every feasible path, every completion of the spec atoms that the
    specification actually consults (and the path left undecided) must give the observed result.  Atoms of the code that
    the spec does not name are universally quantified (a new condition that changes the outcome is reported).  ``canon``
    gives the original atom key of a spec atom so that the small theory decides atoms the path never tested."""
    rename = rename or (lambda k: k)
    canon = canon or {}
    rx = {n: re.compile(p) for n, p in atoms.items()}
    it = absint.Interp(ctx.repo, f, absint.Config())
    results = list(results)
    n_val = 0
    bad = 0
    rows = set()

    def lookup(name: str, at: dict) -> Optional[Any]:
        vals = {k: v for k, v in at.items() if rx[name].search(rename(k))}
        if len(set(vals.values())) > 1:
            raise absint.AmbiguousAtom(atoms[name], vals)
        if vals:
            return next(iter(vals.values()))
        if name in canon:
            fake = absint.Path()
            fake.atoms = at
            return it.implied(canon[name], fake)
        return None

    def leaves(sigma: dict, at: dict):
        try:
            exp = spec(_View(sigma))
        except _Need as need:
            if need.name not in rx:
                raise AnalysisError(f'{f.loc()}: specification of {rule} consults an undeclared atom {need.name!r}')
            v = lookup(need.name, at)
            if v is not None:
                yield from leaves({**sigma, need.name: v}, at)
            else:
                for b in (True, False):
                    at2 = dict(at)
                    if need.name in canon:
                        at2[canon[need.name]] = b
                    yield from leaves({**sigma, need.name: b}, at2)
            return
        yield sigma, exp

    for p, obs in results:
        for val, exp in leaves({}, dict(p.atoms)):
            n_val += 1
            if exp is SKIP:
                continue
            if obs == exp:
                rows.add((tuple(sorted(val.items())), repr(exp)))
                continue
            bad += 1
            if bad <= max_report:
                ctx.ob(rule, f'{what}: valuation {_fmt(val)} must give {exp!r}', False, loc=f.loc(),
                       construct=f'{f.qualname}:{role}:{_fmt(val)}',
                       detail=f'observed {obs!r} on path [' + '; '.join(f'{rename(k)[:70]}={v}' for k, v in p.atoms.items()) + ']')
    ctx.count('paths', len(results))
    ctx.count('valuations', n_val)
    ctx.ob(rule, f'{what}: {len(results)} feasible paths x consulted completions = {n_val} valuations all agree with the documented '
           f'rule ({len(rows)} distinct rows exercised)', bad == 0 and len(rows) >= min_rows, loc=f.loc(), construct=f'{f.qualname}:{role}',
           detail='' if bad == 0 else f'{bad} disagreeing valuations', nontrivial=len(rows) > 1)
    ctx.sample({'rule': rule, 'function': f.short, 'paths': len(results), 'valuations': n_val})
    return n_val


def renamer(pairs: dict[str, str]) -> Callable[[str], str]:
    """Replace long symbolic keys (call keys of locals) by role names inside atom keys; longest first."""
    order = sorted(pairs.items(), key=lambda kv: -len(kv[0]))

    def rn(k: str) -> str:
        for a, b in order:
            if a in k:
                k = k.replace(a, b)
        return k
    return rn


def nm(f: FuncInfo) -> str:
    """Readable name for messages: qualified name without the module path."""
    return f.qualname[len(f.module.name) + 1:] if f.qualname.startswith(f.module.name + '.') else f.qualname


def _params(f: FuncInfo, n: int) -> list[str]:
    ps = [a.arg for a in f.params()]
    if len(ps) < n:
        raise AnalysisError(f'{f.loc()}: {f.short} has fewer than {n} parameters')
    return ps


def _e(s: str) -> str:
    return re.escape(s)


# ====================================================================== R15.1 FORMULA
def check_conjunction(ctx: Ctx, rule: str, fname: str, preds: Iterable[str]) -> None:
    """``match``/``prematch`` is exactly the conjunction of the named predicates, each evaluated on this handler and cause."""
    repo = ctx.repo
    preds = list(preds)
    f = repo.fn(f'{REG}.{fname}')
    ctx.analysed(f)
    h, c = _params(f, 2)[:2]

    def eff(it, p, call, names):
        for n in names:
            if n.startswith(f'{REG}._matches_'):
                return 'pred:' + n.rsplit('.', 1)[-1]
        return None
    results = bool_results(repo, f, absint.Config(effect=eff))
    atoms = {n: rf'^truthy\({_e(REG)}\.{n}\(' for n in preds}
    lazy_table(ctx, rule, f, results, atoms, lambda v: all(v[n] for n in preds),
               what=f'registries.{fname}: selected iff ' + ' and '.join(n.replace('_matches_', '') for n in preds))
    seen: dict = {}
    for p, _ in results:
        for e in p.effects('pred:'):
            seen.setdefault(id(e.node), e)
    for e in seen.values():
        a0, a1 = e.kw.get('#0'), e.kw.get('#1')
        ok = a0 is not None and a0.key == h and a1 is not None and a1.key.split('.')[0] == c
        ctx.ob(rule, f'registries.{fname}: {e.label[5:]} is evaluated on the handler and the cause of this call', ok, loc=f.loc(e.node),
               construct=construct(f, f'config:{e.label[5:]}(handler, cause)'), detail=e.key[:160])


def check_resource(ctx: Ctx, rule: str) -> None:
    repo = ctx.repo
    f = repo.fn(f'{REG}._matches_resource')
    ctx.analysed(f)
    h = _params(f, 2)[0]
    atoms = {'SN': rf'^isnone\({_e(h)}\.selector\)$', 'CK': rf'^truthy\({_e(h)}\.selector\.check\('}
    lazy_table(ctx, rule, f, bool_results(repo, f), atoms, lambda v: v['SN'] or v['CK'],
               what='_matches_resource: no selector (sub-handlers) or the selector accepts the resource')


def check_subresource(ctx: Ctx, rule: str) -> None:
    repo = ctx.repo
    f = repo.fn(f'{REG}._matches_subresource')
    ctx.analysed(f)
    h, c = _params(f, 2)[:2]
    atoms = {
        'WH': rf'^isinstance\({_e(h)}, {_e(HANDLERS)}\.WebhookHandler\)$',
        'WC': rf'^isinstance\({_e(c)}, {_e(CAUSES)}\.WebhookCause\)$',
        'STAR': rf"^eq\({_e(h)}\.subresource, '\*'\)$",
        'EQ': rf'^eq\(({_e(c)}\.subresource, {_e(h)}\.subresource|{_e(h)}\.subresource, {_e(c)}\.subresource)\)$',
    }
    lazy_table(ctx, rule, f, bool_results(repo, f), atoms, lambda v: (not v['WH']) or (not v['WC']) or v['STAR'] or v['EQ'],
               what="_matches_subresource: webhook handlers only for their subresource ('*' = any, None = the main resource only)")


def check_labels_annotations(ctx: Ctx, rule: str) -> None:
    repo = ctx.repo
    for fname, attr, other in (('_matches_labels', 'labels', 'annotations'), ('_matches_annotations', 'annotations', 'labels')):
        f = repo.fn(f'{REG}.{fname}')
        ctx.analysed(f)
        h, c = _params(f, 2)[:2]
        atoms = {'SET': rf'^truthy\({_e(h)}\.{attr}\)$', 'MD': rf'^truthy\({_e(REG)}\._matches_metadata\('}
        lazy_table(ctx, rule, f, bool_results(repo, f), atoms, lambda v: (not v['SET']) or v['MD'],
                   what=f'{fname}: no {attr} criteria or every criterion holds on the object\'s {attr}')
        calls = [x for x in calls_in(f.node) if is_call_to(repo, f, x, f'{REG}._matches_metadata')]
        ctx.require_sites(rule, f'{fname}: evaluation of the per-item criteria (_matches_metadata)', len(calls), 1, f.loc())
        for x in calls:
            pat, content = kwarg(x, 'pattern', 0), kwarg(x, 'content', 1)
            consts = {n.value for n in ast.walk(content) if isinstance(n, ast.Constant) and isinstance(n.value, str)} if content is not None else set()
            roots = {dotted(n) for n in ast.walk(content) if isinstance(n, ast.Attribute)} if content is not None else set()
            ok = dotted(pat) == f'{h}.{attr}' and {'metadata', attr} <= consts and other not in consts and f'{c}.body' in roots
            ctx.ob(rule, f'{fname}: the handler\'s {attr} criteria are matched against metadata.{attr} of the cause\'s body', ok, loc=f.loc(x),
                   construct=construct(f, f'config:_matches_metadata(pattern={attr}, content={attr})'), detail=f'pattern={norm(pat)}, content={norm(content)}')


def check_metadata_items(ctx: Ctx, rule: str) -> None:
    """_matches_metadata: per-item table from docs/filters.rst "Metadata filters" + "Value callbacks"."""
    repo = ctx.repo
    f = repo.fn(f'{REG}._matches_metadata')
    ctx.analysed(f)
    loops = [n for n in walk_no_defs(f.node) if isinstance(n, (ast.For, ast.While))]
    if len(loops) != 1 or not isinstance(loops[0], ast.For):
        raise AnalysisError(f'{f.loc()}: expected exactly one loop over the criteria in {f.short}')
    loop = loops[0]
    it, _ = run_paths(repo, f, stmts=[])
    p0 = absint.Path()
    for a in f.params():
        p0.env[a.arg] = absint.sym(a.arg)
    iter_key = it.ev(loop.iter, p0).key
    tgt = loop.target
    if not (isinstance(tgt, ast.Tuple) and len(tgt.elts) == 2 and method_call(loop.iter, 'items') is not None):
        raise AnalysisError(f'{f.loc(loop)}: the criteria loop is not of the form `for key, value in <pattern>.items()`')
    rn = renamer({f'item({iter_key})[0]': 'KEY', f'item({iter_key})[1]': 'VALUE', f'nonempty({iter_key})': 'nonempty(ITEMS)'})
    content = 'content' if any(a.arg == 'content' for a in f.params()) else None
    if content is None:
        raise AnalysisError(f'{f.loc()}: {f.short} has no `content` parameter')
    atoms = {
        'NE': r'^nonempty\(ITEMS\)$',
        'A': rf'^eq\(VALUE, {_e(TOKEN_ABSENT)}\)$',
        'P': rf'^eq\(VALUE, {_e(TOKEN_PRESENT)}\)$',
        'C': r'^callable\(VALUE\)$',
        'IN': r'^in\(KEY, content\)$',
        'EQ': r'^eq\((VALUE, content\[KEY\]|content\[KEY\], VALUE)\)$',
        'CB': r'^truthy\(VALUE\(',
    }
    canon = {'A': f'eq(item({iter_key})[1], {TOKEN_ABSENT})', 'P': f'eq(item({iter_key})[1], {TOKEN_PRESENT})'}

    def spec(v):
        if not v['NE']:
            return True                      # no criteria at all
        if v['A'] or v['P']:
            if v['IN'] == bool(v['P'] and not v['A']):
                return True
            # the criterion fails; the code may still consult callable()/==, which cannot hold for the marker tokens
            if v['C']:
                return SKIP                  # MetaFilterToken members are not callable
            if v['IN'] and v['EQ']:
                return SKIP                  # a label/annotation value (str) never equals a marker token
            return False
        if v['C']:
            return v['CB']                   # per-value callback decides (gets None for an absent key: R15.5)
        return v['IN'] and v['EQ']           # a specific value: present and equal

    lazy_table(ctx, rule, f, bool_results(repo, f), atoms, spec, rename=rn, canon=canon,
               what='_matches_metadata (one symbolic criterion): ABSENT <=> key not in content; PRESENT <=> key in content; callback <=> '
                    'its verdict; a literal <=> present and equal; all criteria must hold')


def _is_any_over_comp(e: ast.AST) -> bool:
    return (isinstance(e, ast.Call) and isinstance(e.func, ast.Name) and e.func.id == 'any' and len(e.args) == 1 and not e.keywords
            and isinstance(e.args[0], (ast.GeneratorExp, ast.ListComp, ast.SetComp)))


def exists_normal_form(f: FuncInfo) -> tuple[FuncInfo, set[str], int]:
    """A copy of ``f`` whose returned formula has every positive ``any(<pred(v)> for v in <list>)`` replaced by ``pred(__V)``
    for one symbolic element ``__V`` (exists v.(G1 and e1(v)) or (G2 and e2(v)) == (G1 and exists v.e1) or (G2 and exists v.e2) when
    the guards G do not depend on v).  Returns (copy, names of the lists quantified over, number of quantifiers pulled)."""
    node = copy.deepcopy(f.node)
    lists: set[str] = set()
    count = [0]

    def has_any(e: ast.AST) -> bool:
        return any(_is_any_over_comp(n) for n in ast.walk(e))

    def pull(e: ast.AST) -> ast.AST:
        if _is_any_over_comp(e):
            comp = e.args[0]  # type: ignore[attr-defined]
            if len(comp.generators) != 1 or comp.generators[0].is_async or not isinstance(comp.generators[0].iter, ast.Name) \
                    or not isinstance(comp.generators[0].target, ast.Name):
                return e
            g = comp.generators[0]
            var = g.target.id
            lists.add(g.iter.id)
            count[0] += 1

            class T(ast.NodeTransformer):
                def visit_Name(s, n):  # noqa: N805
                    return ast.copy_location(ast.Name(id='__V', ctx=n.ctx), n) if n.id == var else n
            parts = [T().visit(x) for x in list(g.ifs) + [comp.elt]]
            return parts[0] if len(parts) == 1 else ast.copy_location(ast.BoolOp(ast.And(), parts), e)
        if isinstance(e, ast.BoolOp):
            if isinstance(e.op, ast.And) and sum(1 for v in e.values if has_any(v)) > 1:
                raise AnalysisError(f'{f.loc(e)}: two quantified criteria in one conjunction: the existential cannot be pulled out')
            e.values = [pull(v) for v in e.values]
            return e
        return e          # under not/==/...: stays an opaque atom (and will disagree with the specification)

    for n in walk_no_defs(node):
        if isinstance(n, ast.Return) and n.value is not None:
            n.value = pull(n.value)
    ast.fix_missing_locations(node)
    return FuncInfo(f.qualname, node, f.module, f.cls, f.outer), lists, count[0]


def _resolve_effect(repo):
    def eff(it, p, call, names):
        if any(n.endswith('structs.dicts.resolve') for n in names):
            return 'resolve'
        return None
    return eff


def _value_criterion(v, pre: str, unset_means_present: bool):
    """The documented meaning of one value criterion (docs/filters.rst: Field filters / Change filters / Value callbacks)."""
    if v[pre + 'N']:                       # criterion not specified
        if not unset_means_present:
            return True                    # old=/new=: "that part is not checked"
        if not v[pre + 'ABS']:
            return True                    # value= unspecified == PRESENT
        if v[pre + 'C'] or v[pre + 'EQ']:
            return SKIP                    # None is not callable; None is never equal to the private sentinel
        return False
    if v[pre + 'A'] or v[pre + 'P']:
        want_absent = bool(v[pre + 'A'])
        if v[pre + 'ABS'] == want_absent:
            return True
        if v[pre + 'C'] or v[pre + 'EQ']:
            return SKIP                    # marker tokens are not callable and never equal to a field value
        return False
    if v[pre + 'C']:
        if v[pre + 'CB']:
            return True
        if v[pre + 'EQ']:
            return SKIP                    # a callable is never equal to a field value
        return False
    return v[pre + 'EQ']


def _criterion_atoms(h: str, attr: str, val: str, pre: str) -> tuple[dict, dict]:
    ha = _e(f'{h}.{attr}')
    atoms = {
        pre + 'N': rf'^isnone\({ha}\)$',
        pre + 'A': rf'^eq\({ha}, {_e(TOKEN_ABSENT)}\)$',
        pre + 'P': rf'^eq\({ha}, {_e(TOKEN_PRESENT)}\)$',
        pre + 'C': rf'^callable\({ha}\)$',
        pre + 'ABS': rf'^eq\(({val}, SENTINEL|SENTINEL, {val})\)$',
        pre + 'CB': rf'^truthy\({ha}\(',
        pre + 'EQ': rf'^eq\(({val}, {ha}|{ha}, {val})\)$',
    }
    canon = {pre + 'N': f'isnone({h}.{attr})', pre + 'A': f'eq({h}.{attr}, {TOKEN_ABSENT})', pre + 'P': f'eq({h}.{attr}, {TOKEN_PRESENT})'}
    return atoms, canon


def _resolve_roles(ctx: Ctx, rule: str, f: FuncInfo, paths: Iterable[absint.Path], h: str, c: str) -> tuple[dict, Optional[str]]:
    """Role (OLD/NEW/CUR) of every `dicts.resolve(cause.<state>, handler.field, <sentinel>)` value; obligations on its arguments."""
    roles: dict[str, str] = {}
    sentinels: set[str] = set()
    seen: dict = {}
    for p in paths:
        for e in p.effects('resolve'):
            seen.setdefault(id(e.node), e)
    for e in seen.values():
        a0, a1, a2 = e.kw.get('#0') or e.kw.get('d'), e.kw.get('#1') or e.kw.get('field'), e.kw.get('#2') or e.kw.get('default')
        role = {f'{c}.old': 'OLD', f'{c}.new': 'NEW', f'{c}.body': 'CUR'}.get(a0.key if a0 is not None else '')
        ok = role is not None and a1 is not None and a1.key == f'{h}.field' and a2 is not None and a2.kind == 'sym'
        ctx.ob(rule, f'{nm(f)}: the examined value is resolved from the cause\'s old/new/current state at the handler\'s field, with a '
               'sentinel default that distinguishes "absent" from every real value', ok, loc=f.loc(e.node),
               construct=construct(f, f'config:resolve({role or "?"})'), detail=e.key[:200])
        if ok:
            roles[e.key] = role  # type: ignore[assignment]
            sentinels.add(a2.key)  # type: ignore[union-attr]
    if len(sentinels) > 1:
        raise AnalysisError(f'{f.loc()}: {f.short} uses several different sentinels: {sorted(sentinels)}')
    return roles, (sentinels.pop() if sentinels else None)


D12_ROLE = 'formula:value-list-by-handler-kind'


def check_field_values(ctx: Ctx, rule: str) -> None:
    repo = ctx.repo
    f = repo.fn(f'{REG}._matches_field_values')
    ctx.analysed(f)
    h, c = _params(f, 2)[:2]
    f2, lists, npulled = exists_normal_form(f)
    ctx.require_sites(rule, f'{nm(f)}: value criteria quantified over the value list (any(... for value in values))', npulled, 1, f.loc())
    if len(lists) != 1:
        ctx.ob(rule, f'{nm(f)}: all value criteria range over one and the same value list', False, loc=f.loc(),
               construct=construct(f, 'formula:one-value-list'), detail=f'lists: {sorted(lists)}')
        return
    values_name = next(iter(lists))
    cfg = absint.Config(effect=_resolve_effect(repo))
    env = {'__V': absint.sym('V')}
    it, paths = run_paths(repo, f2, cfg, env=env)
    roles, sentinel = _resolve_roles(ctx, rule, f, paths, h, c)
    rn = renamer({**{k: r for k, r in roles.items()}, **({sentinel: 'SENTINEL'} if sentinel else {})})
    results: list[tuple[absint.Path, Any]] = []
    for p in paths:
        if p.status == 'return' and p.retval is not None:
            results.extend(it.truth_value(p.retval, p))
        else:
            results.append((p, f'<{p.status}>'))
    atoms, canon = _criterion_atoms(h, 'value', 'V', 'V')
    atoms['F'] = rf'^truthy\({_e(h)}\.field\)$'

    def spec(v):
        if not v['F']:
            return True
        return _value_criterion(v, 'V', unset_means_present=True)
    lazy_table(ctx, rule, f, results, atoms, spec, rename=rn, canon=canon,
               what='_matches_field_values (one symbolic element V of the value list): no field => match; value unspecified/PRESENT <=> V '
                    'present; ABSENT <=> V absent; callback <=> its verdict; literal <=> equal; the handler matches iff some listed value does')

    # which states are in the value list (docs: "for update handlers: old or new value; all other handlers: the current ---and only--- state")
    upd = re.compile(rf'^truthy\({_e(h)}\.field_needs_change\)$|^eq\({_e(h)}\.reason, {_e(CAUSES)}\.Reason\.UPDATE\)$')
    cc_rx = rf'^isinstance\({_e(c)}, {_e(CAUSES)}\.ChangingCause\)$'
    bad_cur, bad_new, bad_upd, bad_d12 = [], [], [], []
    n_lists = 0
    for p in paths:
        if p.status != 'return' or values_name not in p.env:
            continue
        vl = p.env[values_name]
        if vl.kind != 'coll' or vl.data[0] != 'display':
            raise AnalysisError(f'{f.loc()}: the value list `{values_name}` is not a list display on some path ({vl.key[:80]})')
        n_lists += 1
        rs = [roles.get(e.key, '?') for e in vl.data[1]]
        cc = p.atom(cc_rx)
        update_like = [v for k, v in p.atoms.items() if upd.search(k)]
        if cc is not True:
            if rs != ['CUR']:
                bad_cur.append((p, rs))
            continue
        if 'NEW' not in rs or not set(rs) <= {'NEW', 'OLD'}:
            bad_new.append((p, rs))
        if 'OLD' not in rs and False not in update_like:
            bad_upd.append((p, rs))
        if 'OLD' in rs and True not in update_like:
            bad_d12.append((p, rs))
    ctx.require_sites(rule, f'{nm(f)}: paths that build the value list', n_lists, 2, f.loc())
    ctx.ob(rule, f'{nm(f)}: for non-changing causes (event-watching, daemons, timers, indexing, webhooks) the value list is the current state only',
           not bad_cur, loc=f.loc(), construct=construct(f, 'formula:value-list-current-state'), detail='; '.join(str(r) for _, r in bad_cur[:2]))
    ctx.ob(rule, f'{nm(f)}: for changing causes the value list contains the new (current) state and nothing but new/old', not bad_new, loc=f.loc(),
           construct=construct(f, 'formula:value-list-new-state'), detail='; '.join(str(r) for _, r in bad_new[:2]))
    ctx.ob(rule, f'{nm(f)}: for update handlers (on.update/on.field) the value list contains the old state too ("either the old or the new value")',
           not bad_upd, loc=f.loc(), construct=construct(f, 'formula:value-list-old-for-updates'), detail='; '.join(str(r) for _, r in bad_upd[:2]))
    ctx.ob(rule, f'{nm(f)}: the old state is in the value list only for update handlers (field_needs_change / reason UPDATE); creation, deletion '
           'and resuming handlers check "the resource in its current ---and only--- state"', not bad_d12, loc=f.loc(),
           construct=construct(f, D12_ROLE),
           detail=f'value list {bad_d12[0][1]} for every changing cause, no test of the handler kind on the path' if bad_d12 else '')


def check_field_changes(ctx: Ctx, rule: str) -> None:
    repo = ctx.repo
    f = repo.fn(f'{REG}._matches_field_changes')
    ctx.analysed(f)
    h, c = _params(f, 2)[:2]
    it, paths = run_paths(repo, f, absint.Config(effect=_resolve_effect(repo)))
    roles, sentinel = _resolve_roles(ctx, rule, f, paths, h, c)
    ctx.require_sites(rule, f'{nm(f)}: old and new value of the field', len(set(roles.values()) & {'OLD', 'NEW'}), 2, f.loc())
    rn = renamer({**roles, **({sentinel: 'SENTINEL'} if sentinel else {})})
    results: list[tuple[absint.Path, Any]] = []
    for p in paths:
        if p.status == 'return' and p.retval is not None:
            results.extend(it.truth_value(p.retval, p))
        else:
            results.append((p, f'<{p.status}>'))
    a_old, c_old = _criterion_atoms(h, 'old', 'OLD', 'O')
    a_new, c_new = _criterion_atoms(h, 'new', 'NEW', 'N')
    atoms = {
        'HC': rf'^isinstance\({_e(h)}, {_e(HANDLERS)}\.ChangingHandler\)$',
        'CC': rf'^isinstance\({_e(c)}, {_e(CAUSES)}\.ChangingCause\)$',
        'F': rf'^truthy\({_e(h)}\.field\)$',
        'NEEDS': rf'^truthy\({_e(h)}\.field_needs_change\)$',
        'SAME': r'^eq\((OLD, NEW|NEW, OLD)\)$',
        **a_old, **a_new,
    }

    def spec(v):
        if not v['HC'] or not v['CC'] or not v['F']:
            return True                                     # no old/new transition to speak of
        if v['NEEDS'] and v['SAME']:
            return False                                    # update handlers: "the field actually changed"
        o = _value_criterion(v, 'O', unset_means_present=False)
        if o is SKIP or o is False:
            return o
        return _value_criterion(v, 'N', unset_means_present=False)
    lazy_table(ctx, rule, f, results, atoms, spec, rename=rn, canon={**c_old, **c_new},
               what='_matches_field_changes: (not field_needs_change or old != new) and old-criterion(old) and new-criterion(new); '
                    'unspecified old=/new= is not checked; only for changing handlers x changing causes with a field')


def check_when(ctx: Ctx, rule: str) -> None:
    repo = ctx.repo
    f = repo.fn(f'{REG}._matches_filter_callback')
    ctx.analysed(f)
    h = _params(f, 2)[0]
    atoms = {'WN': rf'^isnone\({_e(h)}\.when\)$', 'CB': rf'^truthy\({_e(h)}\.when\('}
    lazy_table(ctx, rule, f, bool_results(repo, f), atoms, lambda v: v['WN'] or v['CB'],
               what='_matches_filter_callback: no when= callback, or the callback says yes')


def check_r15_1(ctx: Ctx) -> None:
    rule = 'R15.1'
    check_conjunction(ctx, rule, 'match', ALL_PREDICATES)
    check_conjunction(ctx, rule, 'prematch', [p for p in ALL_PREDICATES if p != '_matches_field_changes'])
    check_resource(ctx, rule)
    check_subresource(ctx, rule)
    check_labels_annotations(ctx, rule)
    check_metadata_items(ctx, rule)
    check_field_values(ctx, rule)
    check_field_changes(ctx, rule)
    check_when(ctx, rule)


# ====================================================================== R15.2 CONFINE + CONFIG: deduplication
def check_r15_2(ctx: Ctx) -> None:
    repo = ctx.repo
    rule = 'R15.2'
    dd = repo.fn(f'{REG}._deduplicated')
    ctx.analysed(dd)
    # every handler getter of a registry returns through _deduplicated
    getters = [g for g in repo.functions_in(REG) if g.cls is not None and g.outer is None and re.fullmatch(r'get_(\w+_)?handlers', g.name)
               and g.name != 'get_all_handlers']
    ctx.require_sites(rule, 'registries: handler getters used by the reactor (get_handlers, get_resource_handlers)', len(getters), 3)
    for g in getters:
        ctx.analysed(g)
        rets = [n for n in walk_no_defs(g.node) if isinstance(n, ast.Return)]
        for r in rets:
            v = r.value
            while isinstance(v, ast.Call) and dotted(v.func) in ('list', 'tuple') and len(v.args) == 1:
                v = v.args[0]
            v = origin(g, v) if v is not None else v
            ok = isinstance(v, ast.Call) and is_call_to(repo, g, v, f'{REG}._deduplicated')
            ctx.ob(rule, f'{nm(g)}: the selected handlers are returned through _deduplicated (one invocation per function and id)', ok,
                   loc=g.loc(r), construct=construct(g, 'confine:return via _deduplicated'), detail=norm(r.value))
        ctx.require_sites(rule, f'{nm(g)}: return statements', len(rets), 1, g.loc())
    # nobody iterates the raw selection
    raw = [(g, x) for g in repo.all_functions() for x in calls_in(g.node) if method_call(x, 'iter_handlers') is not None]
    for g, x in raw:
        ok = g in getters
        ctx.ob(rule, f'iter_handlers (the not yet deduplicated selection) is consumed only by the deduplicating getters (call in {nm(g)})', ok,
               loc=g.loc(x), construct=f'{g.qualname}:confine:iter_handlers')
    ctx.require_sites(rule, 'calls of iter_handlers', len(raw), 2)
    users = [(g, x) for g in repo.all_functions() for x in calls_in(g.node)
             if (method_call(x, 'get_handlers') is not None or method_call(x, 'get_resource_handlers') is not None)
             and any(n.startswith(REG + '.') for n in repo.callee_names(g, x))]
    ctx.count('getter_call_sites', len(users))
    ctx.require_sites(rule, 'reactor call sites of the deduplicating getters', len(users), 9)

    # the key: the pair (identity of the function, handler id)
    loops = [n for n in walk_no_defs(dd.node) if isinstance(n, ast.For)]
    if len(loops) != 1 or not isinstance(loops[0].target, ast.Name):
        raise AnalysisError(f'{dd.loc()}: expected one loop over the handlers in {dd.short}')
    loop = loops[0]
    hv = loop.target.id
    tests = [n for n in walk_no_defs(loop) if isinstance(n, ast.Compare) and len(n.ops) == 1 and isinstance(n.ops[0], (ast.In, ast.NotIn))]
    adds = [x for x in calls_in(loop) if method_call(x, 'add') is not None and len(x.args) == 1]
    ctx.require_sites(rule, '_deduplicated: membership test of the key', len(tests), 1, dd.loc())
    ctx.require_sites(rule, '_deduplicated: recording of the key', len(adds), 1, dd.loc())

    def key_shape(e: ast.AST) -> Optional[set]:
        e = origin(dd, e)
        if not isinstance(e, ast.Tuple):
            return None
        out = set()
        for x in e.elts:
            if isinstance(x, ast.Call) and dotted(x.func) == 'id' and len(x.args) == 1 and dotted(x.args[0]) == f'{hv}.fn':
                out.add('id(fn)')
            elif dotted(x) == f'{hv}.id':
                out.add('id')
            else:
                out.add(norm(x))
        return out
    for n in tests:
        ks = key_shape(n.left)
        same_set = bool(adds) and all(dotted(method_call(a, 'add')) == dotted(n.comparators[0]) for a in adds)
        ctx.ob(rule, '_deduplicated: the key is the pair (identity of the handler function, handler id): two ids of one function stay distinct, '
               'two functions under one id stay distinct', ks == {'id(fn)', 'id'}, loc=dd.loc(n), construct=construct(dd, 'config:key=(id(fn), id)'),
               detail=f'key {norm(origin(dd, n.left))}')
        ctx.ob(rule, '_deduplicated: the key that is tested is the key that is recorded, in the same set', same_set and all(
               key_shape(a.args[0]) == ks for a in adds), loc=dd.loc(n), construct=construct(dd, 'config:test-key == recorded-key'))

    def eff(it, p, call, names):
        return 'add' if method_call(call, 'add') is not None else None
    paths = absint.analyse(repo, dd, absint.Config(effect=eff), stmts=loop.body, env={hv: absint.sym('handler')})
    atoms = {'SEEN': r'^in\(\(.*\), '}
    lazy_table(ctx, rule, dd, [(p, (len(p.effects('yield')), len(p.effects('add')))) for p in paths], atoms,
               lambda v: (0, 0) if v['SEEN'] else (1, 1),
               what='_deduplicated (one iteration): a handler is yielded iff its key was not seen before, and then the key is recorded')


# ====================================================================== R15.3 CONFINE + DOM: unmatched objects are left untouched
PROC = 'kopf._core.reactor.processing'

# function -> callees that may receive the cycle's patch there
PATCH_RECEIVERS = {
    'process_resource_event': {'kopf._cogs.structs.patches.Patch', f'{PROC}.process_resource_causes', 'kopf._core.actions.application.apply'},
    '_detect_causes': {f'{CAUSES}.detect_watching_cause', f'{CAUSES}.detect_spawning_cause', f'{CAUSES}.detect_changing_cause'},
    'process_resource_causes': {f'{PROC}._detect_causes'},
    'process_watching_cause': {'kopf._core.actions.progression.deliver_results'},
    'process_changing_cause': None,       # anything: the whole function runs behind the prematch gate
}


def _is_patch_expr(repo, g: FuncInfo, e: ast.AST) -> bool:
    """An expression holding an object patch: typed `patches.Patch` (parameter/field annotations)."""
    return isinstance(e, (ast.Name, ast.Attribute)) and repo.type_of(g, e) == 'kopf._cogs.structs.patches.Patch'


def check_r15_3(ctx: Ctx) -> None:
    repo = ctx.repo
    rule = 'R15.3'
    # (1) CONFINE: who receives / mutates the cycle's patch inside processing.py
    n_sites = 0
    for g in repo.functions_in(PROC):
        for x in calls_in(g.node):
            passes = [a for a in list(x.args) + [k.value for k in x.keywords] if _is_patch_expr(repo, g, a)]
            recv = x.func.value if isinstance(x.func, ast.Attribute) else None
            mutates = recv is not None and any(_is_patch_expr(repo, g, n) for n in ast.walk(recv))
            if not passes and not mutates:
                continue
            n_sites += 1
            allowed = PATCH_RECEIVERS.get(g.name, set())
            names = repo.callee_names(g, x)
            if allowed is None:
                ok, why = True, 'behind the gate'
            elif mutates:
                # patch.fns.append(functools.partial(finalizers.block_deletion | allow_deletion, ...)) in process_resource_causes only
                part = x.args[0] if x.args else None
                fin = isinstance(part, ast.Call) and (repo.resolve(g.module, part.func) or '') == 'functools.partial' and part.args \
                    and (repo.resolve(g.module, part.args[0]) or '') in ('kopf._cogs.structs.finalizers.block_deletion',
                                                                         'kopf._cogs.structs.finalizers.allow_deletion')
                ok = g.name == 'process_resource_causes' and method_call(x, 'append') is not None and isinstance(recv, ast.Attribute) \
                    and recv.attr == 'fns' and _is_patch_expr(repo, g, recv.value) and bool(fin)
                why = 'only finalizer functions are appended to the patch outside the handlers'
            else:
                ok = bool(names & allowed)
                why = f'allowed receivers here: {sorted(n.rsplit(".", 1)[-1] for n in allowed)}'
            ctx.ob(rule, f'processing.{g.name}: the cycle\'s patch is handed only to its known writers (raw-event handler results, finalizer fns, '
                   f'the gated change processing): `{norm(x.func, 60)}`', ok, loc=g.loc(x),
                   construct=f'{g.qualname}:confine:patch->{norm(x.func, 60)}', detail=why)
    ctx.require_sites(rule, 'processing: uses of the cycle\'s patch', n_sites, 10)

    # (2) DOM by path enumeration: the change processing and the finalizer are reached only for a pre-matched object
    f = repo.fn(f'{PROC}.process_resource_causes')
    ctx.analysed(f)

    def eff(it, p, call, names):
        if f'{PROC}.process_changing_cause' in names:
            return 'changing'
        if any(n.endswith('registries.ChangingRegistry.prematch') for n in names):
            return 'prematch'
        if any(n.endswith('registries.ChangingRegistry.requires_finalizer') for n in names):
            return 'req:changing'
        if any(n.endswith('registries.SpawningRegistry.requires_finalizer') for n in names):
            return 'req:spawning'
        r = method_call(call, 'append')
        if isinstance(r, ast.Attribute) and r.attr == 'fns' and _is_patch_expr(repo, f, r.value):
            return 'append'
        return None
    paths = absint.analyse(repo, f, absint.Config(effect=eff))
    ctx.count('paths', len(paths))

    def truth_of(p: absint.Path, label: str, cause_key: Optional[str] = None) -> Optional[bool]:
        vals = set()
        for e in p.effects(label):
            if cause_key is not None and (e.kw.get('cause') is None or e.kw['cause'].key != cause_key):
                continue
            vals.add(p.atoms.get(f'truthy({e.key})'))
        return True if vals == {True} else (False if vals and True not in vals else None)

    n_changing = n_block = 0
    bad_gate, bad_fin = [], []
    for p in paths:
        for e in p.effects('changing'):
            n_changing += 1
            ck = e.kw['cause'].key if e.kw.get('cause') is not None else None
            if ck is None or truth_of(p, 'prematch', ck) is not True:
                bad_gate.append(p)
        for e in p.effects('append'):
            arg = e.kw.get('#0')
            if arg is None or 'block_deletion' not in arg.key:
                continue
            n_block += 1
            matched = truth_of(p, 'req:spawning') is True or (truth_of(p, 'prematch') is True and truth_of(p, 'req:changing') is True)
            if not matched:
                bad_fin.append(p)
    ctx.require_sites(rule, 'process_resource_causes: paths reaching process_changing_cause', n_changing, 1, f.loc())
    ctx.require_sites(rule, 'process_resource_causes: paths adding the finalizer', n_block, 1, f.loc())
    ctx.ob(rule, f'process_resource_causes: every path ({n_changing}) that reaches process_changing_cause (progress, diff-base, results) has '
           'prematch(cause) of that same cause true: objects matched by no handler get no annotations', not bad_gate, loc=f.loc(),
           construct=construct(f, 'dom:prematch-gates-process_changing_cause'), detail=bad_gate[0].describe()[:300] if bad_gate else '')
    ctx.ob(rule, f'process_resource_causes: every path ({n_block}) that adds the finalizer has a matching handler that requires it '
           '(spawning: match; changing: prematch of the cause and requires_finalizer)', not bad_fin, loc=f.loc(),
           construct=construct(f, 'dom:finalizer-only-if-required-by-a-matching-handler'), detail=bad_fin[0].describe()[:300] if bad_fin else '')

    # requires_finalizer itself goes through match/prematch per handler
    for cls, pred in (('ChangingRegistry', 'prematch'), ('SpawningRegistry', 'match')):
        g = repo.fn(f'{REG}.{cls}.requires_finalizer')
        ctx.analysed(g)
        loops = [n for n in walk_no_defs(g.node) if isinstance(n, ast.For)]
        if len(loops) != 1 or not isinstance(loops[0].target, ast.Name):
            raise AnalysisError(f'{g.loc()}: expected one loop over the handlers in {g.short}')
        hv = loops[0].target.id
        res = bool_results(repo, g, stmts=loops[0].body, env={hv: absint.sym('handler')})
        res = [(p, o if isinstance(o, bool) else None) for p, o in res]
        atoms = {'X': r'^in\(handler\.id, excluded\)$', 'RF': r'^truthy\(handler\.requires_finalizer\)$', 'M': rf'^truthy\({_e(REG)}\.{pred}\('}
        lazy_table(ctx, rule, g, res, atoms, lambda v: True if (not v['X'] and v['RF'] and v['M']) else None,
                   what=f'{cls}.requires_finalizer (one handler): yes iff not excluded, the handler requires a finalizer and {pred}(handler, cause)')
    pm = repo.fn(f'{REG}.ChangingRegistry.prematch')
    ctx.analysed(pm)
    loops = [n for n in walk_no_defs(pm.node) if isinstance(n, ast.For)]
    if len(loops) != 1 or not isinstance(loops[0].target, ast.Name):
        raise AnalysisError(f'{pm.loc()}: expected one loop over the handlers in {pm.short}')
    res = [(p, o if isinstance(o, bool) else None) for p, o in bool_results(repo, pm, stmts=loops[0].body, env={loops[0].target.id: absint.sym('handler')})]
    lazy_table(ctx, rule, pm, res, {'M': rf'^truthy\({_e(REG)}\.prematch\('}, lambda v: True if v['M'] else None,
               what='ChangingRegistry.prematch (one handler): yes iff prematch(handler, cause)')

    # (3) watching handlers: results delivered only for handlers selected by get_handlers
    w = repo.fn(f'{PROC}.process_watching_cause')
    ctx.analysed(w)
    ex = [x for x in calls_in(w.node) if is_call_to(repo, w, x, 'execution.execute_handlers_once')]
    ctx.require_sites(rule, 'process_watching_cause: handler execution', len(ex), 1, w.loc())
    for x in ex:
        hs = origin(w, kwarg(x, 'handlers')) if kwarg(x, 'handlers') is not None else None
        ok = isinstance(hs, ast.Call) and method_call(hs, 'get_handlers') is not None and any(n.startswith(REG) for n in repo.callee_names(w, hs))
        ctx.ob(rule, 'process_watching_cause: only the handlers selected by get_handlers (match) are executed, so only their results reach the patch',
               ok, loc=w.loc(x), construct=construct(w, 'flow:handlers<-get_handlers'), detail=norm(hs))

    # (4) application.apply: the dummy "touch" only under a non-empty patch, the wake-up touch only when there are delays
    a, g = cfg_of(ctx, 'kopf._core.actions.application.apply')
    touches = [n for n in g.nodes if n.stmt is not None and n.kind not in ('branch',) and any(
        method_call(x, 'touch') is not None and any(m.endswith('.touch') and 'progress' in m.lower() for m in repo.callee_names(a, x))
        for x in calls_in(n.stmt) if not isinstance(n.stmt, (ast.If, ast.While, ast.For, ast.Try, ast.With, ast.AsyncWith, ast.Match)))]
    seen_stmts = set()
    touches = [n for n in touches if not (id(n.stmt) in seen_stmts or seen_stmts.add(id(n.stmt)))]
    ctx.require_sites(rule, 'application.apply: progress_storage.touch sites', len(touches), 2, a.loc())
    typed = [p.arg for p in a.params() if repo.ann_class(a.module, p.annotation) == 'kopf._cogs.structs.patches.Patch']
    if len(typed) != 1:
        raise AnalysisError(f'{a.loc()}: expected exactly one Patch-typed parameter of apply, found {typed}')
    patch_param = typed[0]
    for n in touches:
        call = [x for x in calls_in(n.stmt) if method_call(x, 'touch') is not None][0]
        parg = kwarg(call, 'patch')
        conds = dominating_conditions(g, n)
        if dotted(parg) == patch_param:
            ok = any(cond_implies(t, o, lambda e, oo: dotted(e) == patch_param and oo is True) for t, o, _ in conds)
            ctx.ob(rule, 'application.apply: the dummy touch of the cycle\'s patch happens only under a non-empty patch (an object that produced no '
                   'patch gets no write)', ok, loc=a.loc(n.stmt), construct=construct(a, 'guard:touch(patch) under `patch`'))
        else:
            def delay_not_none(e: ast.AST, oo: bool) -> bool:
                return (isinstance(e, ast.Compare) and len(e.ops) == 1 and isinstance(e.ops[0], ast.Is) and dotted(e.left) == 'delay'
                        and isinstance(e.comparators[0], ast.Constant) and e.comparators[0].value is None and oo is False)
            ok = any(cond_implies(t, o, delay_not_none) for t, o, _ in conds)
            d = origin(a, ast.Name(id='delay', ctx=ast.Load()))
            from_delays = isinstance(d, ast.IfExp) and dotted(d.test) == 'delays' and isinstance(d.orelse, ast.Constant) and d.orelse.value is None
            ctx.ob(rule, 'application.apply: the wake-up touch (a fresh patch) happens only when there is a delay, and there is a delay only when '
                   'some handler/daemon asked for one (`delays` non-empty)', ok and from_delays, loc=a.loc(n.stmt),
                   construct=construct(a, 'guard:touch(fresh) under `delay is not None`'), detail=f'delay = {norm(d)}')


# ====================================================================== R15.4 CONFIG: decorator table
FNC_TABLE = {
    'kopf.on.create': False, 'kopf.on.update': True, 'kopf.on.delete': False, 'kopf.on.resume': False, 'kopf.on.field': True,
}


def check_r15_4(ctx: Ctx) -> None:
    repo = ctx.repo
    rule = 'R15.4'
    n = 0
    for g in repo.all_functions():
        for x in calls_in(g.node):          # nested decorator functions are functions of their own: g is the innermost one
            if f'{HANDLERS}.ChangingHandler' not in repo.callee_names(g, x):
                continue
            owner = g
            while owner.outer is not None:
                owner = owner.outer
            n += 1
            kws = {k.arg: k.value for k in x.keywords if k.arg}
            v = kws.get('field_needs_change')
            if owner.qualname in FNC_TABLE:
                want = FNC_TABLE[owner.qualname]
                ok = isinstance(v, ast.Constant) and v.value is want
                ctx.ob(rule, f'{nm(owner)} registers its handler with field_needs_change={want} ("the field actually changed" applies to '
                       'on.update/on.field only)', ok, loc=g.loc(x), construct=f'{owner.qualname}:config:field_needs_change', detail=f'found {norm(v)}')
            elif owner.qualname == 'kopf.on.subhandler':
                par = origin(g, v.value) if isinstance(v, ast.Attribute) and v.attr == 'field_needs_change' else None
                ok = isinstance(par, ast.Call) and (repo.resolve(g.module, par.func) or '').endswith('execution.handler_var.get')
                ctx.ob(rule, 'on.subhandler: the sub-handler inherits field_needs_change from the currently executed parent handler', ok,
                       loc=g.loc(x), construct=f'{owner.qualname}:config:field_needs_change', detail=f'found {norm(v)}')
            else:
                fld = kws.get('field')
                ok = isinstance(fld, ast.Constant) and fld.value is None
                ctx.ob(rule, f'{nm(owner)}: a changing handler built outside the decorators has no field criterion (so field_needs_change is moot)',
                       ok, loc=g.loc(x), construct=f'{owner.qualname}:config:field=None', detail=f'field={norm(fld)}, field_needs_change={norm(v)}')
    ctx.count('decorator_sites', n)
    ctx.require_sites(rule, 'constructions of ChangingHandler (5 decorators, subhandler, subhandling.execute x2)', n, 8)


# ====================================================================== R15.5 FLOW/SIBLING: sentinel escape
NONE, OTHER = 'None', 'a real value'


class SentinelFlow:
    """Which abstract values {a private sentinel, None, a real value} an expression of ``f`` may evaluate to.
    Sources of a sentinel: a member of a private Enum (class name starts with '_') or ``object()``; it is propagated through
    locals (all definitions), list displays iterated by comprehensions, defaults of resolve()/get()/getattr(), conditional
    expressions (refined by `x is <sentinel>` tests) and `or`/`and`.  Everything else yields a real value."""

    def __init__(self, repo, f: FuncInfo):
        self.repo = repo
        self.f = f

    def sentinel_of(self, e: ast.AST) -> Optional[str]:
        if isinstance(e, ast.Call) and dotted(e.func) == 'object' and not e.args and not e.keywords:
            return 'object()'
        r = self.repo.resolve(self.f.module, e) if isinstance(e, (ast.Name, ast.Attribute)) else None
        if r and '.' in r:
            head = r.rsplit('.', 1)[0]
            ci = self.repo.classes.get(head)
            if ci is not None and ci.node.name.startswith('_') and any(b.endswith('Enum') for b in ci.bases):
                return r
        return None

    def defs(self, name: str) -> Optional[list[ast.AST]]:
        out: list = []
        for n in walk_no_defs(self.f.node):
            if isinstance(n, ast.Assign) and any(isinstance(t, ast.Name) and t.id == name for t in n.targets):
                out.append(n.value)
            elif isinstance(n, ast.AnnAssign) and isinstance(n.target, ast.Name) and n.target.id == name and n.value is not None:
                out.append(n.value)
            elif isinstance(n, ast.Name) and n.id == name and isinstance(n.ctx, ast.Store) and not isinstance(
                    self.f.module.parent.get(n), (ast.Assign, ast.AnnAssign, ast.comprehension)):
                out.append(None)
        return out

    def comp_iter(self, name_node: ast.Name) -> Optional[ast.AST]:
        """The iterable of the comprehension that binds this name occurrence, if any."""
        p = self.f.module.parent.get(name_node)
        while p is not None and p is not self.f.node:
            if isinstance(p, (ast.GeneratorExp, ast.ListComp, ast.SetComp, ast.DictComp)):
                for g in p.generators:
                    if any(isinstance(t, ast.Name) and t.id == name_node.id for t in ast.walk(g.target)):
                        return g.iter
            p = self.f.module.parent.get(p)
        return None

    def values(self, e: Optional[ast.AST], only: Optional[dict] = None, drop: Optional[dict] = None, depth: int = 0) -> set[str]:
        only, drop = only or {}, drop or {}
        if e is None or depth > 8:
            return {OTHER}
        key = src(e, 200)
        if key in only:
            return {only[key]}
        out = self._values(e, only, drop, depth)
        if key in drop:
            out = out - drop[key]
        return out

    def _values(self, e: ast.AST, only: dict, drop: dict, depth: int) -> set[str]:
        s = self.sentinel_of(e)
        if s is not None:
            return {'SENTINEL:' + s}
        if isinstance(e, ast.Constant):
            return {NONE} if e.value is None else {OTHER}
        if isinstance(e, ast.Name):
            it = self.comp_iter(e)
            if it is not None:
                out: set[str] = set()
                for d in ([it] if not isinstance(it, ast.Name) else (self.defs(it.id) or [None])):
                    if isinstance(d, (ast.List, ast.Tuple, ast.Set)):
                        for x in d.elts:
                            out |= self.values(x, only, drop, depth + 1)
                    else:
                        out.add(OTHER)
                return out
            ds = self.defs(e.id)
            if not ds:
                return {OTHER}
            out = set()
            for d in ds:
                out |= self.values(d, only, drop, depth + 1) if d is not None else {OTHER}
            return out
        if isinstance(e, ast.Call):
            names = self.repo.callee_names(self.f, e)
            if any(n.endswith('dicts.resolve') or n.endswith('dicts.resolve_obj') for n in names):
                d = kwarg(e, 'default', 2)
                return {OTHER} | (self.values(d, only, drop, depth + 1) if d is not None else set())
            if method_call(e, 'get') is not None and 1 <= len(e.args) <= 2 and not e.keywords:
                return {OTHER} | (self.values(e.args[1], only, drop, depth + 1) if len(e.args) == 2 else {NONE})
            if dotted(e.func) == 'getattr' and len(e.args) == 3:
                return {OTHER} | self.values(e.args[2], only, drop, depth + 1)
            return {OTHER}
        if isinstance(e, ast.IfExp):
            t = e.test
            if isinstance(t, ast.Compare) and len(t.ops) == 1 and isinstance(t.ops[0], (ast.Is, ast.IsNot, ast.Eq, ast.NotEq)):
                for x, sx in ((t.left, t.comparators[0]), (t.comparators[0], t.left)):
                    sv = self.values(sx, depth=depth + 1)
                    if len(sv) == 1 and next(iter(sv)).startswith('SENTINEL:'):
                        tok = next(iter(sv))
                        eq_branch, ne_branch = (e.body, e.orelse) if isinstance(t.ops[0], (ast.Is, ast.Eq)) else (e.orelse, e.body)
                        k = src(x, 200)
                        return self.values(eq_branch, {**only, k: tok}, drop, depth + 1) | \
                            self.values(ne_branch, only, {**drop, k: drop.get(k, set()) | {tok}}, depth + 1)
            return self.values(e.body, only, drop, depth + 1) | self.values(e.orelse, only, drop, depth + 1)
        if isinstance(e, ast.BoolOp):
            out = set()
            for v in e.values:
                out |= self.values(v, only, drop, depth + 1)
            return out
        return {OTHER}


def check_r15_5(ctx: Ctx) -> None:
    repo = ctx.repo
    rule = 'R15.5'
    sinks = []
    for g in repo.functions_in(REG):
        if not g.name.startswith('_matches_'):
            continue
        tested = {src(x.args[0], 200) for x in calls_in(g.node) if dotted(x.func) == 'callable' and len(x.args) == 1}
        for x in calls_in(g.node):
            is_cb = src(x.func, 200) in tested
            if isinstance(x.func, ast.Attribute) and x.func.attr in ('value', 'old', 'new'):
                t = repo.type_of(g, x.func.value)
                is_cb = is_cb or bool(t and repo.is_subclass(t, f'{HANDLERS}.ResourceHandler'))
            if is_cb:
                sinks.append((g, x))
    ctx.require_sites(rule, 'registries: invocations of per-value user callbacks (labels/annotations, value=, old=, new=)', len(sinks), 4)
    images = {}
    for g, x in sinks:
        ctx.analysed(g)
        role = f'{g.qualname}:flow:{norm(x.func, 60)}'
        if not x.args:
            ctx.ob(rule, f'{nm(g)}: the per-value callback `{norm(x.func, 60)}` gets the checked value as its one positional argument', False,
                   loc=g.loc(x), construct=role)
            continue
        vals = SentinelFlow(repo, g).values(x.args[0])
        images[role] = vals
        leaked = sorted(v for v in vals if v.startswith('SENTINEL:'))
        ctx.ob(rule, f'{nm(g)}: the private sentinel never reaches the user callback `{norm(x.func, 60)}` as the value', not leaked, loc=g.loc(x),
               construct=role, detail=f'argument `{norm(x.args[0])}` may evaluate to {leaked}' if leaked else '')
        ctx.ob(rule, f'{nm(g)}: for an absent label/annotation/field the callback `{norm(x.func, 60)}` receives None, as documented '
               '("The passed value will be None if the value is absent") and as its sibling call sites do', NONE in vals and not leaked,
               loc=g.loc(x), construct=role + ':absent->None', detail=f'argument `{norm(x.args[0])}` may evaluate to {sorted(vals)}')


def check(ctx: Ctx) -> None:
    check_r15_1(ctx)
    check_r15_2(ctx)
    check_r15_3(ctx)
    check_r15_4(ctx)
    check_r15_5(ctx)
    from . import _extra, C05
    from ..core import include
    _extra.check_universal_loop(ctx, 'R15.1', 'registries._matches_metadata')
    # R15.6 (= R5.2): the per-handler selection of the changing registry (cause kind, initial/deleted flags, then the criteria) -- no handler is
    # dropped before its own criteria were evaluated
    include(ctx, C05.check_registry, 'R15.6', 'C05')


SPEC = PropSpec(
    id='C15',
    title='Exactly the handlers whose declared criteria hold are invoked',
    technique='static analysis: boolean-structure extraction of the filter predicates by path enumeration over a predicate abstraction, compared '
              'with the rule of docs/filters.rst as truth tables (FORMULA); who-may-write/call (CONFINE); path-enumerated gates (DOM); constant '
              'keyword facts (CONFIG); def-use taint of the private sentinel into user callbacks (FLOW/SIBLING)',
    level_text='Static analysis of the current source: decides that registries.match/prematch are exactly the conjunction of the seven/six filter '
               'predicates and that each predicate (_matches_resource, _subresource, _labels/_annotations, _metadata per criterion, '
               '_field_values per listed value, _field_changes, _filter_callback) has, on all feasible paths and all valuations of its branch atoms, '
               'the truth table written from docs/filters.rst; that every handler getter returns through _deduplicated keyed by (id(fn), handler id); '
               'that progress/diff-base/finalizer writes are reached only behind prematch/requires_finalizer and the dummy touch only under a '
               'non-empty patch; the decorator table for field_needs_change; that the private "absent" sentinel cannot flow into a user value callback. '
               'Decides the shape of the selection logic, NOT the selected set over concrete objects.',
    level_note='values, callbacks and selectors are opaque atoms; marker tokens are assumed non-callable and unequal to any field value; '
               'loops are one symbolic iteration; DESIGN.md §3',
    design_ref='DESIGN.md §4 C15',
    explanation='FORMULA over match/prematch and the seven _matches_* predicates (lazy truth-table comparison with docs/filters.rst, existential over the '
                'value list pulled out syntactically), CONFINE+CONFIG over the getters and _deduplicated, CONFINE over the users of the cycle\'s patch in '
                'processing.py plus path-enumerated DOM of the prematch gate and of the finalizer, CONFIG over all ChangingHandler constructions, '
                'FLOW/SIBLING of the sentinel into the four per-value callback call sites.',
    not_decided='the product space over concrete object states (callbacks are opaque); selector matching; that delays are empty for unmatched objects '
                '(daemon stopping delays); causes.detect_* only storing the patch in the cause.',
    check=check,
)
