#!/bin/sh
# Development aid: take in finished seeds from /tmp/seedwork/Cxx/<outdir>/{A,B} as Cxx-<nA>/Cxx-<nB>: record what the quick checks say at first try,
# then confirm independently (demo both ways + unedited suite).  usage: tools/seed_intake.sh <outdir> <nA> <nB> [Cxx ...]
od="$1"; na="$2"; nb="$3"; shift 3
mkdir -p /tmp/seedwork/stage$od
for d in /tmp/seedwork/C*/$od/A /tmp/seedwork/C*/$od/B; do
  [ -f "$d/meta.json" ] && [ -f "$d/patch.diff" ] && [ -f "$d/demo.py" ] || continue
  pid=$(echo "$d" | sed 's#/tmp/seedwork/\(C[0-9]*\)/.*#\1#'); ab=$(basename "$d")
  [ -n "$1" ] && ! echo " $* " | grep -q " $pid " && continue
  n=$na; [ "$ab" = B ] && n=$nb
  sid="$pid-$n"; st="/tmp/seedwork/stage$od/$sid"
  [ -d "$st" ] && continue
  mkdir -p "$st"; cp "$d/patch.diff" "$d/demo.py" "$d/meta.json" "$st/"
  /verif/tools/try_seed.sh "$st/patch.diff" quick > "$st/first_try.txt" 2>&1
  echo "$sid $(grep DETECTED-BY "$st/first_try.txt")"
  /verif/tools/confirm_seed.sh "$st" >> /tmp/seedwork/confirm$od.log 2>&1
  tail -2 /tmp/seedwork/confirm$od.log | head -1 | cut -c1-200
done
