"""C13 -- peering: the local pause/resume decision and the withdrawal of the own record (DESIGN.md §4, R13.1-R13.4).

Decides only the *local* structural slice: how one operator classifies the records of a peering object, when it
turns its pause toggle, how long it sleeps, that its keep-alive withdraws the record on every exit, that the pause
toggle is the one the watch streams and the daemon killer look at.  The distributed claim ("exactly the highest
priority operator ends up active") is a statement about histories of several processes and is NOT decided.
"""
from __future__ import annotations

import ast
from typing import Any, Callable, Iterable, Optional

from .. import absint
from ..core import Ctx, PropSpec
from ..rules import (SKIP, calls_in, cfg_of, construct, is_call_to, kwarg, method_call, norm, origin, table_check,
                     witness)
from ..srcmodel import AnalysisError, FuncInfo, dotted, src, walk_no_defs

PEERING = 'kopf._core.engines.peering'
MUTATING_METHODS = {'append', 'extend', 'add', 'insert', 'update'}


# ====================================================================== local engine helpers (work-arounds)
class NamedCompInterp(absint.Interp):
    """absint.Interp with three local work-arounds (see the final report of C13):

    * comprehension values get short, collision-free keys (the engine abbreviates long keys to 200 characters, so two
      comprehensions over the same long iterable used to share one atom);
    * locals mutated through `.append()/.add()/...` inside a loop are havocked after the loop like assigned names;
    * `a == b` / `a != b` of two symbols declared *ordered* by the rule use the 3-point ordering atom `cmp(a, b)`,
      so that `x > y` and `x == y` are mutually exclusive.
    """

    def __init__(self, repo, f, cfg, depth: int = 0, *, comp_names: Optional[dict] = None,
                 ordered: Optional[Callable[[str, str], bool]] = None):
        super().__init__(repo, f, cfg, depth)
        self.comp_names = comp_names or {}
        self.ordered = ordered

    def _comp_key(self, node: ast.AST, p: absint.Path) -> str:
        return self.comp_names.get(id(node)) or super()._comp_key(node, p)

    def assigned_names(self, stmts: Iterable[ast.AST]) -> set:
        out = super().assigned_names(stmts)
        for s in stmts:
            for n in walk_no_defs(s):
                if isinstance(n, ast.Call) and isinstance(n.func, ast.Attribute) and n.func.attr in MUTATING_METHODS \
                        and isinstance(n.func.value, ast.Name):
                    out.add(n.func.value.id)
        return out

    def truth_compare(self, node: ast.Compare, p: absint.Path):
        op = node.ops[0]
        if self.ordered is not None and isinstance(op, (ast.Eq, ast.NotEq)):
            l, r = self.ev(node.left, p), self.ev(node.comparators[0], p)
            if l.kind == 'sym' and r.kind == 'sym' and l.key != r.key and self.ordered(l.key, r.key):
                a, b = (l.key, r.key) if l.key <= r.key else (r.key, l.key)
                return [(q, (rel == '=') != isinstance(op, ast.NotEq)) for q, rel in self.atom3(f'cmp({a}, {b})', p)]
        return super().truth_compare(node, p)


def comp_names_of(f: FuncInfo) -> dict:
    """id(comprehension node) -> short unique key: the local it is (only) assigned to, else `comp#n`."""
    out: dict = {}
    n = 0
    for node in sorted((x for x in walk_no_defs(f.node) if isinstance(x, (ast.ListComp, ast.SetComp, ast.GeneratorExp, ast.DictComp))),
                       key=lambda x: (x.lineno, x.col_offset)):
        parent = f.module.parent.get(node)
        name = None
        if isinstance(parent, ast.Assign) and len(parent.targets) == 1 and isinstance(parent.targets[0], ast.Name) and parent.value is node:
            name = parent.targets[0].id
        elif isinstance(parent, ast.AnnAssign) and isinstance(parent.target, ast.Name) and parent.value is node:
            name = parent.target.id
        if name is None or name in out.values():
            n += 1
            name = f'comp#{n}'
        out[id(node)] = name
    return out


def run_paths(repo, f: FuncInfo, cfg: absint.Config, *, stmts: Optional[list] = None, env: Optional[dict] = None,
              ordered=None) -> list[absint.Path]:
    it = NamedCompInterp(repo, f, cfg, comp_names=comp_names_of(f), ordered=ordered)
    p0 = absint.Path()
    p0.fn = f.qualname
    for a in f.params():
        p0.env[a.arg] = absint.sym(a.arg)
    if env:
        p0.env.update(env)
    body = stmts if stmts is not None else absint._body(f)
    return it.run_block(body, [p0])


def nonnull_edges(g, *names: str, also: Optional[Callable[[ast.AST], Optional[bool]]] = None):
    """Edge filter for "None for tests" parameters: a branch is dropped when its test, evaluated in 3-valued logic with
    `x is not None` true for the named parameters, has a definite value different from the branch outcome.
    (rules.nullness_assumption only prunes branches that *imply* `x is None`; the false branch of
    `a is not None and b is not None` is a disjunction and stays -- worked around here.)"""
    nn = set(names)

    def val(e: ast.AST) -> Optional[bool]:
        if also is not None:
            r = also(e)
            if r is not None:
                return r
        if isinstance(e, ast.Name) and e.id not in nn:
            o = origin(g.f, e)      # a condition named into a (single-assignment) local
            return val(o) if o is not e else None
        if isinstance(e, ast.UnaryOp) and isinstance(e.op, ast.Not):
            v = val(e.operand)
            return None if v is None else not v
        if isinstance(e, ast.BoolOp):
            vs = [val(v) for v in e.values]
            if isinstance(e.op, ast.And):
                return False if any(v is False for v in vs) else (True if all(v is True for v in vs) else None)
            return True if any(v is True for v in vs) else (False if all(v is False for v in vs) else None)
        if isinstance(e, ast.Compare) and len(e.ops) == 1 and isinstance(e.comparators[0], ast.Constant) and e.comparators[0].value is None:
            if dotted(e.left) in nn:
                if isinstance(e.ops[0], ast.IsNot):
                    return True
                if isinstance(e.ops[0], ast.Is):
                    return False
        return None

    def ok(a, b) -> bool:
        if b.kind == 'branch' and b.cond is not None:
            v = val(b.cond[0])
            if v is not None and v != b.cond[1]:
                return False
        return True
    return ok


def both(*filters):
    def ok(a, b) -> bool:
        return all(f(a, b) for f in filters if f is not None)
    return ok


def cleanup_is_total(a, b) -> bool:
    """Edge filter: a failure of the clean-up itself (exception edge out of a statement inside a `finally` body) is
    outside the ALLEXITS/PAIR clauses -- they are about the exits of the protected block."""
    return not (a.in_finally and a.exc_edges.get('exc') is b and a.kind not in ('raise',))


def param(f: FuncInfo, name: str) -> str:
    for a in f.params():
        if a.arg == name:
            return name
    raise AnalysisError(f'{f.loc()}: {f.short} has no `{name}` parameter')


# ====================================================================== R13.1 per-peer classification
class Membership:
    """Which of the derived peer lists a status record ends up in, as a function of the three per-record facts
    (dead?, own identity?, priority <,=,> own).  Works for filter comprehensions (chained), list concatenation and
    for an explicit loop that appends the loop variable to lists."""

    DEAD = r'^truthy\(peer\.is_dead\)$'
    SELF = r'^eq\((identity, peer\.identity|peer\.identity, identity)\)$'
    PRIO = r'^cmp\((peer\.priority, settings\.peering\.priority|settings\.peering\.priority, peer\.priority)\)$'

    def __init__(self, ctx: Ctx, f: FuncInfo):
        self.ctx, self.repo, self.f = ctx, ctx.repo, f
        param(f, 'identity'), param(f, 'settings')
        self.peer = absint.sym('peer')
        self.it = NamedCompInterp(self.repo, f, absint.Config(effect=self._eff, record_writes=False), comp_names=comp_names_of(f),
                                  ordered=lambda a, b: a.endswith('.priority') and b.endswith('.priority'))
        self.foreign_atoms: set[str] = set()

    def _eff(self, it, p, call, names):
        r = method_call(call, 'append')
        if r is not None and isinstance(r, ast.Name) and len(call.args) == 1:
            return 'append:' + r.id
        return None

    def base_path(self) -> absint.Path:
        p = absint.Path()
        for a in self.f.params():
            p.env[a.arg] = absint.sym(a.arg)
        for n in walk_no_defs(self.f.node):
            if isinstance(n, ast.comprehension) and isinstance(n.target, ast.Name):
                p.env[n.target.id] = self.peer
            elif isinstance(n, ast.For) and isinstance(n.target, ast.Name):
                p.env[n.target.id] = self.peer
        # an attribute chain of a parameter named into a (single-assignment) local: `own = settings.peering.priority`
        params = {a.arg for a in self.f.params()}
        for n in walk_no_defs(self.f.node):
            if isinstance(n, ast.Assign) and len(n.targets) == 1 and isinstance(n.targets[0], ast.Name) and n.targets[0].id not in p.env:
                d = dotted(n.value)
                if d and d.split('.')[0] in params and len(self.defs_of(n.targets[0].id)) == 1:
                    p.env[n.targets[0].id] = absint.sym(d)
        return p

    def defs_of(self, name: str) -> list[ast.AST]:
        out = []
        for n in walk_no_defs(self.f.node):
            if isinstance(n, ast.Assign):
                for t in n.targets:
                    if isinstance(t, ast.Name) and t.id == name:
                        out.append(n.value)
                    elif isinstance(t, (ast.Tuple, ast.List)) and isinstance(n.value, (ast.Tuple, ast.List)) and len(t.elts) == len(n.value.elts):
                        for tt, vv in zip(t.elts, n.value.elts):
                            if isinstance(tt, ast.Name) and tt.id == name:
                                out.append(vv)
            elif isinstance(n, ast.AnnAssign) and isinstance(n.target, ast.Name) and n.target.id == name and n.value is not None:
                out.append(n.value)
        return out

    def member(self, e: ast.AST, p: absint.Path, depth: int = 0) -> Optional[list[tuple[absint.Path, bool]]]:
        """[(path, is-member)] or None when ``e`` is not a list derived from the records by filtering."""
        if depth > 6:
            return None
        if isinstance(e, ast.BinOp) and isinstance(e.op, ast.Add):
            l = self.member(e.left, p, depth + 1)
            if l is None:
                return None
            out = []
            for q, b in l:
                if b:
                    out.append((q, True))
                else:
                    r = self.member(e.right, q, depth + 1)
                    if r is None:
                        return None
                    out.extend(r)
            return out
        if isinstance(e, ast.Call) and dotted(e.func) in ('list', 'tuple', 'sorted', 'set') and len(e.args) == 1:
            return self.member(e.args[0], p, depth + 1)
        if isinstance(e, ast.ListComp) and len(e.generators) == 1:
            gen = e.generators[0]
            if isinstance(e.elt, ast.Name) and isinstance(gen.target, ast.Name) and e.elt.id == gen.target.id:
                base = self.member(gen.iter, p, depth + 1)
                if base is None:
                    return None
                out = []
                for q, b in base:
                    if not b:
                        out.append((q, False))
                    elif gen.ifs:
                        out.extend(self.it.truth(ast.BoolOp(ast.And(), list(gen.ifs)) if len(gen.ifs) > 1 else gen.ifs[0], q))
                    else:
                        out.append((q, True))
                return out
            if self._constructs_peer(e.elt):
                return [(p, True)]          # the parsed records themselves
            return None
        if isinstance(e, ast.Name):
            if any(a.arg == e.id for a in self.f.params()):
                return None
            defs = self.defs_of(e.id)
            appends = self._append_loops(e.id)
            if len(defs) == 1 and not appends:
                return self.member(defs[0], p, depth + 1)
            if appends and all(isinstance(d, (ast.List, ast.Tuple)) and not d.elts or (isinstance(d, ast.Call) and dotted(d.func) == 'list' and not d.args)
                               for d in defs) and len(appends) == 1:
                loop = appends[0]
                base = self.member(loop.iter, p, depth + 1)
                if base is None:
                    return None
                out = []
                for q, b in base:
                    if not b:
                        out.append((q, False))
                        continue
                    q.trace = []
                    for r in self.it.run_block(loop.body, [q]):
                        hit = any(ef.label == 'append:' + e.id and ef.kw.get('#0') is not None and ef.kw['#0'].key == self.peer.key for ef in r.trace)
                        r.status = 'run'
                        r.trace = []
                        out.append((r, hit))
                return out
            return None
        return None

    def _constructs_peer(self, e: ast.AST) -> bool:
        return isinstance(e, ast.Call) and any(n.endswith('peering.Peer') for n in self.repo.callee_names(self.f, e))

    def _append_loops(self, name: str) -> list[ast.For]:
        out = []
        for lp in walk_no_defs(self.f.node):
            if isinstance(lp, ast.For) and isinstance(lp.target, ast.Name):
                for c in calls_in(lp):
                    r = method_call(c, 'append')
                    if isinstance(r, ast.Name) and r.id == name and len(c.args) == 1 and isinstance(c.args[0], ast.Name) and c.args[0].id == lp.target.id:
                        if lp not in out:
                            out.append(lp)
        return out

    # ---- valuations
    CLASSES = [  # (label, dead, self, rel)
        ('dead, foreign, higher', True, False, '>'), ('dead, foreign, equal', True, False, '='), ('dead, foreign, lower', True, False, '<'),
        ('dead, own', True, True, '='),
        ('live, own', False, True, '='), ('live, own (higher)', False, True, '>'), ('live, own (lower)', False, True, '<'),
        ('live, foreign, higher', False, False, '>'), ('live, foreign, equal', False, False, '='), ('live, foreign, lower', False, False, '<'),
    ]

    def table(self, e: ast.AST) -> Optional[dict[str, Optional[bool]]]:
        """class label -> member? (None = the classification is not a function of the three facts)."""
        res = self.member(e, self.base_path())
        if res is None:
            return None
        import re
        rx = {'dead': re.compile(self.DEAD), 'self': re.compile(self.SELF), 'rel': re.compile(self.PRIO)}
        rows = []
        for q, b in res:
            facts: dict[str, Any] = {}
            for k, v in q.atoms.items():
                role = next((r for r, x in rx.items() if x.search(k)), None)
                if role is None:
                    self.foreign_atoms.add(k)
                    continue
                if role == 'rel' and k.startswith('cmp(settings'):
                    v = {'<': '>', '>': '<', '=': '='}[v]
                if role == 'self' and False:
                    pass
                facts[role] = v
            rows.append((facts, b))
        out: dict[str, Optional[bool]] = {}
        for label, d, s, r in self.CLASSES:
            want = {'dead': d, 'self': s, 'rel': r}
            hits = {b for facts, b in rows if all(want[k] == v for k, v in facts.items())}
            out[label] = hits.pop() if len(hits) == 1 else None
        return out


def check_peer_classes(ctx: Ctx) -> None:
    repo = ctx.repo
    f = repo.fn(f'{PEERING}.process_peering_event')
    ctx.analysed(f)
    for name in ('identity', 'settings', 'conflicts_found', 'stream_pressure', 'autoclean'):
        param(f, name)
    ms = Membership(ctx, f)

    # roles by use: the list handed to clean(), the lists whose non-emptiness turns the pause toggle on, the sleep bound
    clean_calls = [c for c in calls_in(f.node) if is_call_to(repo, f, c, f'{PEERING}.clean')]
    sleep_calls = [c for c in calls_in(f.node) if is_call_to(repo, f, c, 'aiotime.sleep')]
    ctx.require_sites('R13.1', 'process_peering_event: clean() of dead records', len(clean_calls), 1, f.loc())
    ctx.require_sites('R13.1', 'process_peering_event: sleep until the earliest deadline', len(sleep_calls), 1, f.loc())

    # ---- the toggle decision (function-level table)
    cname = 'conflicts_found'

    def eff(it, p, call, names):
        r = method_call(call, 'turn_to')
        if r is not None:
            return 'turn_to' if dotted(r) == cname and any(n.endswith('aiotoggles.Toggle.turn_to') for n in names) else 'turn_to-of-another-toggle'
        for n in names:
            if n.endswith('peering.clean'):
                return 'clean'
            if n.endswith('aiotime.sleep'):
                w = kwarg(call, 'wakeup')
                return 'sleep' if w is not None and dotted(w) == 'stream_pressure' else 'sleep-not-interruptible-by-peering-events'
            if n.endswith('peering.touch'):
                return 'touch' if kwarg(call, 'lifetime') is None else 'touch-with-lifetime'
        return None
    paths = run_paths(repo, f, absint.Config(effect=eff, record_writes=False))

    # list locals derived from the records (candidates for the roles)
    list_locals: dict[str, dict] = {}
    for n in walk_no_defs(f.node):
        if isinstance(n, ast.Name) and isinstance(n.ctx, ast.Store) and n.id not in list_locals:
            t = ms.table(ast.Name(n.id, ast.Load()))
            if t is not None:
                list_locals[n.id] = t
    ctx.count('derived_peer_lists', len(list_locals))

    def key_rx(name: str) -> str:
        import re
        return rf'^truthy\({re.escape(name)}(@loop\d+)?\)$'

    # a list is a *blocker* iff its non-emptiness alone makes the difference for `turn_to(True)`: two paths that agree on every
    # other atom they both decided, one with the list non-empty (pausing), one with it empty (not pausing)
    def pauses(p) -> bool:
        return any(e.label == 'turn_to' and _const(e.kw.get('#0')) is True for e in p.trace)

    def differs_only_in(p1, p2, rx) -> bool:
        import re
        r = re.compile(rx)
        return all(v == p2.atoms[k] for k, v in p1.atoms.items() if k in p2.atoms and not r.search(k))
    pausing = [p for p in paths if pauses(p)]
    calm = [p for p in paths if not pauses(p)]
    blockers = sorted(L for L in list_locals if any(p1.atom(key_rx(L)) is True and any(p2.atom(key_rx(L)) is False and differs_only_in(p1, p2, key_rx(L)) for p2 in calm)
                                                     for p1 in pausing))
    ctx.require_sites('R13.1', 'process_peering_event: peer lists whose non-emptiness pauses the operator', len(blockers), 1, f.loc())

    def union(names: Iterable[str]) -> dict[str, Optional[bool]]:
        out: dict[str, Optional[bool]] = {}
        for label, *_ in Membership.CLASSES:
            vals = [list_locals[n][label] for n in names]
            out[label] = None if any(v is None for v in vals) else any(vals)
        return out

    block = union(blockers)
    want_block = {label: (not d and not s and r in '>=') for label, d, s, r in Membership.CLASSES}
    loc = f.loc()
    groups = [
        ('a live foreign peer of HIGHER priority blocks (pauses) this operator', ['live, foreign, higher'], 'class:higher'),
        ('a live foreign peer of EQUAL priority blocks (pauses) this operator (conflict)', ['live, foreign, equal'], 'class:equal'),
        ('a live foreign peer of LOWER priority does not block', ['live, foreign, lower'], 'class:lower'),
        ('the own record never blocks (whatever priority it carries)', ['live, own', 'live, own (higher)', 'live, own (lower)'], 'class:self'),
        ('a dead (expired) record never blocks', ['dead, foreign, higher', 'dead, foreign, equal', 'dead, foreign, lower', 'dead, own'], 'class:dead'),
    ]
    for what, labels, key in groups:
        bad = [l for l in labels if block[l] is not want_block[l]]
        ctx.ob('R13.1', f'process_peering_event: {what}', not bad and bool(blockers), loc=loc, construct=construct(f, f'table:peer-{key}'),
               detail='; '.join(f'[{l}] is {"" if block[l] else "not "}in the pausing lists {blockers}' if block[l] is not None
                                else f'[{l}]: membership in {blockers} is not a function of (dead, identity, priority order)' for l in bad))
    ctx.ob('R13.1', 'process_peering_event: the per-record classification depends only on is_dead, identity == own and the order of the priorities',
           not ms.foreign_atoms, loc=loc, construct=construct(f, 'table:peer-class-atoms'), detail='; '.join(sorted(ms.foreign_atoms)[:4]))

    # dead records -> clean(), exactly those
    dead_names = []
    for c in clean_calls:
        a = kwarg(c, 'peers', 0)
        t = ms.table(a) if a is not None else None
        ok = t is not None and all(t[label] is d for label, d, s, r in Membership.CLASSES)
        ctx.ob('R13.1', 'process_peering_event: clean() receives exactly the dead records (never a live one, never none of the dead)', ok,
               loc=f.loc(c), construct=construct(f, 'table:peer-class:cleaned'),
               detail='' if ok else f'peers={norm(a)}: ' + ('not derived from the records by filtering' if t is None else
                                                             ', '.join(f'[{l}]={"in" if v else "out"}' for l, v in t.items())))
        if isinstance(a, ast.Name):
            dead_names.append(a.id)

    # the sleep is bounded by the deadlines of exactly the blocking peers
    for c in sleep_calls:
        a = c.args[0] if c.args else kwarg(c, 'delays')
        comp = origin(f, a) if a is not None else None
        t = None
        uses_deadline = False
        if isinstance(comp, ast.ListComp) and len(comp.generators) == 1 and isinstance(comp.generators[0].target, ast.Name) and not comp.generators[0].ifs:
            var = comp.generators[0].target.id
            t = ms.table(comp.generators[0].iter)
            uses_deadline = any(isinstance(x, ast.Attribute) and x.attr == 'deadline' and isinstance(x.value, ast.Name) and x.value.id == var
                                for x in ast.walk(comp.elt))
        ok = t is not None and uses_deadline and all(t[l] is want_block[l] for l in want_block)
        ctx.ob('R13.1', 'process_peering_event: the sleep is bounded by the deadlines of exactly the blocking peers (live, foreign, priority >= own)', ok,
               loc=f.loc(c), construct=construct(f, 'table:sleep-bound'),
               detail='' if ok else f'delays={norm(comp)}' + ('' if t is None else ': ' + ', '.join(l for l in want_block if t[l] is not want_block[l])))

    # function-level decision table (A.7)
    atoms: dict[str, Any] = {
        'NAME': r'^eq\(.*settings\.peering\.name',
        'AC': r'^truthy\(autoclean\)$',
        'N': rf'^isnone\({cname}\)$',
        'OFF': rf'^truthy\({cname}\.is_off\(\)\)$',
        'ON': rf'^truthy\({cname}\.is_on\(\)\)$',
        'U': r'^isnone\(.*aiotime\.sleep\(',
    }
    delays_name = None
    for c in sleep_calls:
        a = c.args[0] if c.args else kwarg(c, 'delays')
        if isinstance(a, ast.Name):
            delays_name = a.id
    if delays_name is None:
        raise AnalysisError(f'{f.loc()}: the delays of the sleep are not a local of process_peering_event')
    atoms['D'] = key_rx(delays_name)
    for i, L in enumerate(dead_names[:1]):
        atoms['DP'] = key_rx(L)
    for L in blockers:
        atoms['B:' + L] = key_rx(L)

    def spec(v):
        if not v['NAME']:
            return (False, None, 0, False)
        if v['OFF'] == v['ON']:
            return SKIP      # a toggle is either on or off
        clean = bool(v['AC'] and v.get('DP', False))
        if v['N']:
            tog = None
        elif any(v['B:' + L] for L in blockers):
            tog = True if v['OFF'] else None
        else:
            tog = False if v['ON'] else None
        return (clean, tog, 1, bool(v['U'] and v['D']))

    def observe(p):
        cl = p.effects('clean')
        tg = [e for e in p.trace if e.label.startswith('turn_to')]
        tog: Any = None
        if len(tg) == 1 and tg[0].label == 'turn_to':
            tog = _const(tg[0].kw.get('#0'))
            if tog not in (True, False):
                tog = 'turn_to(?)'
        elif tg:
            tog = tuple(e.label for e in tg)
        sl = [e.label for e in p.trace if e.label.startswith('sleep')]
        tc = [e.label for e in p.trace if e.label.startswith('touch')]
        return (len(cl) == 1, tog, len(sl) if all(s == 'sleep' for s in sl) else tuple(sl), (tc == ['touch']) if len(tc) <= 1 and all(t == 'touch' for t in tc) else tuple(tc))

    # a list that is still the literal `[]` on a path (loop form, no record at all) has a constant truth value: pin its atom
    for p in paths:
        for L in set(dead_names[:1]) | set(blockers) | {delays_name}:
            v = p.env.get(L)
            if v is not None and v.kind == 'coll' and v.data[0] == 'display' and p.atom(key_rx(L)) is None:
                p.atoms[f'truthy({L})'] = len(v.data[1]) > 0

    if 'DP' not in atoms:
        ctx.ob('R13.1', 'process_peering_event: clean() is called with a local list of dead records', False, loc=f.loc(), construct=construct(f, 'table:dead-list'))
        return
    table_check(ctx, 'R13.1', f, paths, atoms, spec, observe,
                what='process_peering_event decision table A.7 (observed: clean?, turn_to, sleeps, self-touch?)')
    ctx.notes.append('R13.1 table A.7: foreign object name => nothing; autoclean and dead records => clean; blocking peers => turn the pause toggle on if off, '
                     'none => turn it off if on, no toggle => nothing; exactly one interruptible sleep; self-touch iff it ran out and there were deadlines')


def _const(v: Optional[absint.V]) -> Any:
    return v.data if v is not None and v.kind in ('const', 'bool') else '?'


# ====================================================================== R13.2 / R20.5 keep-alive withdrawal
def check_keepalive(ctx: Ctx, rule: str = 'R13.2') -> None:
    repo = ctx.repo
    f, g = cfg_of(ctx, f'{PEERING}.keepalive')

    def is_withdraw(x: ast.AST) -> bool:
        if isinstance(x, ast.Call) and is_call_to(repo, f, x, f'{PEERING}.touch'):
            v = kwarg(x, 'lifetime')
            return isinstance(v, ast.Constant) and v.value == 0 and v.value is not False
        return False
    wd = g.stmt_nodes(is_withdraw)
    ctx.require_sites(rule, 'keepalive: withdrawal of the own record, touch(lifetime=0)', len(wd), 1, f.loc())
    esc = g.escaping_exits([g.entry], wd, edge_ok=cleanup_is_total)
    ctx.ob(rule, 'keepalive: every exit (cancellation, failure of a keep-alive request) passes touch(lifetime=0): the record is withdrawn', not esc and bool(wd),
           loc=f.loc(), construct=construct(f, 'allexits:touch(lifetime=0)'),
           detail='; '.join(f'{e.label} exit via {witness(g, [g.entry], e, wd, edge_ok=cleanup_is_total)}' for e in esc[:2]))
    # regular keep-alives: a touch without lifetime inside the loop
    reg = g.stmt_nodes(lambda x: isinstance(x, ast.Call) and is_call_to(repo, f, x, f'{PEERING}.touch') and kwarg(x, 'lifetime') is None)
    loops = [n for n in g.nodes if n.kind == 'loop']
    ctx.ob(rule, 'keepalive: the regular keep-alive touch runs in a loop', bool(reg) and any(n in g.reach([l]) and l in g.reach([n]) for n in reg for l in loops),
           loc=f.loc(), construct=construct(f, 'flow:regular touch in loop'))
    if rule != 'R13.2':
        return
    for n in wd:
        call = [c for c in calls_in(n.stmt) if is_withdraw(c)][0]
        par = f.module.parent.get(call)
        carriers: list[ast.AST] = [call]
        if isinstance(par, ast.Assign) and len(par.targets) == 1 and isinstance(par.targets[0], ast.Name):
            carriers = [x for x in walk_no_defs(f.node) if isinstance(x, ast.Name) and isinstance(x.ctx, ast.Load) and x.id == par.targets[0].id]
        shielded = bool(carriers)
        for x in carriers:
            px = f.module.parent.get(x)
            shielded = shielded and isinstance(px, ast.Call) and (repo.resolve(f.module, px.func) or '') == 'asyncio.shield' \
                and isinstance(f.module.parent.get(px), ast.Await)
        ctx.ob(rule, 'keepalive: the withdrawal request is shielded from a repeated cancellation and awaited', shielded, loc=f.loc(call),
               construct=construct(f, 'config:shield(touch(lifetime=0))'), detail=norm(n.stmt, 80))
        break

    # touch(): the `lifetime` argument reaches the Peer; a dead record is written as None (removal by merge-patch)
    t = repo.fn(f'{PEERING}.touch')
    ctx.analysed(t)
    param(t, 'lifetime'), param(t, 'identity')
    it = NamedCompInterp(repo, t, absint.Config(record_writes=False), comp_names=comp_names_of(t))
    p0 = absint.Path()
    for a in t.params():
        p0.env[a.arg] = absint.sym(a.arg)
    ctors = [c for c in calls_in(t.node) if any(n.endswith('peering.Peer') for n in repo.callee_names(t, c))]
    ctx.require_sites(rule, 'touch: construction of the own Peer record', len(ctors), 1, t.loc())
    for c in ctors:
        lt = kwarg(c, 'lifetime')
        vals = it.fork_value(lt, p0.clone()) if lt is not None else []
        given = [v.key for q, v in vals if q.atoms.get('isnone(lifetime)') is False]
        ctx.ob(rule, 'touch: an explicit lifetime= (0 on exit) is the lifetime of the record it writes', given == ['lifetime'], loc=t.loc(c),
               construct=construct(t, 'flow:lifetime->Peer'), detail=f'lifetime={norm(lt)}')
    # the payload
    payloads = []
    for d in (x for x in walk_no_defs(t.node) if isinstance(x, ast.Dict)):
        for k, v in zip(d.keys, d.values):
            if isinstance(k, ast.Constant) and k.value == 'status' and isinstance(v, ast.Dict):
                for k2, v2 in zip(v.keys, v.values):
                    if isinstance(k2, ast.Name) and k2.id == 'identity':
                        payloads.append(v2)
    ctx.require_sites(rule, 'touch: status payload keyed by the own identity', len(payloads), 1, t.loc())
    for v2 in payloads:
        # run the statements before the payload so that `peer` is bound
        q0 = p0.clone()
        stmt = repo.stmt_of(t.module, v2)
        pre = []
        for s in absint._body(t):
            if s is stmt:
                break
            pre.append(s)
        starts = it.run_block(pre, [q0])
        rows = []
        for q in starts:
            for q2, val in it.fork_value(v2, q):
                dead = [vv for kk, vv in q2.atoms.items() if kk.startswith('truthy(') and kk.endswith('.is_dead)')]
                rows.append((dead[0] if len(dead) == 1 else None, val))
        ok = bool(rows) and all((d is True and val.kind == 'const' and val.data is None) or (d is False and not (val.kind == 'const' and val.data is None))
                                for d, val in rows)
        ctx.ob(rule, 'touch: a dead record (lifetime 0) is written as None (removed by the merge-patch), a live one as its dictionary', ok, loc=t.loc(v2),
               construct=construct(t, 'formula:None-if-dead'), detail=norm(v2))
    # the patch with that payload is what is sent
    sent = [c for c in calls_in(t.node) if is_call_to(repo, t, c, 'patching.patch_obj')]
    ctx.require_sites(rule, 'touch: the patch request', len(sent), 1, t.loc())

    # Peer: dead iff deadline <= now, deadline = lastseen + lifetime
    init = repo.fn(f'{PEERING}.Peer.__init__')
    ctx.analysed(init)
    writes = {}
    for n in walk_no_defs(init.node):
        if isinstance(n, ast.Assign) and len(n.targets) == 1 and isinstance(n.targets[0], ast.Attribute) and dotted(n.targets[0].value) == 'self':
            writes[n.targets[0].attr] = n.value
    dl, dd = writes.get('deadline'), writes.get('is_dead')

    def is_now(e: ast.AST) -> bool:
        return isinstance(e, ast.Call) and (repo.resolve(init.module, e.func) or '').endswith('datetime.now')
    ok_dead = isinstance(dd, ast.Compare) and len(dd.ops) == 1 and (
        (isinstance(dd.ops[0], ast.LtE) and dotted(dd.left) == 'self.deadline' and is_now(dd.comparators[0])) or
        (isinstance(dd.ops[0], ast.GtE) and dotted(dd.comparators[0]) == 'self.deadline' and is_now(dd.left)))
    ctx.ob(rule, 'Peer: a record is dead iff its deadline <= now (so that lifetime=0 is dead at once)', bool(ok_dead), loc=init.loc(dd) if dd is not None else init.loc(),
           construct=construct(init, 'formula:is_dead'), detail=norm(dd))
    ok_dl = isinstance(dl, ast.BinOp) and isinstance(dl.op, ast.Add) and {dotted(dl.left), dotted(dl.right)} == {'self.lastseen', 'self.lifetime'}
    ctx.ob(rule, 'Peer: deadline = lastseen + lifetime', bool(ok_dl), loc=init.loc(dl) if dl is not None else init.loc(), construct=construct(init, 'formula:deadline'),
           detail=norm(dl))


# ====================================================================== R13.3 the pause toggle is the one that is obeyed
def check_pause_wiring(ctx: Ctx) -> None:
    repo = ctx.repo
    R = 'R13.3'
    # (a) the peering toggle is a member of the operator's pause set; regular watchers get that set, peering watchers do not
    sp = repo.fn('orchestration.spawn_missing_peerings')
    sw = repo.fn('orchestration.spawn_missing_watchers')
    ctx.analysed(sp, sw)
    n_sites = 0
    for c in [c for c in ast.walk(sp.node) if isinstance(c, ast.Call)]:
        if (repo.resolve(sp.module, c.func) or '') == 'functools.partial' and c.args and (repo.resolve(sp.module, c.args[0]) or '').endswith('peering.process_peering_event'):
            n_sites += 1
            v = kwarg(c, 'conflicts_found')
            o = origin(sp, v) if v is not None else None
            o = o.value if isinstance(o, ast.Await) else o
            r = method_call(o, 'make_toggle') if o is not None else None
            ok = r is not None and (dotted(r) or '').endswith('.operator_paused') and is_call_to(repo, sp, o, 'aiotoggles.ToggleSet.make_toggle')
            ctx.ob(R, 'spawn_missing_peerings: the toggle given to process_peering_event is made on the operator\'s pause set', ok, loc=sp.loc(c),
                   construct=construct(sp, 'flow:conflicts_found<-operator_paused.make_toggle'), detail=norm(o))
    ctx.require_sites(R, 'spawn_missing_peerings: processor bound to process_peering_event', n_sites, 1, sp.loc())
    n_w = 0
    for fn, must in ((sw, True), (sp, False)):
        for c in [c for c in ast.walk(fn.node) if isinstance(c, ast.Call)]:
            if is_call_to(repo, fn, c, 'queueing.watcher'):
                n_w += 1
                v = kwarg(c, 'operator_paused')
                if must:
                    ctx.ob(R, 'spawn_missing_watchers: the watcher of a served resource receives the operator\'s pause set', v is not None and (dotted(v) or '').endswith('.operator_paused'),
                           loc=fn.loc(c), construct=construct(fn, 'config:watcher(operator_paused=)'), detail=norm(v))
                else:
                    ctx.ob(R, 'spawn_missing_peerings: the peering watcher itself is never paused (it must see the peers go)', v is None, loc=fn.loc(c),
                           construct=construct(fn, 'config:peering watcher unpaused'), detail=norm(v))
    ctx.require_sites(R, 'orchestration: watcher coroutines', n_w, 2)
    orch = repo.fn('orchestration.orchestrator')
    ctx.analysed(orch)
    ens = [c for c in calls_in(orch.node) if is_call_to(repo, orch, c, 'orchestration.Ensemble')]
    ctx.require_sites(R, 'orchestrator: Ensemble construction', len(ens), 1, orch.loc())
    for c in ens:
        ctx.ob(R, 'orchestrator: the ensemble carries the pause set it was given', dotted(kwarg(c, 'operator_paused')) == param(orch, 'operator_paused'), loc=orch.loc(c),
               construct=construct(orch, 'config:Ensemble(operator_paused=)'))
    st = repo.fn('running.spawn_tasks')
    ctx.analysed(st)
    sets = [(n.targets[0].id, n.value) for n in walk_no_defs(st.node) if isinstance(n, ast.Assign) and len(n.targets) == 1 and isinstance(n.targets[0], ast.Name)
            and isinstance(n.value, ast.Call) and is_call_to(repo, st, n.value, 'aiotoggles.ToggleSet')]
    users = {}
    for c in [c for c in ast.walk(st.node) if isinstance(c, ast.Call)]:
        v = kwarg(c, 'operator_paused')
        if v is not None:
            tgt = c.args[0] if (repo.resolve(st.module, c.func) or '') == 'functools.partial' and c.args else c.func
            users[(repo.resolve(st.module, tgt) or src(tgt)).rsplit('.', 1)[-1]] = dotted(v)
    ok = len(sets) == 1 and all(users.get(k) == sets[0][0] for k in ('daemon_killer', 'orchestrator', 'process_resource_event'))
    ctx.ob(R, 'spawn_tasks: one pause set is shared by the daemon killer, the orchestrator and the event processor', ok, loc=st.loc(),
           construct=construct(st, 'flow:operator_paused shared'), detail=f'{users}')
    for name, v in sets:
        ctx.ob(R, 'spawn_tasks: the pause set is paused when ANY of its toggles is on', len(v.args) == 1 and dotted(v.args[0]) == 'any', loc=st.loc(v),
               construct=construct(st, 'config:ToggleSet(any)'), detail=norm(v))

    # (b) nothing is listed/watched while paused: the stream body runs under streaming_block, which waits for the un-pause
    sb, g = cfg_of(ctx, 'watching.streaming_block')
    param(sb, 'operator_paused')
    ys = g.stmt_nodes(lambda x: isinstance(x, ast.Yield))
    waits = g.stmt_nodes(lambda x: isinstance(x, ast.Call) and method_call(x, 'wait_for') is not None and dotted(method_call(x, 'wait_for')) == 'operator_paused'
                         and len(x.args) == 1 and isinstance(x.args[0], ast.Constant) and x.args[0].value is False)
    ctx.require_sites(R, 'streaming_block: the yield into the streaming body', len(ys), 1, sb.loc())

    def paused(e: ast.AST) -> Optional[bool]:
        r = method_call(e, 'is_on')
        if r is not None and dotted(r) == 'operator_paused':
            return True
        r = method_call(e, 'is_off')
        if r is not None and dotted(r) == 'operator_paused':
            return False
        return None
    und = g.dominated(ys, waits, edge_ok=nonnull_edges(g, 'operator_paused', also=paused))
    ctx.ob(R, 'streaming_block: when the operator is paused, the streaming body is entered only after operator_paused.wait_for(False)', not und and bool(waits),
           loc=sb.loc(), construct=construct(sb, 'dom:wait_for(False)<yield'))
    iw = repo.fn('watching.infinite_watch')
    ctx.analysed(iw)
    cw_sites = repo.call_sites_of('watching.continuous_watch', exact=False)
    ctx.require_sites(R, 'call sites of continuous_watch (list + watch of a resource)', len(cw_sites), 1)
    for fn, c in cw_sites:
        inside = False
        p = fn.module.parent.get(c)
        while p is not None and p is not fn.node:
            if isinstance(p, ast.AsyncWith) and any(isinstance(i.context_expr, ast.Call) and is_call_to(repo, fn, i.context_expr, 'watching.streaming_block')
                                                    and dotted(kwarg(i.context_expr, 'operator_paused')) == 'operator_paused' for i in p.items):
                inside = True
            p = fn.module.parent.get(p)
        ctx.ob(R, f'{fn.short}: listing+watching happens only inside `async with streaming_block(operator_paused=...)`', inside and fn is iw, loc=fn.loc(c),
               construct=construct(fn, 'confine:continuous_watch under streaming_block'))
    w = repo.fn('queueing.watcher')
    iws = [c for c in calls_in(w.node) if is_call_to(repo, w, c, 'watching.infinite_watch')]
    ctx.require_sites(R, 'watcher: the watch stream', len(iws), 1, w.loc())
    for c in iws:
        ctx.ob(R, 'watcher: its pause set is handed to the watch stream', dotted(kwarg(c, 'operator_paused')) == 'operator_paused', loc=w.loc(c),
               construct=construct(w, 'config:infinite_watch(operator_paused=)'))
    # the running stream is closed when paused again: the waiter for wait_for(True) is what the body gets
    pw = [c for c in calls_in(sb.node) if method_call(c, 'wait_for') is not None and dotted(method_call(c, 'wait_for')) == 'operator_paused'
          and len(c.args) == 1 and isinstance(c.args[0], ast.Constant) and c.args[0].value is True]
    yv = [x.value for n in ys for x in walk_no_defs(n.stmt) if isinstance(x, ast.Yield)]
    ok = bool(pw) and all(v is not None and any(any(c2 is p for c2 in calls_in(d)) for d in _defs(sb, v) for p in pw) for v in yv)
    ctx.ob(R, 'streaming_block: the body receives a waiter for "paused again" (operator_paused.wait_for(True)) that closes the running stream', ok, loc=sb.loc(),
           construct=construct(sb, 'flow:pause-waiter'))

    # (c) daemons are stopped while paused
    dk, dg = cfg_of(ctx, 'daemons.daemon_killer')
    param(dk, 'operator_paused')

    def pausing_stop(x: ast.AST) -> bool:
        if isinstance(x, ast.Call) and is_call_to(repo, dk, x, 'daemons.stop_daemon'):
            return (repo.resolve(dk.module, kwarg(x, 'reason')) or '').endswith('DaemonStoppingReason.OPERATOR_PAUSING') if kwarg(x, 'reason') is not None else False
        return False
    stops = dg.stmt_nodes(pausing_stop)
    w1 = dg.stmt_nodes(lambda x: isinstance(x, ast.Call) and method_call(x, 'wait_for') is not None and dotted(method_call(x, 'wait_for')) == 'operator_paused'
                       and len(x.args) == 1 and isinstance(x.args[0], ast.Constant) and x.args[0].value is True)
    ctx.require_sites(R, 'daemon_killer: stop_daemon(reason=OPERATOR_PAUSING)', len(stops), 1, dk.loc())
    ok = bool(stops) and bool(w1) and all(s in dg.reach(w1) for s in stops) and all(not dg.dominated([s], w1) for s in stops if not s.in_finally)
    ctx.ob(R, 'daemon_killer: once operator_paused.wait_for(True) returns, every running daemon is asked to stop (reason: pausing)', ok, loc=dk.loc(),
           construct=construct(dk, 'dom:wait_for(True)<stop_daemon(PAUSING)'))
    for s in stops:
        loops = [fr.stmt for fr in s.frames if fr.kind == 'loop' and isinstance(fr.stmt, ast.For)]
        cond = any(isinstance(x, (ast.If, ast.Continue, ast.Break)) for l in loops[-2:] for st_ in l.body for x in walk_no_defs(st_))
        ctx.ob(R, 'daemon_killer: the pausing stop covers every daemon of every object (unconditional loops over all memories and their running daemons)',
               sweeps_all_daemons(loops) and not cond, loc=dk.loc(s.stmt), construct=construct(dk, 'flow:stop all daemons (pausing)'))
        break


def sweeps_all_daemons(loops: list) -> bool:
    """Nested loops: over `<memories>.iter_all_daemon_memories()` and over `<memory>.running_daemons.values()` of its loop variable."""
    outer = [l for l in loops if any(method_call(c, 'iter_all_daemon_memories') is not None for c in calls_in(l.iter))]
    inner = [l for l in loops if any(isinstance(x, ast.Attribute) and x.attr == 'running_daemons' for x in ast.walk(l.iter))]
    return any(isinstance(o.target, ast.Name) and any(isinstance(x, ast.Name) and x.id == o.target.id for x in ast.walk(i.iter)) and i is not o
               for o in outer for i in inner)


def _defs(f: FuncInfo, e: ast.AST) -> list[ast.AST]:
    if not isinstance(e, ast.Name):
        return [e]
    return [n.value for n in walk_no_defs(f.node) if isinstance(n, ast.Assign) and any(isinstance(t, ast.Name) and t.id == e.id for t in n.targets)]


# ====================================================================== R13.4 record parsing tolerates what peers write
def check_peer_record(ctx: Ctx) -> None:
    repo = ctx.repo
    R = 'R13.4'
    init = repo.fn(f'{PEERING}.Peer.__init__')
    ctx.analysed(init)
    a = init.node.args  # type: ignore[attr-defined]
    ctx.ob(R, 'Peer.__init__ accepts unknown fields of a record (**kwargs catch-all): newer peers do not crash older ones', a.kwarg is not None, loc=init.loc(),
           construct=construct(init, 'config:**unknown-fields'))
    defaults = absint._defaults(init)
    for name in ('priority', 'lifetime', 'lastseen'):
        ctx.ob(R, f'Peer.__init__: a record without `{name}` is accepted (the parameter has a default)', name in defaults, loc=init.loc(),
               construct=construct(init, f'config:default:{name}'))
    for name in ('priority', 'lifetime'):
        d = defaults.get(name)
        ctx.ob(R, f'Peer.__init__: the default {name} is a number', isinstance(d, ast.Constant) and isinstance(d.value, (int, float)) and not isinstance(d.value, bool),
               loc=init.loc(), construct=construct(init, f'config:default-value:{name}'), detail=norm(d))
    # lastseen None -> now (never parsed)
    ls = None
    for n in walk_no_defs(init.node):
        if isinstance(n, ast.Assign) and len(n.targets) == 1 and dotted(n.targets[0]) == 'self.lastseen':
            ls = n.value
    ok = False
    if ls is not None:
        it = NamedCompInterp(repo, init, absint.Config(record_writes=False))
        p0 = absint.Path()
        for x in init.params():
            p0.env[x.arg] = absint.sym(x.arg)
        rows = [(q.atoms.get('isnone(lastseen)'), v.key) for q, v in it.fork_value(ls, p0)]
        ok = bool(rows) and all((n is True and 'parse_date' not in k and 'now' in k) or (n is False and 'lastseen' in k) for n, k in rows)
    ctx.ob(R, 'Peer.__init__: a missing lastseen means "seen now" (it is not parsed)', ok, loc=init.loc(ls) if ls is not None else init.loc(),
           construct=construct(init, 'formula:lastseen-default'), detail=norm(ls))
    # the parsing site passes the whole record
    f = repo.fn(f'{PEERING}.process_peering_event')
    ctors = [c for c in ast.walk(f.node) if isinstance(c, ast.Call) and any(n.endswith('peering.Peer') for n in repo.callee_names(f, c))]
    ctx.require_sites(R, 'process_peering_event: parsing of the status records into Peer objects', len(ctors), 1, f.loc())
    for c in ctors:
        star = [k for k in c.keywords if k.arg is None]
        ctx.ob(R, 'process_peering_event: every status record is parsed with all its fields (`**record`) under its identity', bool(star) and kwarg(c, 'identity') is not None,
               loc=f.loc(c), construct=construct(f, 'config:Peer(identity=, **record)'))
    # the status of the object may be absent
    gets = [c for c in calls_in(f.node) if method_call(c, 'get') is not None and c.args and isinstance(c.args[0], ast.Constant) and c.args[0].value == 'status']
    ctx.ob(R, 'process_peering_event: an object without status is an empty set of peers (`.get(\'status\', {})`)', any(len(c.args) == 2 for c in gets), loc=f.loc(),
           construct=construct(f, 'config:status-default'))


def _check_extra(ctx: Ctx) -> None:
    from . import _extra, C09
    from ..core import include
    _extra.check_keepalive_renewal(ctx, 'R13.5')
    # R13.3 (= R9.4/R9.5): while paused the daemons are stopped in stages (flag, cancel, abandon) by the in-memory stopper as well
    include(ctx, C09.check_staged_termination, 'R13.3', 'C09')
    include(ctx, C09.check_pausing_and_killer, 'R13.3', 'C09')


def check(ctx: Ctx) -> None:
    check_peer_classes(ctx)
    check_keepalive(ctx)
    check_pause_wiring(ctx)
    check_peer_record(ctx)
    _check_extra(ctx)


SPEC = PropSpec(
    id='C13',
    title='Peering: lower-priority operators pause, exactly the top one is active',
    technique='static analysis: per-record classification table over the ordering domain {<,=,>} and the decision table of '
              'process_peering_event by path enumeration (TABLE), release-on-all-exits of the keep-alive on the statement CFG (ALLEXITS), '
              'wiring of the pause toggle set (CONFIG/DOM/CONFINE), constructor facts of the peer record (CONFIG)',
    level_text='Static analysis of the current source; a thin structural slice of the property. Decides, for ONE operator process: the classification '
               'of every record of the peering object into dead / own / live-foreign with priority <,=,> own (all 10 classes), that exactly the live '
               'foreign records of priority >= own pause the operator and bound its sleep, that dead records (and only they) are cleaned, the full decision '
               'table of process_peering_event (name filter, autoclean, toggle on/off only on change, interruptible sleep, self-touch iff it ran out); '
               'that keepalive withdraws the record (touch(lifetime=0), shielded; dead record written as None) on every exit; that the pause toggle belongs '
               'to the set the watch streams wait on and the daemon killer obeys; that record parsing tolerates unknown/missing fields. The distributed '
               'outcome over several operators is NOT decided.',
    level_note='priorities/identities/deadlines are opaque symbols: only the order of the two priorities, identity equality and is_dead are interpreted; '
               'aiotime.sleep(list) sleeps for the minimum (trusted); DESIGN.md §3',
    design_ref='DESIGN.md §4 C13, Appendix A.7',
    explanation='TABLE: membership of each derived peer list as a function of (is_dead, identity == own, cmp(priority, own)) computed with the predicate '
                'abstraction for chained comprehensions / append loops, then the function-level table of process_peering_event (A.7) over 10+ atoms; '
                'ALLEXITS on keepalive; CONFIG/DOM/CONFINE on the pause wiring (orchestration, running, watching.streaming_block, daemons.daemon_killer); '
                'CONFIG on Peer.__init__.',
    not_decided='that exactly the highest-priority operator ends up active among several processes (distributed history); that no handler runs twice because of '
                'a pause; renewal before expiry (arithmetic with jitter); a dead keep-alive task (C20 R20.7).',
    check=check,
)
