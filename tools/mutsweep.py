#!/venv/bin/python
"""Development aid (NOT a check): generic mutation sweep of the static checks.

For every function that some property's rule set analyses (evidence/Cxx.json: functions_analysed), generate generic
AST mutants (negated condition, swapped comparison, and<->or, deleted call/raise/augassign statement, break/continue
removed, boolean constant flipped, keyword argument dropped) in a scratch copy of /repo/kopf and run the quick checks
of the properties that analyse that function.  Output: one JSON line per mutant with who reported it.  Survivors are
candidates for triage ("does this edit break a property?"), not verdicts: many are equivalent or irrelevant edits.

usage: tools/mutsweep.py [-j 16] [--out FILE] [--match SUBSTR] [--limit N] [--list]
"""
from __future__ import annotations

import argparse
import ast
import copy
import glob
import json
import os
import shutil
import subprocess
import sys
import tempfile
import threading
import time
from concurrent.futures import ThreadPoolExecutor

VERIF = os.path.dirname(os.path.dirname(os.path.abspath(__file__)))
REPO = os.environ.get('KVERIF_REPO', '/repo')
PY = '/venv/bin/python'

SWAP = {ast.Lt: ast.LtE, ast.LtE: ast.Lt, ast.Gt: ast.GtE, ast.GtE: ast.Gt, ast.Eq: ast.NotEq, ast.NotEq: ast.Eq,
        ast.Is: ast.IsNot, ast.IsNot: ast.Is, ast.In: ast.NotIn, ast.NotIn: ast.In}
NOISE_RECEIVERS = ('logger', 'logging', 'warnings', 'log', 'local_logger')


def is_noise_call(call: ast.AST) -> bool:
    if isinstance(call, ast.Await):
        call = call.value
    if not isinstance(call, ast.Call):
        return False
    f = call.func
    if isinstance(f, ast.Attribute):
        base = f.value
        while isinstance(base, ast.Attribute):
            base = base.value
        if isinstance(base, ast.Name) and base.id in NOISE_RECEIVERS:
            return True
        if f.attr in ('debug', 'info', 'warning', 'error', 'exception', 'warn') and isinstance(f.value, (ast.Name, ast.Attribute)):
            return True
    return False


def functions_by_props() -> dict[str, set[str]]:
    out: dict[str, set[str]] = {}
    for p in sorted(glob.glob(os.path.join(VERIF, 'evidence', 'C??.json'))):
        e = json.load(open(p))
        for fn in e['coverage'].get('functions_analysed', []):
            out.setdefault(fn, set()).add(e['property_id'])
    return out


class Site:
    def __init__(self, path, kind, lineno):
        self.path, self.kind, self.lineno = path, kind, lineno


def enumerate_mutants(relfile: str, modname: str, cov: dict[str, set[str]]):
    """Yield (descr dict, mutate(tree_copy)->None) for one file.  Nodes are addressed by their index in ast.walk order of
    the function they belong to, so that a deep copy of the module can be mutated at the same place."""
    src = open(os.path.join(REPO, relfile)).read()
    tree = ast.parse(src)
    out = []

    def visit_fn(fn: ast.AST, qual: str, outer: str):
        props = cov.get(outer) or cov.get(qual)
        if not props:
            return
        nodes = list(ast.walk(fn))
        for i, n in enumerate(nodes):
            if i == 0:
                continue
            ms = []
            if isinstance(n, (ast.If, ast.While, ast.IfExp)):
                t = ast.unparse(n.test)
                if 'TYPE_CHECKING' in t:
                    continue
                ms.append(('cond-neg', t))
            if isinstance(n, ast.Compare) and len(n.ops) == 1 and type(n.ops[0]) in SWAP:
                ms.append(('cmp-swap', ast.unparse(n)))
            if isinstance(n, ast.BoolOp):
                ms.append(('bool-swap', ast.unparse(n)))
            if isinstance(n, ast.Expr) and isinstance(n.value, (ast.Call, ast.Await)) and not is_noise_call(n.value):
                ms.append(('del-call', ast.unparse(n)))
            if isinstance(n, ast.AugAssign):
                ms.append(('del-aug', ast.unparse(n)))
            if isinstance(n, ast.Raise) and n.exc is not None:
                ms.append(('del-raise', ast.unparse(n)))
            if isinstance(n, (ast.Break, ast.Continue)):
                ms.append(('del-jump', type(n).__name__.lower()))
            if isinstance(n, ast.Constant) and isinstance(n.value, bool):
                ms.append(('flip-bool', repr(n.value)))
            if isinstance(n, ast.Call) and not is_noise_call(n):
                for k, kw in enumerate(n.keywords):
                    if kw.arg is not None:
                        ms.append((f'drop-kw:{k}', f'{ast.unparse(n.func)}(... {kw.arg}={ast.unparse(kw.value)[:60]})'))
            if isinstance(n, ast.Delete):
                ms.append(('del-del', ast.unparse(n)))
            if isinstance(n, ast.Assign) and len(n.targets) == 1 and isinstance(n.targets[0], (ast.Attribute, ast.Subscript)):
                ms.append(('del-store', ast.unparse(n)))
            for op, what in ms:
                out.append(dict(file=relfile, function=qual, outer=outer, props=sorted(props), op=op, idx=i,
                                line=getattr(n, 'lineno', 0), what=what[:160]))

    def walk_scope(body, prefix, outer):
        for st in body:
            if isinstance(st, (ast.FunctionDef, ast.AsyncFunctionDef)):
                q = f'{prefix}.{st.name}'
                visit_fn(st, q, outer or q)
            elif isinstance(st, ast.ClassDef):
                walk_scope(st.body, f'{prefix}.{st.name}', None)

    walk_scope(tree.body, modname, None)
    # nested functions are walked as part of their outer function (ast.walk), so no double visit is needed.
    return src, tree, out


def apply_mutant(tree: ast.Module, m: dict, modname: str) -> str:
    t = copy.deepcopy(tree)
    # locate the function
    parts = m['function'][len(modname) + 1:].split('.')
    body = t.body
    fn = None
    for k, p in enumerate(parts):
        for st in body:
            if isinstance(st, (ast.FunctionDef, ast.AsyncFunctionDef, ast.ClassDef)) and st.name == p:
                fn = st
                body = st.body
                break
    nodes = list(ast.walk(fn))
    n = nodes[m['idx']]
    op = m['op']

    def replace_stmt(old, new):
        for parent in ast.walk(fn):
            for fld in ('body', 'orelse', 'finalbody'):
                lst = getattr(parent, fld, None)
                if isinstance(lst, list) and old in lst:
                    lst[lst.index(old)] = new
                    return
            if isinstance(parent, ast.Try):
                for h in parent.handlers:
                    if old in h.body:
                        h.body[h.body.index(old)] = new
                        return
        raise RuntimeError('statement not found')

    if op == 'cond-neg':
        n.test = ast.UnaryOp(op=ast.Not(), operand=n.test)
    elif op == 'cmp-swap':
        n.ops = [SWAP[type(n.ops[0])]()]
    elif op == 'bool-swap':
        n.op = ast.Or() if isinstance(n.op, ast.And) else ast.And()
    elif op in ('del-call', 'del-aug', 'del-raise', 'del-jump', 'del-del', 'del-store'):
        replace_stmt(n, ast.Pass())
    elif op == 'flip-bool':
        n.value = not n.value
    elif op.startswith('drop-kw:'):
        del n.keywords[int(op.split(':')[1])]
    ast.fix_missing_locations(t)
    return ast.unparse(t)


_tls = threading.local()


def scratch() -> str:
    d = getattr(_tls, 'dir', None)
    if d is None:
        d = tempfile.mkdtemp(prefix='kverif-sweep-')
        shutil.copytree(os.path.join(REPO, 'kopf'), os.path.join(d, 'kopf'))
        _tls.dir = d
        ALL_DIRS.append(d)
    return d


ALL_DIRS: list[str] = []


def run_mutant(job):
    m, text, orig = job
    d = scratch()
    path = os.path.join(d, m['file'])
    try:
        compile(text, path, 'exec')
    except SyntaxError as e:
        return dict(m, verdict='nocompile', detail=str(e))
    open(path, 'w').write(text)
    killed, errors, rules = [], [], []
    try:
        for p in m['props']:
            env = dict(os.environ, KVERIF_REPO=d, KVERIF_EVIDENCE_DIR=os.path.join(d, 'evidence'), PYTHONPATH=VERIF,
                       PYTHONDONTWRITEBYTECODE='1')
            r = subprocess.run([PY, '-m', 'kverif.core', p, '--tier', 'quick'], cwd=VERIF, env=env, capture_output=True,
                               text=True, timeout=600)
            if r.returncode == 1:
                killed.append(p)
                for ln in r.stdout.splitlines():
                    s = ln.strip()
                    if s.startswith('R') and ' ' in s and s.split()[0][1:2].isdigit():
                        rules.append(s.split()[0])
                if not ARGS.all_props:
                    break
            elif r.returncode == 2:
                errors.append(p)
                if not ARGS.all_props:
                    break
    finally:
        open(path, 'w').write(orig)
    verdict = 'killed' if killed else ('analysis-error' if errors else 'survived')
    return dict(m, verdict=verdict, killed_by=killed, errors=errors, rules=sorted(set(rules))[:6])


def main() -> int:
    global ARGS
    ap = argparse.ArgumentParser()
    ap.add_argument('-j', type=int, default=16)
    ap.add_argument('--out', default='/tmp/mutsweep.jsonl')
    ap.add_argument('--match', default='')
    ap.add_argument('--limit', type=int, default=0)
    ap.add_argument('--list', action='store_true')
    ap.add_argument('--ops', default='cond-neg,cmp-swap,bool-swap,del-call,del-aug,del-raise,del-jump,flip-bool,del-del,del-store')
    ap.add_argument('--all-props', action='store_true', help='run every related property, not only up to the first report')
    ARGS = ap.parse_args()
    cov = functions_by_props()
    jobs = []
    for path in sorted(glob.glob(os.path.join(REPO, 'kopf', '**', '*.py'), recursive=True)):
        rel = os.path.relpath(path, REPO)
        modname = rel[:-3].replace('/', '.')
        if modname.endswith('.__init__'):
            modname = modname[:-9]
        src, tree, ms = enumerate_mutants(rel, modname, cov)
        for m in ms:
            if ARGS.match and ARGS.match not in m['function'] and ARGS.match not in m['file']:
                continue
            if m['op'].split(':')[0] not in ARGS.ops.split(','):
                continue
            jobs.append((m, tree, modname, src))
    if ARGS.limit:
        jobs = jobs[:ARGS.limit]
    print(f'{len(jobs)} mutants', file=sys.stderr)
    if ARGS.list:
        from collections import Counter
        c = Counter(j[0]['op'].split(':')[0] for j in jobs)
        print(dict(c))
        return 0
    t0 = time.time()
    n = dict(killed=0, survived=0, nocompile=0)
    n['analysis-error'] = 0

    def prep(j):
        m, tree, modname, src = j
        try:
            text = apply_mutant(tree, m, modname)
        except Exception as e:  # noqa
            return dict(m, verdict='nocompile', detail=f'apply failed: {e}')
        return run_mutant((m, text, src))

    with open(ARGS.out, 'w') as fo, ThreadPoolExecutor(max_workers=ARGS.j) as ex:
        for k, r in enumerate(ex.map(prep, jobs)):
            n[r['verdict']] += 1
            fo.write(json.dumps(r) + '\n')
            fo.flush()
            if k % 100 == 0:
                print(f'{k}/{len(jobs)} {n} {time.time() - t0:.0f}s', file=sys.stderr)
    for d in ALL_DIRS:
        shutil.rmtree(d, ignore_errors=True)
    print(f'done: {n} in {time.time() - t0:.0f}s -> {ARGS.out}')
    return 0


if __name__ == '__main__':
    sys.exit(main())
