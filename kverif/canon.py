"""Semantics-preserving canonicalisation of the parsed source, applied before any rule looks at it.

The rules are written against the shapes the repository uses today.  A maintainer's clean-up commit must not change a verdict, so the
most common behaviour-preserving rewrites are undone here, once, for all rules:

  1. INLINE    a *new* private helper (a function that is not in `known_functions.txt`, the inventory of today's tree) is expanded at its
               call sites: extracted helpers are put back where they came from.  Inlining is semantics-preserving whatever the helper
               does, so a genuinely new helper is handled soundly too; functions of today's tree are never inlined (rules anchor on them).
  2. TEMPS     a local bound exactly once to an await-free expression and read exactly once, in the next statement, is substituted
               into that statement (`is_idle = q.empty()` / `if is_idle:` becomes `if q.empty():`).
  3. COLLECT   `xs = []` + `for v in it: [if c:] xs.append(e)` becomes `xs = [e for v in it if c]` (likewise `set()`/`.add`);
               a loop `for v in it: [if c:] if not e: return False` + `return True` becomes `return all(e for v in it if c)`.
  4. DICTS     `dict(a=b)` and `{'a': b}` are the same thing to the interpreter (handled in absint, not here).
  5. UNFOLD    the inverse of COLLECT, in a function that had a `for` loop in the inventory and has fewer now: `return any/all(<genexp>)`,
               `x = [<comprehension>]`, `x = {<comprehension>}` become the explicit loops again.

Every transformation keeps line numbers (copy_location), evaluation order of effects, and the set and order of suspension points.
Set KVERIF_NOCANON=1 to analyse the raw tree.
"""
from __future__ import annotations

import ast
import copy
import os
from typing import Optional

HERE = os.path.dirname(os.path.abspath(__file__))
KNOWN_FILE = os.path.join(HERE, 'known_shapes.json')
_known: Optional[dict] = None


def inventory() -> dict:
    """Inventory of today's tree: function qualname -> {'locals': [...], 'for_loops': n}.  The canonicalisation is the identity on
    everything listed here (rules anchor on today's names and shapes); only what is NEW relative to it is normalised."""
    global _known
    if _known is None:
        _known = {}
        if os.path.exists(KNOWN_FILE):
            import json
            with open(KNOWN_FILE) as f:
                _known = json.load(f)
    return _known


def known_functions() -> set:
    return set(inventory())


def iter_defs(tree: ast.Module, modname: str):
    """(qualname, def node) for every function in the module, nested ones and methods included."""
    def rec(body, prefix):
        for n in body:
            if isinstance(n, (ast.FunctionDef, ast.AsyncFunctionDef)):
                q = f'{prefix}.{n.name}'
                yield q, n
                yield from rec(n.body, q)
            elif isinstance(n, ast.ClassDef):
                yield from rec(n.body, f'{prefix}.{n.name}')
            elif isinstance(n, (ast.If, ast.Try, ast.With)):
                subs = [x for x in ast.iter_child_nodes(n) if isinstance(x, ast.stmt)]
                for h in getattr(n, 'handlers', []):
                    subs.extend(h.body)
                yield from rec(subs, prefix)
    yield from rec(tree.body, modname)


def shape_of(fn) -> dict:
    names = set()
    loops = 0
    for n in ast.walk(fn):
        if isinstance(n, (ast.FunctionDef, ast.AsyncFunctionDef, ast.Lambda)) and n is not fn:
            continue
        if isinstance(n, ast.Name) and isinstance(n.ctx, ast.Store):
            names.add(n.id)
        if isinstance(n, ast.For):
            loops += 1
    ifs = sum(1 for n in ast.walk(fn) if isinstance(n, ast.If))
    return {'locals': sorted(names), 'for_loops': loops, 'if_stmts': ifs, 'comp_targets': sorted(_comp_targets(fn))}


def _comp_targets(fn) -> set:
    """Names bound directly to a comprehension (and '<return>' when a comprehension / any() / all() / wrapped generator is returned) in today's shape."""
    out = set()
    for n in ast.walk(fn):
        v = None
        if isinstance(n, ast.Assign) and len(n.targets) == 1 and isinstance(n.targets[0], ast.Name):
            t, v = n.targets[0].id, n.value
        elif isinstance(n, ast.AnnAssign) and isinstance(n.target, ast.Name) and n.value is not None:
            t, v = n.target.id, n.value
        elif isinstance(n, ast.Return) and n.value is not None:
            t, v = '<return>', n.value
        if v is None:
            continue
        if isinstance(v, ast.Call) and isinstance(v.func, ast.Name) and len(v.args) == 1 and not v.keywords:
            v = v.args[0]
        if isinstance(v, (ast.ListComp, ast.SetComp, ast.DictComp, ast.GeneratorExp)):
            out.add(t)
    return out


def enabled() -> bool:
    return not os.environ.get('KVERIF_NOCANON')


# ---------------------------------------------------------------------------------------------------------------- helpers
def _names(node: ast.AST, ctx_type=None) -> set:
    return {n.id for n in ast.walk(node) if isinstance(n, ast.Name) and (ctx_type is None or isinstance(n.ctx, ctx_type))}


def _has(node: ast.AST, *types) -> bool:
    return any(isinstance(n, types) for n in ast.walk(node))


class _Subst(ast.NodeTransformer):
    def __init__(self, mapping: dict):
        self.mapping = mapping

    def visit_Name(self, n: ast.Name):
        if n.id in self.mapping:
            repl = self.mapping[n.id]
            if isinstance(repl, str):
                return ast.copy_location(ast.Name(id=repl, ctx=n.ctx), n)
            if isinstance(n.ctx, ast.Load):
                return ast.copy_location(copy.deepcopy(repl), n)
        return n

    def visit_FunctionDef(self, n):   # do not descend into nested scopes
        return n
    visit_AsyncFunctionDef = visit_FunctionDef
    visit_Lambda = visit_FunctionDef


# ---------------------------------------------------------------------------------------------------------------- 1. INLINE
def _terminates(stmts: list) -> bool:
    if not stmts:
        return False
    last = stmts[-1]
    if isinstance(last, (ast.Return, ast.Raise)):
        return True
    if isinstance(last, ast.If):
        return bool(last.orelse) and _terminates(last.body) and _terminates(last.orelse)
    return False


def _tail_convert(stmts: list, mk) -> Optional[list]:
    """Rewrite a statement list whose `return`s all sit in tail position of if/else chains (guard clauses) into a list without returns:
    `mk(return_stmt_or_None)` yields the statement that replaces a return (None = falling off the end).  None if a return sits elsewhere
    (in a loop, try, with, match): such a helper is not inlined."""
    out: list = []
    for i, st in enumerate(stmts):
        if isinstance(st, ast.Return):
            out.append(mk(st))
            return out
        if any(isinstance(n, ast.Return) for n in ast.walk(st)):
            if not isinstance(st, ast.If):
                return None
            rest = stmts[i + 1:]
            b = _tail_convert(list(st.body) + ([] if _terminates(st.body) else copy.deepcopy(rest)), mk)
            o = _tail_convert(list(st.orelse) + ([] if _terminates(st.orelse) else copy.deepcopy(rest)), mk)
            if b is None or o is None:
                return None
            out.append(ast.copy_location(ast.If(test=st.test, body=b, orelse=o), st))
            return out
        out.append(st)
    out.append(mk(None))
    return out


class Inliner:
    def __init__(self, modname: str, tree: ast.Module):
        self.modname = modname
        self.tree = tree
        self.counter = 0
        self.helpers: dict[str, ast.AST] = {}
        known = known_functions()
        if not known:
            return
        for n in tree.body:
            if isinstance(n, (ast.FunctionDef, ast.AsyncFunctionDef)) and f'{modname}.{n.name}' not in known and self._inlinable(n):
                self.helpers[n.name] = n
        # a helper that is used as a value (passed around, stored) is left alone
        for n in ast.walk(tree):
            if isinstance(n, ast.Name) and n.id in self.helpers and isinstance(n.ctx, ast.Load):
                pass
        used_as_value = set()
        for p in ast.walk(tree):
            for c in ast.iter_child_nodes(p):
                if isinstance(c, ast.Name) and c.id in self.helpers and isinstance(c.ctx, ast.Load):
                    if not (isinstance(p, ast.Call) and p.func is c):
                        used_as_value.add(c.id)
        for h in used_as_value:
            self.helpers.pop(h, None)
        self._find_cms(modname, tree, known)
        # new private methods (not in the inventory), called as `self.<name>(...)`; the name must be defined once in the module
        self.mhelpers: dict[str, ast.AST] = {}
        seen: dict[str, int] = {}
        for c in tree.body:
            if isinstance(c, ast.ClassDef):
                for n in c.body:
                    if isinstance(n, (ast.FunctionDef, ast.AsyncFunctionDef)):
                        seen[n.name] = seen.get(n.name, 0) + 1
        for c in tree.body:
            if isinstance(c, ast.ClassDef):
                for n in c.body:
                    if isinstance(n, (ast.FunctionDef, ast.AsyncFunctionDef)) and f'{modname}.{c.name}.{n.name}' not in known and seen.get(n.name) == 1 \
                            and n.name.startswith('_') and not n.name.startswith('__') and n.args.args and n.args.args[0].arg == 'self' and self._inlinable(n):
                        self.mhelpers[n.name] = n
        for p in ast.walk(tree):        # a method used as a value (self._x without a call) is left alone
            for c in ast.iter_child_nodes(p):
                if isinstance(c, ast.Attribute) and c.attr in self.mhelpers and not (isinstance(p, ast.Call) and p.func is c):
                    self.mhelpers.pop(c.attr, None)

    def _find_cms(self, modname: str, tree: ast.Module, known: set) -> None:
        """New module-level generator functions decorated with contextlib.contextmanager / asynccontextmanager with exactly one `yield` statement."""
        self.cms: dict[str, ast.AST] = {}
        for n in tree.body:
            if isinstance(n, (ast.FunctionDef, ast.AsyncFunctionDef)) and f'{modname}.{n.name}' not in known and len(n.decorator_list) == 1:
                d = n.decorator_list[0]
                dn = d.attr if isinstance(d, ast.Attribute) else d.id if isinstance(d, ast.Name) else ''
                want = 'asynccontextmanager' if isinstance(n, ast.AsyncFunctionDef) else 'contextmanager'
                if dn != want:
                    continue
                a = n.args
                if a.vararg or a.kwarg or a.posonlyargs:
                    continue
                ys = [x for x in ast.walk(n) if isinstance(x, (ast.Yield, ast.YieldFrom))]
                stmts = [x for x in ast.walk(n) if isinstance(x, ast.Expr) and isinstance(x.value, ast.Yield)]
                in_loop = any(isinstance(lp, (ast.For, ast.While, ast.AsyncFor)) and any(y is z for z in ast.walk(lp)) for lp in ast.walk(n) for y in ys)
                nested = any(isinstance(x, (ast.FunctionDef, ast.AsyncFunctionDef, ast.Lambda, ast.ClassDef)) and x is not n for x in ast.walk(n))
                has_ret = any(isinstance(x, ast.Return) for x in ast.walk(n))
                if len(ys) == 1 and len(stmts) == 1 and isinstance(ys[0], ast.Yield) and not in_loop and not nested and not has_ret:
                    self.cms[n.name] = n
        for p in ast.walk(tree):        # used other than as `with cm(...)`: leave alone
            for c in ast.iter_child_nodes(p):
                if isinstance(c, ast.Name) and c.id in self.cms and isinstance(c.ctx, ast.Load) and not (isinstance(p, ast.Call) and p.func is c):
                    self.cms.pop(c.id, None)

    def _helper_of(self, call: ast.Call):
        if isinstance(call.func, ast.Name) and call.func.id in getattr(self, 'cms', {}) and getattr(self, '_cm_mode', False):
            return self.cms[call.func.id], False
        if isinstance(call.func, ast.Name) and call.func.id in self.helpers:
            return self.helpers[call.func.id], False
        if isinstance(call.func, ast.Attribute) and isinstance(call.func.value, ast.Name) and call.func.value.id == 'self' and call.func.attr in self.mhelpers:
            return self.mhelpers[call.func.attr], True
        return None, False

    @staticmethod
    def _inlinable(fn) -> bool:
        if fn.decorator_list:
            return False
        a = fn.args
        if a.vararg or a.kwarg or a.posonlyargs:
            return False
        body = [s for s in fn.body if not (isinstance(s, ast.Expr) and isinstance(s.value, ast.Constant))]
        if not body:
            return False
        for n in ast.walk(fn):
            if isinstance(n, (ast.Yield, ast.YieldFrom, ast.Global, ast.Nonlocal, ast.ClassDef)) or \
                    (isinstance(n, (ast.FunctionDef, ast.AsyncFunctionDef, ast.Lambda)) and n is not fn):
                return False
            if isinstance(n, ast.Call) and isinstance(n.func, ast.Name) and n.func.id == fn.name:
                return False
        rets = [n for n in ast.walk(fn) if isinstance(n, ast.Return)]
        if len(rets) > 1 or (rets and rets[0] is not body[-1]):
            # several returns: inlinable when they all sit in tail position of if/else chains (guard-clause style), see _tail_convert
            return _tail_convert(body, lambda r: r) is not None and sum(1 for _ in ast.walk(fn)) < 1500
        return True

    def run(self) -> int:
        if not self.helpers and not self.mhelpers and not self.cms:
            return 0
        done = 0
        for _ in range(3):       # helpers calling helpers
            n = self._pass(self.tree)
            done += n
            if not n:
                break
        if done:
            self._drop_unreferenced()
        return done

    def _drop_unreferenced(self) -> None:
        """A new helper whose every use was expanded is no part of the program any more: its definition is removed, so that package-wide scans
        (who-may-write, who-may-call) see each statement once, where it now runs."""
        names = set(self.helpers) | set(self.cms) | set(self.mhelpers)
        for name in names:
            fn = self.helpers.get(name) or self.cms.get(name) or self.mhelpers.get(name)
            refs = 0
            for n in ast.walk(self.tree):
                if n is fn:
                    continue
                if isinstance(n, ast.Name) and n.id == name:
                    refs += 1
                elif isinstance(n, ast.Attribute) and n.attr == name:
                    refs += 1
                elif isinstance(n, ast.Constant) and n.value == name:
                    refs += 1                       # __all__, getattr(...)
            inside = sum(1 for n in ast.walk(fn) if (isinstance(n, ast.Name) and n.id == name) or (isinstance(n, ast.Attribute) and n.attr == name))
            if refs - inside > 0:
                continue
            for owner in [self.tree] + [c for c in self.tree.body if isinstance(c, ast.ClassDef)]:
                if fn in owner.body:
                    owner.body.remove(fn)
                    if not owner.body:
                        owner.body.append(ast.Pass())

    def _pass(self, tree: ast.Module) -> int:
        count = 0
        for fn in [n for n in ast.walk(tree) if isinstance(n, (ast.FunctionDef, ast.AsyncFunctionDef))]:
            if fn.name in self.helpers and fn in tree.body:
                continue
            if fn.name in self.mhelpers and self.mhelpers[fn.name] is fn:
                continue
            count += self._rewrite_block_owner(fn)
        return count

    def _rewrite_block_owner(self, owner: ast.AST) -> int:
        count = 0
        for field in ('body', 'orelse', 'finalbody'):
            block = getattr(owner, field, None)
            if isinstance(block, list) and block and isinstance(block[0], ast.stmt):
                new = []
                for s in block:
                    repl = self._try_stmt(s)
                    if repl is not None:
                        new.extend(repl)
                        count += 1
                    else:
                        count += self._expr_positions(s)
                        new.append(s)
                        if not isinstance(s, (ast.FunctionDef, ast.AsyncFunctionDef, ast.ClassDef)):
                            count += self._rewrite_block_owner(s)
                setattr(owner, field, new)
        for h in getattr(owner, 'handlers', []) or []:
            count += self._rewrite_block_owner(h)
        for c in getattr(owner, 'cases', []) or []:
            count += self._rewrite_block_owner(c)
        return count

    def _call_of(self, value: Optional[ast.AST]):
        """(call, awaited) if value is `helper(...)` or `await helper(...)` of an inlinable helper."""
        if isinstance(value, ast.Await) and isinstance(value.value, ast.Call):
            c = value.value
            h, _ = self._helper_of(c)
            if isinstance(h, ast.AsyncFunctionDef):
                return c, True
        if isinstance(value, ast.Call):
            h, _ = self._helper_of(value)
            if isinstance(h, ast.FunctionDef):
                return value, False
        return None, False

    def _try_with(self, s: ast.stmt) -> Optional[list]:
        """`with cm(args) [as v]: BODY` with a new context-manager helper: the helper's body with its `yield` statement replaced by BODY."""
        if not isinstance(s, (ast.With, ast.AsyncWith)) or len(s.items) != 1 or not isinstance(s.items[0].context_expr, ast.Call):
            return None
        call = s.items[0].context_expr
        if not (isinstance(call.func, ast.Name) and call.func.id in self.cms):
            return None
        fn = self.cms[call.func.id]
        if isinstance(fn, ast.AsyncFunctionDef) != isinstance(s, ast.AsyncWith):
            return None
        self._cm_mode = True
        try:
            body, _ = self._expand(call)
        finally:
            self._cm_mode = False
        if body is None:
            return None
        var = s.items[0].optional_vars
        done = [False]

        def put(block: list) -> list:
            out = []
            for st in block:
                if isinstance(st, ast.Expr) and isinstance(st.value, ast.Yield) and not done[0]:
                    done[0] = True
                    if var is not None:
                        out.append(ast.copy_location(ast.Assign(targets=[var], value=st.value.value or ast.Constant(value=None)), s))
                    out.extend(s.body)
                    continue
                for field in ('body', 'orelse', 'finalbody'):
                    b = getattr(st, field, None)
                    if isinstance(b, list) and b and isinstance(b[0], ast.stmt):
                        setattr(st, field, put(b))
                for h in getattr(st, 'handlers', []) or []:
                    h.body = put(h.body)
                out.append(st)
            return out
        new = put(body)
        if not done[0]:
            return None
        for n in new:
            ast.fix_missing_locations(n)
        return new

    def _try_stmt(self, s: ast.stmt) -> Optional[list]:
        w = self._try_with(s)
        if w is not None:
            return w
        value = s.value if isinstance(s, (ast.Expr, ast.Assign, ast.AnnAssign, ast.Return)) else None
        call, _ = self._call_of(value)
        if call is None:
            return None
        body, ret = self._expand(call)
        if body is None:
            return None
        out = list(body)
        if isinstance(s, ast.Expr):
            pass
        elif ret is None:
            ret = ast.copy_location(ast.Constant(value=None), s)
        if isinstance(s, (ast.Assign, ast.AnnAssign)) and isinstance(ret, ast.Name) and ret.id.rsplit('__i', 1)[-1].isdigit() and '__i' in ret.id:
            tgts = s.targets if isinstance(s, ast.Assign) else [s.target]
            # `x = helper(p=x)` where the helper rebinds its parameter p and returns it: `p__iN = x ... x = p__iN`  ==>  the helper works on x itself
            if len(tgts) == 1 and isinstance(tgts[0], ast.Name):
                inits = [x for x in out if isinstance(x, ast.Assign) and len(x.targets) == 1 and isinstance(x.targets[0], ast.Name) and x.targets[0].id == ret.id
                         and isinstance(x.value, ast.Name) and x.value.id == tgts[0].id]
                others = sum(1 for x in out if x not in inits for n in ast.walk(x) if isinstance(n, ast.Name) and n.id == tgts[0].id)
                if len(inits) == 1 and others == 0:
                    out = [x for x in out if x is not inits[0]]
                    ren = _Subst({ret.id: tgts[0].id})
                    out = [ren.visit(x) for x in out]
                    for n in out:
                        ast.fix_missing_locations(n)
                    return out
            if len(tgts) == 1 and isinstance(tgts[0], ast.Name) and not any(tgts[0].id in _names(x) for x in out):
                # `r__iN, _ = X` ... `out = r__iN`  ==>  `out, _ = X`: the helper's result local becomes the caller's target
                ren = _Subst({ret.id: tgts[0].id})
                out = [ren.visit(x) for x in out]
                for n in out:
                    ast.fix_missing_locations(n)
                return out
        if isinstance(s, ast.Assign) and len(s.targets) == 1 and isinstance(s.targets[0], ast.Tuple) and isinstance(ret, ast.Tuple) \
                and len(ret.elts) == len(s.targets[0].elts) and all(isinstance(t, ast.Name) for t in s.targets[0].elts) \
                and all(isinstance(e, ast.Name) and '__i' in e.id and e.id.rsplit('__i', 1)[-1].isdigit() for e in ret.elts) \
                and len({e.id for e in ret.elts}) == len(ret.elts):
            # `a, b = helper()` with `return x, y` of helper locals: the helper's locals become the caller's targets
            tnames = [t.id for t in s.targets[0].elts]
            if not any(t in _names(x) for t in tnames for x in out):
                ren = _Subst({e.id: t for e, t in zip(ret.elts, tnames)})
                out = [ren.visit(x) for x in out]
                for n in out:
                    ast.fix_missing_locations(n)
                return out
        if isinstance(s, ast.Assign):
            out.append(ast.copy_location(ast.Assign(targets=s.targets, value=ret), s))
        elif isinstance(s, ast.AnnAssign):
            out.append(ast.copy_location(ast.AnnAssign(target=s.target, annotation=s.annotation, value=ret, simple=s.simple), s))
        elif isinstance(s, ast.Return):
            out.append(ast.copy_location(ast.Return(value=ret), s))
        for n in out:
            ast.fix_missing_locations(n)
        return out

    def _expand(self, call: ast.Call, pure_args_inline: bool = False):
        """(statements, return expression or None) of the helper body with parameters bound to the call's arguments."""
        fn, is_method = self._helper_of(call)
        self.counter += 1
        tag = f'__i{self.counter}'
        posargs = fn.args.args[1:] if is_method else fn.args.args
        params = [a.arg for a in posargs] + [a.arg for a in fn.args.kwonlyargs]
        defaults = {}
        pos = fn.args.args
        for a, d in zip(pos[len(pos) - len(fn.args.defaults):], fn.args.defaults):
            defaults[a.arg] = d
        for a, d in zip(fn.args.kwonlyargs, fn.args.kw_defaults):
            if d is not None:
                defaults[a.arg] = d
        bound: dict[str, ast.AST] = {}
        if any(isinstance(a, ast.Starred) for a in call.args) or any(k.arg is None for k in call.keywords):
            return None, None
        for a, v in zip([x.arg for x in posargs], call.args):
            bound[a] = v
        if len(call.args) > len(posargs):
            return None, None
        for k in call.keywords:
            if k.arg not in params:
                return None, None
            bound[k.arg] = k.value
        for p in params:
            if p not in bound:
                if p not in defaults:
                    return None, None
                bound[p] = defaults[p]
        body = [copy.deepcopy(s) for s in fn.body if not (isinstance(s, ast.Expr) and isinstance(s.value, ast.Constant))]
        assigned = set()
        for s in body:
            assigned |= _names(s, ast.Store)
            for n in ast.walk(s):
                if isinstance(n, ast.ExceptHandler) and n.name:
                    assigned.add(n.name)
        mapping: dict = {}
        pre: list = []
        for p in params:
            v = bound[p]
            simple = isinstance(v, (ast.Name, ast.Constant)) or (isinstance(v, ast.Attribute) and not _has(v, ast.Call, ast.Await, ast.Subscript)) \
                or (pure_args_inline and not _has(v, ast.Call, ast.Await, ast.Yield, ast.YieldFrom, ast.NamedExpr))
            if simple and p not in assigned:
                mapping[p] = v
            else:
                nm = f'{p}{tag}'
                pre.append(ast.copy_location(ast.Assign(targets=[ast.Name(id=nm, ctx=ast.Store())], value=copy.deepcopy(v)), call))
                mapping[p] = nm
        for a in assigned:
            if a not in mapping:
                mapping[a] = f'{a}{tag}'
            elif not isinstance(mapping[a], str):
                nm = f'{a}{tag}'
                pre.append(ast.copy_location(ast.Assign(targets=[ast.Name(id=nm, ctx=ast.Store())], value=copy.deepcopy(bound[a])), call))
                mapping[a] = nm
        sub = _Subst(mapping)
        body = [sub.visit(s) for s in body]
        for s in body:
            for n in ast.walk(s):
                if isinstance(n, ast.ExceptHandler) and n.name and n.name in mapping and isinstance(mapping[n.name], str):
                    n.name = mapping[n.name]
        ret = None
        nrets = sum(1 for x in body for n in ast.walk(x) if isinstance(n, ast.Return))
        if nrets > 1 or (nrets == 1 and not isinstance(body[-1], ast.Return)):
            rname = f'ret{tag}'

            def mk(r):
                val = r.value if (r is not None and r.value is not None) else ast.Constant(value=None)
                return ast.copy_location(ast.Assign(targets=[ast.Name(id=rname, ctx=ast.Store())], value=val), r if r is not None else call)
            conv = _tail_convert(body, mk)
            if conv is None:
                return None, None
            return pre + conv, ast.copy_location(ast.Name(id=rname, ctx=ast.Load()), call)
        if body and isinstance(body[-1], ast.Return):
            ret = body[-1].value
            body = body[:-1]
        return pre + body, ret

    def _expr_positions(self, s: ast.stmt) -> int:
        """Pure one-expression helpers used inside expressions: substitute the expression."""
        count = 0

        class T(ast.NodeTransformer):
            def visit_Call(t, n):  # noqa: N805
                nonlocal count
                t.generic_visit(n)
                fn, _m = self._helper_of(n)
                if fn is not None:
                    body = [x for x in fn.body if not (isinstance(x, ast.Expr) and isinstance(x.value, ast.Constant))]
                    if isinstance(fn, ast.FunctionDef) and len(body) == 1 and isinstance(body[0], ast.Return) and body[0].value is not None:
                        stmts, ret = self._expand(n, pure_args_inline=True)
                        if stmts == [] and ret is not None:
                            count += 1
                            return ast.copy_location(ret, n)
                return n

            def visit_FunctionDef(t, n):  # noqa: N805
                return n
            visit_AsyncFunctionDef = visit_FunctionDef
            visit_Lambda = visit_FunctionDef
        # only the statement's own expressions (nested statements are handled by the block walk)
        for fieldname, value in ast.iter_fields(s):
            if isinstance(value, ast.expr):
                setattr(s, fieldname, T().visit(value))
            elif isinstance(value, list) and value and isinstance(value[0], ast.expr):
                setattr(s, fieldname, [T().visit(v) for v in value])
            elif isinstance(value, list) and value and isinstance(value[0], ast.withitem):
                for it in value:
                    it.context_expr = T().visit(it.context_expr)
            elif isinstance(value, list) and value and isinstance(value[0], ast.keyword):
                for k in value:
                    k.value = T().visit(k.value)
        return count


# ---------------------------------------------------------------------------------------------------------------- 2. TEMPS
def _propagate_temps(fn, known_locals: set) -> int:
    """`t = <await-free expr>` immediately followed by the only statement reading `t` (once): substitute (new locals only)."""
    count = 0
    stores: dict[str, int] = {}
    loads: dict[str, int] = {}
    for n in ast.walk(fn):
        if isinstance(n, ast.Name):
            if isinstance(n.ctx, ast.Store):
                stores[n.id] = stores.get(n.id, 0) + 1
            elif isinstance(n.ctx, ast.Load):
                loads[n.id] = loads.get(n.id, 0) + 1
        elif isinstance(n, ast.arg):
            stores[n.arg] = stores.get(n.arg, 0) + 1
    nested_free = set()
    for n in ast.walk(fn):
        if isinstance(n, (ast.FunctionDef, ast.AsyncFunctionDef, ast.Lambda)) and n is not fn:
            nested_free |= _names(n)

    def own_exprs(s: ast.stmt) -> list:
        if isinstance(s, (ast.If, ast.While)):
            return [s.test]
        if isinstance(s, (ast.For, ast.AsyncFor)):
            return [s.iter]
        if isinstance(s, (ast.With, ast.AsyncWith)):
            return [it.context_expr for it in s.items]
        if isinstance(s, (ast.Try, ast.Match, ast.FunctionDef, ast.AsyncFunctionDef, ast.ClassDef)):
            return []
        return [s]

    def walk_blocks(owner):
        nonlocal count
        for field in ('body', 'orelse', 'finalbody'):
            block = getattr(owner, field, None)
            if not (isinstance(block, list) and block and isinstance(block[0], ast.stmt)):
                continue
            i = 0
            while i < len(block) - 1:
                s, nxt = block[i], block[i + 1]
                tgt = None
                if isinstance(s, ast.Assign) and len(s.targets) == 1 and isinstance(s.targets[0], ast.Name):
                    tgt, val = s.targets[0].id, s.value
                elif isinstance(s, ast.AnnAssign) and isinstance(s.target, ast.Name) and s.value is not None:
                    tgt, val = s.target.id, s.value
                if tgt and tgt not in known_locals and stores.get(tgt) == 1 and loads.get(tgt) == 1 and tgt not in nested_free \
                        and not _has(val, ast.Await, ast.Yield, ast.YieldFrom, ast.NamedExpr, ast.Lambda) and not isinstance(val, ast.Constant):
                    exprs = own_exprs(nxt)
                    uses = [n for e in exprs for n in ast.walk(e) if isinstance(n, ast.Name) and n.id == tgt and isinstance(n.ctx, ast.Load)]
                    in_comp = any(isinstance(c, (ast.ListComp, ast.SetComp, ast.DictComp, ast.GeneratorExp)) and tgt in _names(c) for e in exprs for c in ast.walk(e))
                    # the use must be the first thing evaluated that has an effect: require that nothing with a call/await precedes it
                    if len(uses) == 1 and not in_comp and _evaluated_first(exprs, uses[0], val):
                        sub = _Subst({tgt: val})
                        if isinstance(nxt, (ast.If, ast.While)):
                            nxt.test = sub.visit(nxt.test)
                        elif isinstance(nxt, (ast.For, ast.AsyncFor)):
                            nxt.iter = sub.visit(nxt.iter)
                        elif isinstance(nxt, (ast.With, ast.AsyncWith)):
                            for it in nxt.items:
                                it.context_expr = sub.visit(it.context_expr)
                        else:
                            block[i + 1] = sub.visit(nxt)
                        ast.fix_missing_locations(block[i + 1])
                        del block[i]
                        count += 1
                        loads[tgt] = 0
                        continue
                i += 1
            for s in block:
                if not isinstance(s, (ast.FunctionDef, ast.AsyncFunctionDef, ast.ClassDef)):
                    walk_blocks(s)
        for h in getattr(owner, 'handlers', []) or []:
            walk_blocks(h)
        for c in getattr(owner, 'cases', []) or []:
            walk_blocks(c)
    walk_blocks(fn)
    return count


PURE_BUILTINS = {'any', 'all', 'callable', 'isinstance', 'len', 'bool'}


def _is_pure(e: ast.AST) -> bool:
    """Effect-free and repeatable: names, constants, attribute reads, identity comparisons, boolean structure, conditional expressions, and the builtins
    any/all/callable/isinstance/len/bool over such expressions (incl. one generator expression over a name)."""
    if isinstance(e, (ast.Name, ast.Constant)):
        return True
    if isinstance(e, ast.Attribute):
        return _is_pure(e.value)
    if isinstance(e, ast.UnaryOp) and isinstance(e.op, ast.Not):
        return _is_pure(e.operand)
    if isinstance(e, ast.BoolOp):
        return all(_is_pure(v) for v in e.values)
    if isinstance(e, ast.IfExp):
        return _is_pure(e.test) and _is_pure(e.body) and _is_pure(e.orelse)
    if isinstance(e, ast.Compare):
        return all(isinstance(o, (ast.Is, ast.IsNot, ast.Lt, ast.LtE, ast.Gt, ast.GtE)) for o in e.ops) and _is_pure(e.left) and all(_is_pure(c) for c in e.comparators)
    if isinstance(e, ast.BinOp) and isinstance(e.op, (ast.Add, ast.Sub, ast.Mult)):
        return _is_pure(e.left) and _is_pure(e.right)
    if isinstance(e, ast.GeneratorExp):
        return len(e.generators) == 1 and isinstance(e.generators[0].iter, ast.Name) and not e.generators[0].is_async \
            and all(_is_pure(c) for c in e.generators[0].ifs) and _is_pure(e.elt)
    if isinstance(e, ast.Call) and isinstance(e.func, ast.Name) and e.func.id in PURE_BUILTINS and not e.keywords:
        return all(_is_pure(a) for a in e.args)
    return False


_STORED_ATTRS: Optional[set] = None


def _package_stored_attrs() -> set:
    """Attribute names that are assigned / deleted / aug-assigned anywhere in the analysed package (other than `self.x = ...` inside __init__/__post_init__)."""
    global _STORED_ATTRS
    if _STORED_ATTRS is None:
        out = set()
        root = os.path.join(os.environ.get('KVERIF_REPO', '/repo'), 'kopf')
        for dirpath, _dirs, files in os.walk(root):
            for fn_ in files:
                if fn_.endswith('.py'):
                    try:
                        t = ast.parse(open(os.path.join(dirpath, fn_), encoding='utf-8').read())
                    except SyntaxError:
                        continue
                    inits = {id(x) for d in ast.walk(t) if isinstance(d, (ast.FunctionDef, ast.AsyncFunctionDef)) and d.name in ('__init__', '__post_init__', '__new__')
                             for x in ast.walk(d)}
                    for n in ast.walk(t):
                        if isinstance(n, ast.Attribute) and isinstance(n.ctx, (ast.Store, ast.Del)) and id(n) not in inits:
                            out.add(n.attr)
        _STORED_ATTRS = out
    return _STORED_ATTRS


def _is_attr_chain(e: ast.AST) -> bool:
    while isinstance(e, ast.Attribute):
        e = e.value
    return isinstance(e, ast.Name)


def _propagate_pure(fn, known_locals: set) -> int:
    """A NEW local bound once, in the function's top-level block, to a pure expression over names that are never rebound and attributes that are never
    stored in the function, is substituted at all its (later) uses: `criterion = handler.value`, `any_present = any(v is not absent for v in values)`."""
    count = 0
    stores: dict[str, int] = {}
    for n in ast.walk(fn):
        if isinstance(n, ast.Name) and isinstance(n.ctx, ast.Store):
            stores[n.id] = stores.get(n.id, 0) + 1
        elif isinstance(n, ast.arg):
            stores[n.arg] = stores.get(n.arg, 0) + 1
    attr_stores = {n.attr for n in ast.walk(fn) if isinstance(n, ast.Attribute) and isinstance(n.ctx, (ast.Store, ast.Del))}
    nested_free = set()
    for n in ast.walk(fn):
        if isinstance(n, (ast.FunctionDef, ast.AsyncFunctionDef, ast.Lambda)) and n is not fn:
            nested_free |= _names(n)
    total_loads: dict[str, int] = {}
    for n in ast.walk(fn):
        if isinstance(n, ast.Name) and isinstance(n.ctx, ast.Load):
            total_loads[n.id] = total_loads.get(n.id, 0) + 1

    def do_block(body: list) -> None:
        nonlocal count
        i = 0
        while i < len(body):
            s = body[i]
            tgt = None
            if isinstance(s, ast.Assign) and len(s.targets) == 1 and isinstance(s.targets[0], ast.Name):
                tgt, val = s.targets[0].id, s.value
            elif isinstance(s, ast.AnnAssign) and isinstance(s.target, ast.Name) and s.value is not None:
                tgt, val = s.target.id, s.value
            if tgt and tgt not in known_locals and stores.get(tgt) == 1 and tgt not in nested_free and not isinstance(val, ast.Constant) and _is_pure(val):
                comp_vars = {n.id for g in ast.walk(val) if isinstance(g, ast.comprehension) for n in ast.walk(g.target) if isinstance(n, ast.Name)}
                free = {n.id for n in ast.walk(val) if isinstance(n, ast.Name)} - comp_vars
                attrs = {n.attr for n in ast.walk(val) if isinstance(n, ast.Attribute)}
                later = body[i + 1:]
                loads = sum(1 for x in later for n in ast.walk(x) if isinstance(n, ast.Name) and n.id == tgt and isinstance(n.ctx, ast.Load))
                rebound_later = {n.id for x in later for n in ast.walk(x) if isinstance(n, ast.Name) and isinstance(n.ctx, (ast.Store, ast.Del))}
                calls_later = False     # an attribute read is stable only if nothing in between can change it: keep it simple -- attribute-free values may cross calls
                if attrs:
                    calls_later = False
                # shared objects may be changed by OTHER tasks at any suspension point: a value is only repeatable up to the next await/yield
                last_use = max((k for k, x in enumerate(later) if tgt in _names(x)), default=-1)
                crosses_suspension = any(_has(x, ast.Await, ast.Yield, ast.YieldFrom, ast.AsyncFor, ast.AsyncWith) for x in later[:last_use + 1])
                if crosses_suspension and _is_attr_chain(val) and attrs and not (attrs & _package_stored_attrs()):
                    crosses_suspension = False      # `dm = memory.daemons_memory`: fields that nothing in the package ever re-binds are stable across awaits too
                if not crosses_suspension and not (free & rebound_later) and not (attrs & attr_stores) and loads == total_loads.get(tgt, 0) and 1 <= loads <= 8 \
                        and sum(1 for _ in ast.walk(val)) <= 40 and not calls_later:
                    sub = _Subst({tgt: val})
                    for k in range(i + 1, len(body)):
                        body[k] = sub.visit(body[k])
                        ast.fix_missing_locations(body[k])
                    del body[i]
                    count += 1
                    continue
            for field in ('body', 'orelse', 'finalbody'):
                b = getattr(s, field, None)
                if isinstance(b, list) and b and isinstance(b[0], ast.stmt) and not isinstance(s, (ast.FunctionDef, ast.AsyncFunctionDef, ast.ClassDef)):
                    do_block(b)
            for h in getattr(s, 'handlers', []) or []:
                do_block(h.body)
            for c in getattr(s, 'cases', []) or []:
                do_block(c.body)
            i += 1
    do_block(fn.body)
    return count


def _fuse_collect_then_loop(owner: ast.AST, known_locals: set) -> int:
    """`xs = [v for v in IT if C]` (a NEW local) immediately followed by `for v in xs: BODY`, xs used nowhere else, and BODY touching nothing that C reads:
    the two-phase form of `for v in list(IT): if C: BODY`."""
    count = 0
    for field in ('body', 'orelse', 'finalbody'):
        block = getattr(owner, field, None)
        if not (isinstance(block, list) and block and isinstance(block[0], ast.stmt)):
            continue
        i = 0
        while i < len(block) - 1:
            s, nxt = block[i], block[i + 1]
            if isinstance(s, ast.Assign) and len(s.targets) == 1 and isinstance(s.targets[0], ast.Name) and s.targets[0].id not in known_locals \
                    and isinstance(s.value, ast.ListComp) and len(s.value.generators) == 1 and isinstance(s.value.elt, ast.Name) \
                    and isinstance(s.value.generators[0].target, ast.Name) and s.value.elt.id == s.value.generators[0].target.id \
                    and isinstance(nxt, ast.For) and isinstance(nxt.iter, ast.Name) and nxt.iter.id == s.targets[0].id and isinstance(nxt.target, ast.Name) and not nxt.orelse:
                xs = s.targets[0].id
                gen = s.value.generators[0]
                uses = sum(1 for n in ast.walk(owner) if isinstance(n, ast.Name) and n.id == xs)
                reads = set().union(*[_names(c) for c in gen.ifs]) if gen.ifs else set()
                touched = set()
                for b in nxt.body:
                    for n in ast.walk(b):
                        if isinstance(n, ast.Name) and isinstance(n.ctx, (ast.Store, ast.Del)):
                            touched.add(n.id)
                        if isinstance(n, (ast.Subscript, ast.Attribute)) and isinstance(n.ctx, (ast.Store, ast.Del)):
                            r = n
                            while isinstance(r, (ast.Subscript, ast.Attribute)):
                                r = r.value
                            if isinstance(r, ast.Name):
                                touched.add(r.id)
                        if isinstance(n, ast.Call):
                            touched.add('<call>')
                if uses == 2 and not (reads & touched) and '<call>' not in touched and not _has(s.value, ast.Await) and gen.ifs:
                    ren = _Subst({gen.target.id: nxt.target.id}) if gen.target.id != nxt.target.id else None
                    conds = [ren.visit(copy.deepcopy(c)) if ren else c for c in gen.ifs]
                    test = conds[0] if len(conds) == 1 else ast.BoolOp(op=ast.And(), values=conds)
                    it = ast.Call(func=ast.Name(id='list', ctx=ast.Load()), args=[gen.iter], keywords=[])
                    fused = ast.For(target=nxt.target, iter=it, body=[ast.copy_location(ast.If(test=test, body=nxt.body, orelse=[]), nxt)], orelse=[], type_comment=None)
                    block[i:i + 2] = [ast.copy_location(fused, nxt)]
                    ast.fix_missing_locations(block[i])
                    count += 1
                    continue
            i += 1
        for st in block:
            if not isinstance(st, (ast.FunctionDef, ast.AsyncFunctionDef, ast.ClassDef)):
                count += _fuse_collect_then_loop(st, known_locals)
    for h in getattr(owner, 'handlers', []) or []:
        count += _fuse_collect_then_loop(h, known_locals)
    return count


def _evaluated_first(exprs: list, use: ast.Name, val: ast.AST) -> bool:
    """Substituting `val` at `use` keeps the order of effects: `val` is effect-free (no call), or no call/await is evaluated before `use`
    in the statement and the use is not under a short-circuit / conditional (so it is evaluated exactly once, unconditionally)."""
    pure = not _has(val, ast.Call, ast.Await)
    for e in exprs:
        parents = {}
        for p in ast.walk(e):
            for c in ast.iter_child_nodes(p):
                parents[c] = p
        if use not in parents and use is not e:
            continue
        # conditional evaluation?
        n = use
        while n in parents:
            p = parents[n]
            if isinstance(p, ast.BoolOp) and p.values[0] is not n:
                if not pure:
                    return False
            if isinstance(p, ast.IfExp) and p.test is not n:
                if not pure:
                    return False
            if isinstance(p, (ast.ListComp, ast.SetComp, ast.DictComp, ast.GeneratorExp, ast.Lambda)):
                return False
            n = p
        if pure:
            return True
        # effects evaluated before the use (source order approximates evaluation order for calls in arguments)
        before = [c for c in ast.walk(e) if isinstance(c, (ast.Call, ast.Await)) and (c.lineno, c.col_offset) < (use.lineno, use.col_offset)
                  and use not in list(ast.walk(c))]
        return not before
    return False


# ---------------------------------------------------------------------------------------------------------------- 3. COLLECT
def _collect_loops(fn, known_locals: set, may_fold_all: bool) -> int:
    count = 0

    def walk_blocks(owner):
        nonlocal count
        for field in ('body', 'orelse', 'finalbody'):
            block = getattr(owner, field, None)
            if not (isinstance(block, list) and block and isinstance(block[0], ast.stmt)):
                continue
            i = 0
            while i < len(block) - 1:
                s, lp = block[i], block[i + 1]
                made = _as_comprehension(s, lp, fn)
                if made is not None and _acc_name(s) in known_locals and not may_fold_all:
                    made = None          # today's tree already has this accumulator loop: leave it as the rules know it
                if made is not None:
                    block[i] = made
                    del block[i + 1]
                    count += 1
                    continue
                if may_fold_all and i + 2 < len(block):
                    parts = _as_partition(s, lp, block[i + 2])
                    if parts is not None:
                        block[i:i + 3] = parts
                        count += 1
                        continue
                made2 = _as_all(s, lp) if may_fold_all else None
                if made2 is not None:
                    block[i] = made2
                    del block[i + 1]
                    count += 1
                    continue
                i += 1
            for s in block:
                if not isinstance(s, (ast.FunctionDef, ast.AsyncFunctionDef, ast.ClassDef)):
                    walk_blocks(s)
        for h in getattr(owner, 'handlers', []) or []:
            walk_blocks(h)
        for c in getattr(owner, 'cases', []) or []:
            walk_blocks(c)
    walk_blocks(fn)
    return count


def _acc_name(init: ast.stmt) -> Optional[str]:
    if isinstance(init, ast.Assign) and len(init.targets) == 1 and isinstance(init.targets[0], ast.Name):
        return init.targets[0].id
    if isinstance(init, ast.AnnAssign) and isinstance(init.target, ast.Name):
        return init.target.id
    return None


def _as_comprehension(init: ast.stmt, lp: ast.stmt, fn) -> Optional[ast.stmt]:
    tgt = None
    if isinstance(init, ast.Assign) and len(init.targets) == 1 and isinstance(init.targets[0], ast.Name):
        tgt, val, ann = init.targets[0].id, init.value, None
    elif isinstance(init, ast.AnnAssign) and isinstance(init.target, ast.Name) and init.value is not None:
        tgt, val, ann = init.target.id, init.value, init.annotation
    if tgt is None or not isinstance(lp, ast.For) or lp.orelse:
        return None
    kind = None
    if isinstance(val, ast.List) and not val.elts:
        kind, meth = 'list', 'append'
    elif isinstance(val, ast.Call) and isinstance(val.func, ast.Name) and val.func.id == 'set' and not val.args and not val.keywords:
        kind, meth = 'set', 'add'
    if kind is None:
        return None
    body = lp.body
    conds = []
    while len(body) == 1 and isinstance(body[0], ast.If) and not body[0].orelse:
        conds.append(body[0].test)
        body = body[0].body
    # guard clauses: `if c: continue` before the append
    while len(body) >= 2 and isinstance(body[0], ast.If) and not body[0].orelse and len(body[0].body) == 1 and isinstance(body[0].body[0], ast.Continue):
        conds.append(ast.copy_location(ast.UnaryOp(op=ast.Not(), operand=body[0].test), body[0].test))
        body = body[1:]
    if len(body) != 1 or not isinstance(body[0], ast.Expr) or not isinstance(body[0].value, ast.Call):
        return None
    call = body[0].value
    if not (isinstance(call.func, ast.Attribute) and call.func.attr == meth and isinstance(call.func.value, ast.Name) and call.func.value.id == tgt
            and len(call.args) == 1 and not call.keywords):
        return None
    if _has(lp, ast.Await, ast.Yield, ast.YieldFrom) or tgt in _names(lp.iter) or any(tgt in _names(c) for c in conds) or tgt in _names(call.args[0]):
        return None
    gen = ast.comprehension(target=lp.target, iter=lp.iter, ifs=conds, is_async=0)
    comp = ast.ListComp(elt=call.args[0], generators=[gen]) if kind == 'list' else ast.SetComp(elt=call.args[0], generators=[gen])
    ast.copy_location(comp, lp)
    new = ast.Assign(targets=[ast.Name(id=tgt, ctx=ast.Store())], value=comp) if ann is None else \
        ast.AnnAssign(target=ast.Name(id=tgt, ctx=ast.Store()), annotation=ann, value=comp, simple=1)
    ast.copy_location(new, init)
    ast.fix_missing_locations(new)
    return new


def _empty_list_init(s: ast.stmt):
    if isinstance(s, ast.Assign) and len(s.targets) == 1 and isinstance(s.targets[0], ast.Name) and isinstance(s.value, ast.List) and not s.value.elts:
        return s.targets[0].id, None
    if isinstance(s, ast.AnnAssign) and isinstance(s.target, ast.Name) and isinstance(s.value, ast.List) and not s.value.elts:
        return s.target.id, s.annotation
    return None, None


def _as_partition(i1: ast.stmt, i2: ast.stmt, lp: ast.stmt) -> Optional[list]:
    """xs = []; ys = []; for v in it: if c: ys.append(e) else: xs.append(f)   ==>   xs = [f for v in it if not c]; ys = [e for v in it if c]"""
    a, a_ann = _empty_list_init(i1)
    b, b_ann = _empty_list_init(i2)
    if not a or not b or a == b or not isinstance(lp, ast.For) or lp.orelse or len(lp.body) != 1:
        return None
    br = lp.body[0]
    if not isinstance(br, ast.If) or len(br.body) != 1 or len(br.orelse) != 1 or _has(lp, ast.Await, ast.Yield, ast.YieldFrom):
        return None

    def app(st):
        if isinstance(st, ast.Expr) and isinstance(st.value, ast.Call) and isinstance(st.value.func, ast.Attribute) and st.value.func.attr == 'append' \
                and isinstance(st.value.func.value, ast.Name) and len(st.value.args) == 1 and not st.value.keywords:
            return st.value.func.value.id, st.value.args[0]
        return None, None
    t_name, t_elt = app(br.body[0])
    f_name, f_elt = app(br.orelse[0])
    if {t_name, f_name} != {a, b}:
        return None
    out = []
    for name, ann, init in ((a, a_ann, i1), (b, b_ann, i2)):
        positive = name == t_name
        elt = t_elt if positive else f_elt
        cond = copy.deepcopy(br.test) if positive else ast.copy_location(ast.UnaryOp(op=ast.Not(), operand=copy.deepcopy(br.test)), br.test)
        gen = ast.comprehension(target=copy.deepcopy(lp.target), iter=copy.deepcopy(lp.iter), ifs=[cond], is_async=0)
        comp = ast.copy_location(ast.ListComp(elt=copy.deepcopy(elt), generators=[gen]), lp)
        new = ast.Assign(targets=[ast.Name(id=name, ctx=ast.Store())], value=comp) if ann is None else \
            ast.AnnAssign(target=ast.Name(id=name, ctx=ast.Store()), annotation=ann, value=comp, simple=1)
        ast.copy_location(new, init)
        ast.fix_missing_locations(new)
        out.append(new)
    return out


def _as_all(lp: ast.stmt, ret: ast.stmt) -> Optional[ast.stmt]:
    """for v in it: [if c:] if not e: return False   /   return True      =>   return all(e for v in it if c)"""
    if not (isinstance(lp, ast.For) and not lp.orelse and isinstance(ret, ast.Return) and isinstance(ret.value, ast.Constant) and ret.value.value is True):
        return None
    body = lp.body
    conds = []
    while len(body) == 1 and isinstance(body[0], ast.If) and not body[0].orelse and not (
            len(body[0].body) == 1 and isinstance(body[0].body[0], ast.Return)):
        conds.append(body[0].test)
        body = body[0].body
    if len(body) != 1 or not isinstance(body[0], ast.If) or body[0].orelse or len(body[0].body) != 1:
        return None
    inner = body[0]
    r = inner.body[0]
    if not (isinstance(r, ast.Return) and isinstance(r.value, ast.Constant) and r.value.value is False):
        return None
    if _has(lp, ast.Await, ast.Yield, ast.YieldFrom):
        return None
    test = inner.test
    # `if A and B and not E: return False`  ==  the element `E` must hold for every item passing the filters A, B
    if isinstance(test, ast.BoolOp) and isinstance(test.op, ast.And) and len(test.values) >= 2:
        conds = conds + list(test.values[:-1])
        test = test.values[-1]
    elt = test.operand if isinstance(test, ast.UnaryOp) and isinstance(test.op, ast.Not) else ast.UnaryOp(op=ast.Not(), operand=test)
    gen = ast.comprehension(target=lp.target, iter=lp.iter, ifs=conds, is_async=0)
    call = ast.Call(func=ast.Name(id='all', ctx=ast.Load()), args=[ast.GeneratorExp(elt=elt, generators=[gen])], keywords=[])
    new = ast.Return(value=call)
    ast.copy_location(new, lp)
    ast.fix_missing_locations(new)
    return new


# ---------------------------------------------------------------------------------------------------------------- 5. IFASSIGN
def _fold_if_assign(fn) -> int:
    """`if C: x = A` / `else: x = B`  (nothing else in either branch)  ==>  `x = A if C else B`; a bare `x: T` just before is merged."""
    count = 0

    def single_assign(block):
        if len(block) == 1 and isinstance(block[0], ast.Assign) and len(block[0].targets) == 1 and isinstance(block[0].targets[0], ast.Name):
            return block[0].targets[0].id, block[0].value
        if len(block) == 1 and isinstance(block[0], ast.AnnAssign) and isinstance(block[0].target, ast.Name) and block[0].value is not None:
            return block[0].target.id, block[0].value
        return None, None

    def walk_blocks(owner):
        nonlocal count
        for field in ('body', 'orelse', 'finalbody'):
            block = getattr(owner, field, None)
            if not (isinstance(block, list) and block and isinstance(block[0], ast.stmt)):
                continue
            i = 0
            while i < len(block):
                s = block[i]
                if isinstance(s, ast.If) and s.orelse:
                    a, av = single_assign(s.body)
                    b, bv = single_assign(s.orelse)
                    if a and a == b and not _has(s.test, ast.NamedExpr):
                        val = ast.copy_location(ast.IfExp(test=s.test, body=av, orelse=bv), s)
                        new = ast.copy_location(ast.Assign(targets=[ast.Name(id=a, ctx=ast.Store())], value=val), s)
                        if i > 0 and isinstance(block[i - 1], ast.AnnAssign) and block[i - 1].value is None \
                                and isinstance(block[i - 1].target, ast.Name) and block[i - 1].target.id == a:
                            new = ast.copy_location(ast.AnnAssign(target=ast.Name(id=a, ctx=ast.Store()), annotation=block[i - 1].annotation, value=val, simple=1), s)
                            del block[i - 1]
                            i -= 1
                        ast.fix_missing_locations(new)
                        block[i] = new
                        count += 1
                i += 1
            for s in block:
                if not isinstance(s, (ast.FunctionDef, ast.AsyncFunctionDef, ast.ClassDef)):
                    walk_blocks(s)
        for h in getattr(owner, 'handlers', []) or []:
            walk_blocks(h)
        for c in getattr(owner, 'cases', []) or []:
            walk_blocks(c)
    walk_blocks(fn)
    return count


# ---------------------------------------------------------------------------------------------------------------- entry point
# ---------------------------------------------------------------------------------------------------------------- 5. UNFOLD
def _loop_of(comp_generators: list, innermost: list, at: ast.AST) -> ast.stmt:
    """Nested `for`/`if` statements equivalent to the generators of a comprehension, with ``innermost`` as the body."""
    body = innermost
    for gen in reversed(comp_generators):
        for cond in reversed(gen.ifs):
            pre = []
            # `if (x := E) is not None` -> `x = E` / `if x is not None` (the walrus is the first thing evaluated in the test)
            first = cond.left if isinstance(cond, ast.Compare) else cond
            if isinstance(first, ast.NamedExpr) and isinstance(first.target, ast.Name):
                pre = [ast.copy_location(ast.Assign(targets=[ast.Name(id=first.target.id, ctx=ast.Store())], value=first.value), at)]
                ref = ast.copy_location(ast.Name(id=first.target.id, ctx=ast.Load()), first)
                if isinstance(cond, ast.Compare):
                    cond = ast.copy_location(ast.Compare(left=ref, ops=cond.ops, comparators=cond.comparators), cond)
                else:
                    cond = ref
            body = pre + [ast.copy_location(ast.If(test=cond, body=body, orelse=[]), at)]
        body = [ast.copy_location(ast.For(target=gen.target, iter=gen.iter, body=body, orelse=[], type_comment=None), at)]
    return body[0]


def _unfold_stmt(s: ast.stmt, keep: frozenset = frozenset()) -> Optional[list]:
    """`return any/all(<genexp>)`, `x = [<listcomp>]`, `x = {<dictcomp>}`, `x = {<setcomp>}`, `return [<listcomp>]` as explicit loops (the inverse of
    COLLECT): applied only in functions that had a loop in the inventory and have fewer loops now."""
    def gens_ok(c) -> bool:
        return all(not g.is_async for g in c.generators)

    def store(name: str) -> ast.Name:
        return ast.Name(id=name, ctx=ast.Store())

    def load(name: str) -> ast.Name:
        return ast.Name(id=name, ctx=ast.Load())
    if isinstance(s, ast.Return) and '<return>' in keep:
        return None
    if isinstance(s, (ast.Assign, ast.AnnAssign)):
        t0 = s.targets[0] if isinstance(s, ast.Assign) and len(s.targets) == 1 else getattr(s, 'target', None)
        if isinstance(t0, ast.Name) and t0.id in keep:
            return None           # bound to a comprehension in today's tree already: the rules know it in that shape
    if isinstance(s, ast.Return) and isinstance(s.value, ast.Call) and isinstance(s.value.func, ast.Name) and s.value.func.id in ('any', 'all') \
            and len(s.value.args) == 1 and not s.value.keywords and isinstance(s.value.args[0], (ast.GeneratorExp, ast.ListComp)) and gens_ok(s.value.args[0]):
        comp = s.value.args[0]
        is_any = s.value.func.id == 'any'
        test = comp.elt if is_any else ast.copy_location(ast.UnaryOp(op=ast.Not(), operand=comp.elt), comp.elt)
        inner = [ast.copy_location(ast.If(test=test, body=[ast.copy_location(ast.Return(value=ast.Constant(value=is_any)), s)], orelse=[]), s)]
        return [_loop_of(comp.generators, inner, s), ast.copy_location(ast.Return(value=ast.Constant(value=not is_any)), s)]
    tgt = None
    if isinstance(s, ast.Assign) and len(s.targets) == 1 and isinstance(s.targets[0], ast.Name):
        tgt, val, ann = s.targets[0].id, s.value, None
    elif isinstance(s, ast.AnnAssign) and isinstance(s.target, ast.Name) and s.value is not None:
        tgt, val, ann = s.target.id, s.value, s.annotation
    elif isinstance(s, ast.Return) and isinstance(s.value, (ast.ListComp, ast.DictComp, ast.SetComp)):
        tgt, val, ann = '__unfolded', s.value, None
    elif isinstance(s, ast.Return) and isinstance(s.value, ast.Call) and isinstance(s.value.func, ast.Name) and s.value.func.id in ('frozenset', 'set', 'list', 'tuple') \
            and len(s.value.args) == 1 and not s.value.keywords and isinstance(s.value.args[0], (ast.GeneratorExp, ast.ListComp, ast.SetComp)) and gens_ok(s.value.args[0]):
        # `return frozenset(<genexp>)`: collect into a local of the corresponding mutable kind, return the wrapper of it
        g0 = s.value.args[0]
        kind = ast.SetComp if s.value.func.id in ('frozenset', 'set') else ast.ListComp
        conv = _unfold_stmt(ast.copy_location(ast.Assign(targets=[ast.Name(id='__unfolded', ctx=ast.Store())],
                                                         value=ast.copy_location(kind(elt=g0.elt, generators=g0.generators), g0)), s))
        if conv is None:
            return None
        wrapped = ast.Name(id='__unfolded', ctx=ast.Load()) if s.value.func.id in ('set', 'list') else \
            ast.Call(func=ast.Name(id=s.value.func.id, ctx=ast.Load()), args=[ast.Name(id='__unfolded', ctx=ast.Load())], keywords=[])
        return conv + [ast.copy_location(ast.Return(value=wrapped), s)]
    if tgt is None or not isinstance(val, (ast.ListComp, ast.DictComp, ast.SetComp)) or not gens_ok(val):
        return None
    if tgt in _names(val):
        return None
    if isinstance(val, ast.ListComp):
        init = ast.List(elts=[], ctx=ast.Load())
        add = ast.Expr(value=ast.Call(func=ast.Attribute(value=load(tgt), attr='append', ctx=ast.Load()), args=[val.elt], keywords=[]))
    elif isinstance(val, ast.SetComp):
        init = ast.Call(func=load('set'), args=[], keywords=[])
        add = ast.Expr(value=ast.Call(func=ast.Attribute(value=load(tgt), attr='add', ctx=ast.Load()), args=[val.elt], keywords=[]))
    else:
        init = ast.Dict(keys=[], values=[])
        add = ast.Assign(targets=[ast.Subscript(value=load(tgt), slice=val.key, ctx=ast.Store())], value=val.value)
    first = ast.AnnAssign(target=store(tgt), annotation=ann, value=init, simple=1) if ann is not None else ast.Assign(targets=[store(tgt)], value=init)
    out = [ast.copy_location(first, s), _loop_of(val.generators, [ast.copy_location(add, s)], s)]
    if isinstance(s, ast.Return):
        out.append(ast.copy_location(ast.Return(value=load(tgt)), s))
    return out


def _unfold_comprehensions(owner: ast.AST, keep: frozenset = frozenset()) -> int:
    count = 0
    for field in ('body', 'orelse', 'finalbody'):
        block = getattr(owner, field, None)
        if isinstance(block, list) and block and isinstance(block[0], ast.stmt):
            new = []
            for s in block:
                repl = _unfold_stmt(s, keep)
                if repl is not None:
                    new.extend(repl)
                    count += 1
                else:
                    new.append(s)
                    if not isinstance(s, (ast.FunctionDef, ast.AsyncFunctionDef, ast.ClassDef)):
                        count += _unfold_comprehensions(s, keep)
            setattr(owner, field, new)
    for h in getattr(owner, 'handlers', []) or []:
        count += _unfold_comprehensions(h, keep)
    for c in getattr(owner, 'cases', []) or []:
        count += _unfold_comprehensions(c, keep)
    return count


def canonicalise(modname: str, tree: ast.Module) -> dict:
    stats = {'inlined': 0, 'temps': 0, 'collected': 0}
    if not enabled():
        return stats
    inv = inventory()
    if not inv:
        return stats
    stats['inlined'] = Inliner(modname, tree).run()
    for q, fn in list(iter_defs(tree, modname)):
        known = inv.get(q, {'locals': [], 'for_loops': 0, 'if_stmts': 0})
        kl = set(known['locals'])
        if sum(1 for n in ast.walk(fn) if isinstance(n, ast.If)) > known.get('if_stmts', 0):
            stats['temps'] += _fold_if_assign(fn)
        stats['temps'] += _propagate_pure(fn, kl)
        stats['collected'] += _fuse_collect_then_loop(fn, kl)
        for _ in range(4):
            n = _propagate_temps(fn, kl)
            stats['temps'] += n
            if not n:
                break
        now_loops = sum(1 for n in ast.walk(fn) if isinstance(n, ast.For))
        if now_loops < known['for_loops']:
            nu = _unfold_comprehensions(fn, frozenset(known.get('comp_targets', [])))     # a loop of today's tree was turned into a comprehension
            stats['unfolded'] = stats.get('unfolded', 0) + nu
            if nu:
                continue                        # do not fold them back
        stats['collected'] += _collect_loops(fn, kl, may_fold_all=now_loops > known['for_loops'])
    ast.fix_missing_locations(tree)
    return stats


def build_inventory(root: str, package: str = 'kopf') -> dict:
    """Inventory of the tree under ``root`` (run once on the pinned tree: ./bin/mkinventory)."""
    out = {}
    pkgdir = os.path.join(root, package)
    for dirpath, dirnames, filenames in sorted(os.walk(pkgdir)):
        dirnames.sort()
        for fn in sorted(filenames):
            if not fn.endswith('.py'):
                continue
            path = os.path.join(dirpath, fn)
            rel = os.path.relpath(path, root)[:-3].replace(os.sep, '.')
            if rel.endswith('.__init__'):
                rel = rel[:-len('.__init__')]
            with open(path, encoding='utf-8') as f:
                tree = ast.parse(f.read(), filename=path)
            for q, node in iter_defs(tree, rel):
                out[q] = shape_of(node)
    return out
