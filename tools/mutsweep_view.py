#!/venv/bin/python
"""Development aid: summarise a mutsweep output. usage: tools/mutsweep_view.py FILE [substr-of-function]"""
import json, sys
from collections import defaultdict
rows = [json.loads(l) for l in open(sys.argv[1])]
sel = sys.argv[2] if len(sys.argv) > 2 else ''
by = defaultdict(list)
for r in rows:
    by[r['outer']].append(r)
tot = defaultdict(int)
for r in rows: tot[r['verdict']] += 1
print(dict(tot))
for fn in sorted(by):
    if sel and sel not in fn: continue
    rs = by[fn]; k = sum(r['verdict'] != 'survived' for r in rs)
    print(f"\n== {fn}  [{','.join(rs[0]['props'])}]  reported {k}/{len(rs)}")
    if sel or '-v' in sys.argv:
        for r in sorted(rs, key=lambda r: (r['line'], r['op'])):
            if r['verdict'] == 'survived':
                print(f"   SURV {r['line']:4} {r['op']:9} {r['what'][:120]}")
