"""
O5 (C06/C02, observation outside static reach -- recorded, not checked): progress records are keyed by
handler id; when the cause changes in the middle of a cycle the records of the handlers selected for the
new cause are "re-purposed" with their finished status kept (`HandlerState.with_purpose`). A function
registered for both creation and deletion (one id) that already succeeded for the creation is therefore
treated as already succeeded for the deletion when the object is deleted while another creation handler is
still retrying: the mandatory deletion handler never runs, the cycle is "done" at once, and the finalizer
is released.
Run: /venv/bin/python O5_shared_id_skips_deletion_handler.py
"""
import asyncio, logging, json
import kopf
from kopf._core.reactor import processing, inventory
from kopf._core.intents import registries, causes
from kopf._core.actions import lifecycles
from kopf._cogs.structs import bodies, patches, references, diffs
from kopf._cogs.configs import configuration
from kopf._core.engines.indexing import OperatorIndexers
logging.disable(logging.CRITICAL)
registry = registries.OperatorRegistry(); calls = []
@kopf.on.create('g', 'v1', 'plural', registry=registry)
@kopf.on.delete('g', 'v1', 'plural', registry=registry)
def ensure(reason, **_): calls.append(f'ensure({reason})')
@kopf.on.create('g', 'v1', 'plural', registry=registry)
def slow(**_): calls.append('slow'); raise kopf.TemporaryError("not yet", delay=60)

async def main():
    settings = configuration.OperatorSettings()
    resource = references.Resource('g', 'v1', 'plural')
    raw = {'metadata': {'name': 'x', 'namespace': 'ns', 'uid': 'u', 'finalizers': [settings.persistence.finalizer]}, 'spec': {'a': 1}}
    def merge(doc, patch):
        for k, v in patch.items():
            if v is None: doc.pop(k, None)
            elif isinstance(v, dict): doc[k] = merge(doc.get(k) if isinstance(doc.get(k), dict) else {}, v)
            else: doc[k] = v
        return doc
    async def cycle(reason_hint):
        body = bodies.Body(raw); patch = patches.Patch(body=body)
        new = settings.persistence.progress_storage.clear(essence=settings.persistence.diffbase_storage.build(body=body))
        old = settings.persistence.diffbase_storage.fetch(body=body)
        cause = causes.detect_changing_cause(finalizer=settings.persistence.finalizer, raw_event={'type': 'MODIFIED', 'object': raw},
            body=body, old=old, new=new, diff=diffs.diff(old, new), initial=False, resource=resource,
            indices=OperatorIndexers().indices, logger=logging.getLogger(), patch=patch, memo=None)
        await processing.process_changing_cause(lifecycle=lifecycles.all_at_once, registry=registry, settings=settings,
                                                memory=inventory.ResourceMemory(), cause=cause)
        merge(raw, json.loads(json.dumps(dict(patch))))
        return cause.reason
    r = await cycle('create'); print('cycle 1:', r, '->', calls); calls.clear()
    raw['metadata']['deletionTimestamp'] = '2020-01-01T00:00:00Z'       # the user deletes the object while `slow` is still retrying
    r = await cycle('delete'); print('cycle 2:', r, '->', calls, '| progress annotations left:', [k for k in raw['metadata'].get('annotations', {}) if 'ensure' in k or 'slow' in k])
asyncio.run(main())
