#!/bin/sh
# Development aid: run the quick checks on every behaviour-preserving refactoring delivered under /tmp/seedwork/B*/out/R*/patch.diff; any report is a false alarm.
for d in /tmp/seedwork/B*/out/R*; do
  [ -f "$d/patch.diff" ] || continue
  [ -f "$d/checks.txt" ] && continue
  /verif/tools/try_seed.sh "$d/patch.diff" quick > "$d/checks.txt" 2>&1
  echo "$(echo $d | sed 's#/tmp/seedwork/##') $(grep DETECTED-BY $d/checks.txt)"
done
