#!/bin/sh
# Development aid: take in finished round-3 seeds from /tmp/seedwork/Cxx/out/{A,B}: record what the quick checks say at first try,
# then confirm independently (demo both ways + unedited suite).  usage: tools/round3_intake.sh [Cxx ...]
mkdir -p /tmp/seedwork/stage
for d in /tmp/seedwork/C*/out/A /tmp/seedwork/C*/out/B; do
  [ -f "$d/meta.json" ] && [ -f "$d/patch.diff" ] && [ -f "$d/demo.py" ] || continue
  pid=$(echo "$d" | sed 's#/tmp/seedwork/\(C[0-9]*\)/out/.*#\1#'); ab=$(basename "$d")
  [ -n "$1" ] && ! echo " $* " | grep -q " $pid " && continue
  n=5; [ "$ab" = B ] && n=6
  sid="$pid-$n"; st="/tmp/seedwork/stage/$sid"
  [ -d "$st" ] && continue
  mkdir -p "$st"; cp "$d/patch.diff" "$d/demo.py" "$d/meta.json" "$st/"
  /verif/tools/try_seed.sh "$st/patch.diff" quick > "$st/first_try.txt" 2>&1
  echo "$sid $(grep DETECTED-BY "$st/first_try.txt")"
  /verif/tools/confirm_seed.sh "$st" >> /tmp/seedwork/confirm.log 2>&1
  tail -2 /tmp/seedwork/confirm.log
done
