#!/bin/sh
# Development aid: run the quick checks on every seeded change stored under /verif/seeded (4 at a time) and report whether the seed's own property catches it.
ls -d /verif/seeded/C*-* | xargs -P 14 -I{} sh -c 's=$(basename {}); p=${s%%-*}; out=$(/verif/tools/try_seed.sh {}/patch.diff quick 2>&1); d=$(echo "$out" | grep -E "DETECTED-BY|does not apply"); case "$d" in *"$p("*) r=OWN;; *none*) r=MISSED;; *"does not apply"*) r=NOAPPLY;; *) r=NEIGHBOUR;; esac; echo "$s $r $d"' | sort
