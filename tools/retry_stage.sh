#!/bin/sh
# Development aid: re-run the quick checks on every staged/adopted seed (parallel); report whether the seed's own property catches it.
# usage: tools/retry_stage.sh <dir-with-seed-dirs> [seed-id-substr]
root="$1"; sel="$2"
ls -d "$root"/C*-* | grep "$sel" | xargs -P 4 -I{} sh -c 's=$(basename {}); p=${s%%-*}; out=$(/verif/tools/try_seed.sh {}/patch.diff quick 2>&1); d=$(echo "$out" | grep DETECTED-BY); case "$d" in *"$p("*) r=OWN;; *none*) r=MISSED;; *) r=NEIGHBOUR;; esac; echo "$s $r $d"' | sort
