"""
D1 (C09): an idle-only timer (`idle=` set, no `interval=`) that is asked to stop while it waits for
the next change of the object spins synchronously: the wait loop in daemons._timer
(`while memory.idle_reset_time <= started: await aiotime.sleep(handler.idle, wakeup=stopper.async_event)`)
does not look at the stopper, and with the stop event set the sleep returns WITHOUT suspending.
The whole event loop is blocked: `stop_daemons` (object deletion, filter mismatch, pause) and
`stop_daemon` (operator exit) never return. A SIGALRM watchdog shows where the loop is stuck.
Run: /venv/bin/python D01_idle_timer_spin.py   (exits 3 from the watchdog on the defective tree)
"""
import asyncio, logging, signal, sys
import kopf
from kopf._core.engines import daemons
from kopf._core.intents import causes, handlers as H, stoppers
from kopf._cogs.structs import bodies, patches, references, ids
from kopf._cogs.configs import configuration
from kopf._core.engines.indexing import OperatorIndexers

async def fn(**_):
    return None

async def main():
    settings = configuration.OperatorSettings()
    handler = H.TimerHandler(id=ids.HandlerId('t'), fn=fn, param=None, errors=None, timeout=None, retries=None, backoff=None,
        selector=None, labels=None, annotations=None, when=None, field=None, value=None,
        requires_finalizer=True, initial_delay=None, sharp=None, idle=5.0, interval=None)
    body = bodies.Body({'metadata': {'name': 'x', 'namespace': 'ns', 'uid': 'u'}})
    memory = daemons.DaemonsMemory()
    memory.live_fresh_body = body
    memory.idle_reset_time = asyncio.get_running_loop().time() - 100  # idle long ago
    resource = references.Resource('g', 'v1', 'plural')
    cause = causes.SpawningCause(resource=resource, indices=OperatorIndexers().indices, logger=logging.getLogger('x'),
                                 memo=None, body=body, patch=patches.Patch(body=body), reset=False)
    running = {}
    # avoid real API: patch is empty, so patch_and_check does nothing
    await daemons.spawn_daemons(settings=settings, handlers=[handler], daemons=running, cause=cause, memory=memory)
    await asyncio.sleep(0.1)  # let the timer run once and enter the idle-only wait loop
    print("spawned; timer task done?", running['t'].task.done() if 't' in running else 'gone', flush=True)
    # Now stop as if the object is deleted:
    signal.alarm(5)  # watchdog: the event loop is blocked if this fires
    delays = await daemons.stop_daemons(settings=settings, daemons=running)
    print("stop_daemons returned", delays, flush=True)

def on_alarm(*_):
    print("WATCHDOG: event loop blocked for 5s inside stop_daemons (timer spin)", flush=True)
    import faulthandler; faulthandler.dump_traceback()
    sys.exit(3)
signal.signal(signal.SIGALRM, on_alarm)
asyncio.run(main())
