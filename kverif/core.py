"""Check driver: obligations, violations, known findings, evidence, exit codes (DESIGN.md §2.3, §2.4)."""
from __future__ import annotations

import importlib
import json
import os
import re
import sys
import time
import traceback
from dataclasses import dataclass, field
from typing import Any, Callable, Optional

from .srcmodel import AnalysisError, Repo

VERIF_ROOT = os.path.dirname(os.path.dirname(os.path.abspath(__file__)))
EVIDENCE_DIR = os.environ.get('KVERIF_EVIDENCE_DIR') or os.path.join(VERIF_ROOT, 'evidence')
KNOWN_FINDINGS = os.path.join(VERIF_ROOT, 'known_findings.json')

TRUSTED_BASE = [
    'CPython/asyncio semantics: cooperative scheduling (pre-emption only at await/async with/async for/yield); '
    'asyncio.Queue is FIFO and put() on an unbounded queue does not suspend; finally blocks run on cancellation',
    'the Kubernetes API behaves as documented (merge-patch RFC 7386, JSON-patch test op, DELETED carries the last state)',
    'third-party libraries (aiohttp, jsonpatch, iso8601) are correct',
    'user handlers/callbacks are arbitrary but act only through the kwargs they are given',
    'the predicate abstraction treats non-boolean values as opaque; values not declared mutable by a rule are stable '
    'within one activation; a verdict is about the branch structure of the code, not about concrete values',
    'configurable storage locations are evaluated at their declared defaults',
    'subscript reads are total unless the code itself handles KeyError/IndexError; builtin container operations and '
    'logging calls do not raise',
]


@dataclass
class Obligation:
    rule: str
    what: str
    ok: bool
    loc: str = ''
    construct: str = ''
    detail: str = ''
    nontrivial: bool = True
    known: Optional[dict] = None
    origin: str = ''        # property whose rule set produced it, when imported into a related property's thorough tier


class Ctx:
    """One run of one property's rule set."""

    def __init__(self, prop: str, tier: str, repo: Repo):
        self.prop = prop
        self.tier = tier
        self.repo = repo
        self.obligations: list[Obligation] = []
        self.functions: set[str] = set()
        self.counters: dict[str, int] = {}
        self.samples: list[Any] = []
        self.notes: list[str] = []
        self.rules_seen: dict[str, int] = {}

    # -- recording
    def analysed(self, *fns: Any) -> None:
        for f in fns:
            self.functions.add(getattr(f, 'qualname', str(f)))

    def count(self, name: str, n: int = 1) -> None:
        self.counters[name] = self.counters.get(name, 0) + n

    def ob(self, rule: str, what: str, ok: bool, *, loc: str = '', construct: str = '', detail: str = '',
           nontrivial: bool = True) -> bool:
        o = Obligation(rule, what, bool(ok), loc, construct or what, detail, nontrivial)
        self.obligations.append(o)
        self.rules_seen[rule] = self.rules_seen.get(rule, 0) + 1
        return bool(ok)

    def require_sites(self, rule: str, what: str, found: int, minimum: int, loc: str = '') -> None:
        """A rule whose site inventory shrank below the hand-confirmed minimum is a violation of the rule's
        premise inside a resolved scope (the required construct vanished)."""
        self.ob(rule, f'{what}: at least {minimum} site(s) (found {found})', found >= minimum, loc=loc,
                construct=f'sites:{what}', detail=f'found {found}, frozen minimum {minimum}')

    def sample(self, s: Any) -> None:
        if len(self.samples) < 40:
            self.samples.append(s)


def include(ctx: 'Ctx', fn: Callable[['Ctx'], None], rule: str, origin: str) -> None:
    """Run a rule set owned by another property inside this one (quick tier): its obligations are relabelled `rule/<own id>`;
    a finding listed for the owning property stays a known finding here."""
    sub = Ctx(origin, ctx.tier, ctx.repo)
    fn(sub)
    for o in sub.obligations:
        o.origin = origin
        o.rule = f'{rule}/{o.rule}'
        ctx.obligations.append(o)
        ctx.rules_seen[o.rule] = ctx.rules_seen.get(o.rule, 0) + 1
    ctx.functions |= sub.functions
    for k, v in sub.counters.items():
        ctx.counters[k] = ctx.counters.get(k, 0) + v
    ctx.notes.extend(sub.notes)


def load_known() -> list[dict]:
    if not os.path.exists(KNOWN_FINDINGS):
        return []
    with open(KNOWN_FINDINGS) as f:
        return json.load(f).get('findings', [])


def match_known(prop: str, o: Obligation, known: list[dict]) -> Optional[dict]:
    """A failed obligation is a known finding when the list holds an entry for the rule that PRODUCED it (the last segment of a relabelled rule id
    `Cyy/Rn.m/Rk.l` names the rule as its owner numbers it, and its number names the owning property) with the same construct key."""
    last = o.rule.rsplit('/', 1)[-1]
    cands = {(o.origin or prop, o.rule.split('/', 1)[1] if o.origin and '/' in o.rule else o.rule)}
    m = re.fullmatch(r'R(\d+)\.(\d+)', last)
    if m:
        cands.add((f'C{int(m.group(1)):02d}', last))
    for k in known:
        if k.get('status') != 'known' or (k.get('property'), k.get('rule')) not in cands:
            continue
        if k.get('construct') and k['construct'] != o.construct:
            continue
        return k
    return None


# Properties whose mechanisms overlap (same functions, same tables): used by the thorough tier.
RELATED = {
    'C01': ['C07', 'C17', 'C20', 'C19'],
    'C02': ['C11', 'C14', 'C03'],
    'C03': ['C02', 'C08', 'C07', 'C04', 'C19', 'C14'],
    'C04': ['C16', 'C03'],
    'C05': ['C14', 'C02', 'C15'],
    'C06': ['C08', 'C09', 'C05', 'C07', 'C15'],
    'C07': ['C01', 'C08', 'C06'],
    'C08': ['C06', 'C07', 'C03', 'C18'],
    'C09': ['C10', 'C06', 'C20', 'C13'],
    'C10': ['C09', 'C11'],
    'C11': ['C02', 'C10', 'C09', 'C18'],
    'C12': ['C19', 'C17', 'C20'],
    'C13': ['C19', 'C09', 'C20'],
    'C14': ['C05', 'C02'],
    'C15': ['C05', 'C18', 'C06'],
    'C16': ['C04', 'C02'],
    'C17': ['C01', 'C12', 'C20'],
    'C18': ['C15', 'C11', 'C08'],
    'C19': ['C12', 'C13', 'C20', 'C03'],
    'C20': ['C09', 'C13', 'C01', 'C19'],
}


@dataclass
class PropSpec:
    id: str
    title: str
    technique: str
    level_text: str
    level_note: str
    design_ref: str
    explanation: str
    not_decided: str
    check: Callable[[Ctx], None]
    rule_doc: dict = field(default_factory=dict)


def load_prop(pid: str) -> PropSpec:
    mod = importlib.import_module(f'kverif.props.{pid}')
    return mod.SPEC


def run_check(pid: str, tier: str, explain: Optional[str] = None) -> int:
    t0 = time.time()
    seed = int(os.environ.get('VERIF_SEED', '0') or 0)
    os.makedirs(EVIDENCE_DIR, exist_ok=True)
    ev_path = os.path.join(EVIDENCE_DIR, f'{pid}.json')
    vio_path = os.path.join(EVIDENCE_DIR, f'{pid}.violations.json')
    try:
        repo = Repo()
        spec = load_prop(pid)
        ctx = Ctx(pid, tier, repo)
        spec.check(ctx)
        from .props import _hooks
        _hooks.run(ctx, pid)
        imported = []
        if tier == 'thorough':
            # thorough tier: additionally decide the rule sets of the properties that share this property's mechanisms
            # (the same functions/tables serve several properties; a clause "owned" by one is a necessary condition of the others)
            for other in RELATED.get(pid, []):
                sub = Ctx(other, tier, repo)
                load_prop(other).check(sub)
                _hooks.run(sub, other)
                for o in sub.obligations:
                    o.origin = other
                    o.rule = f'{other}/{o.rule}'
                    ctx.obligations.append(o)
                    ctx.rules_seen[o.rule] = ctx.rules_seen.get(o.rule, 0) + 1
                ctx.functions |= sub.functions
                for k, v in sub.counters.items():
                    ctx.counters[k] = ctx.counters.get(k, 0) + v
                imported.append(other)
            if imported:
                ctx.notes.append('thorough tier also decided the rule sets of the related properties ' + ', '.join(imported))
    except AnalysisError as e:
        print(f'ANALYSIS-ERROR property={pid}: {e}')
        _write_error_evidence(pid, tier, seed, str(e), time.time() - t0, ev_path)
        return 2
    except Exception as e:  # a bug in the checker is not a verdict
        print(f'ANALYSIS-ERROR property={pid}: internal error: {type(e).__name__}: {e}')
        traceback.print_exc()
        _write_error_evidence(pid, tier, seed, f'internal error {type(e).__name__}: {e}', time.time() - t0, ev_path)
        return 2

    known = load_known()
    violations: list[Obligation] = []
    known_hits: list[tuple[Obligation, dict]] = []
    for o in ctx.obligations:
        if not o.ok:
            k = match_known(pid, o, known)
            if k is not None:
                o.known = k
                known_hits.append((o, k))
            else:
                violations.append(o)
    if not ctx.obligations:
        print(f'ANALYSIS-ERROR property={pid}: no obligation was generated (vacuous run)')
        _write_error_evidence(pid, tier, seed, 'no obligations generated', time.time() - t0, ev_path)
        return 2

    discharged = sum(1 for o in ctx.obligations if o.ok)
    rules = sorted(ctx.rules_seen)
    print(f'{pid} [{tier}] {spec.title}')
    print(f'  analysed: {len(repo.modules)} modules, {len(ctx.functions)} functions in scope, '
          f'{len(rules)} rule instances, {len(ctx.obligations)} obligations, {discharged} discharged'
          + ''.join(f', {v} {k}' for k, v in sorted(ctx.counters.items())))
    seen_known = set()
    for o, k in known_hits:
        key = (k.get('id'), o.construct)
        if key in seen_known:
            continue
        seen_known.add(key)
        print(f'KNOWN-FINDING: property={pid} {k.get("id", "")} {o.rule} {o.loc} {k.get("what", o.what)}'
              + (f' (listed for {o.origin}, whose rule set the thorough tier of {pid} includes)' if o.origin else ''))
    for k in known:
        if k.get('property') == pid and k.get('status') == 'fixed':
            print(f'  fixed: property={pid} {k.get("commit", "")} {k.get("what", "")}')
    for o in violations:
        print(f'  {o.rule} {o.loc} -- {o.what}' + (f' -- {o.detail}' if o.detail else ''))
        print(f'VIOLATION property={pid} replay={vio_path}')
    with open(vio_path, 'w') as f:
        json.dump({'property': pid, 'tier': tier, 'repo_digest': repo.digest,
                   'violations': [o.__dict__ for o in violations],
                   'known_findings': [dict(o.__dict__) for o, _ in known_hits]}, f, indent=1, default=str)

    nontrivial_rules = {o.rule for o in ctx.obligations if o.nontrivial}
    samples = [{'rule': o.rule, 'obligation': o.what, 'site': o.loc, 'verdict': 'holds' if o.ok else ('known-finding' if o.known else 'VIOLATED'),
                **({'detail': o.detail} if o.detail else {})} for o in ctx.obligations[:60]]
    evidence = {
        'property_id': pid,
        'tier': tier,
        'seed': seed,
        'level': 'other',
        'coverage': {
            'explanation': spec.explanation + (' Supplementary rule sets (rules added after the seeded rounds and the mutation sweep; same engine): '
                                                + _hooks.describe(pid) + '.' if _hooks.describe(pid) else '') + ' NOT decided by this check: ' + spec.not_decided,
            'obligations': len(ctx.obligations),
            'discharged': discharged,
            'evaluations': len(ctx.obligations),
            'distinct_nontrivial': len({(o.rule, o.construct) for o in ctx.obligations if o.nontrivial}),
            'rule': 'one evaluation = one obligation (rule instance x site/path/valuation) generated from the current source; '
                    'distinct = distinct (rule, construct) pairs; non-trivial = the site matched real code and the rule had at least one path/valuation to decide',
            'rule_instances': rules,
            'rule_instances_nontrivial': len(nontrivial_rules),
            'functions_analysed': sorted(ctx.functions),
            'modules_parsed': len(repo.modules),
            'repo_digest': repo.digest,
            'counters': ctx.counters,
            'samples': samples + ctx.samples[:20],
            'known_findings': [f'{k.get("id")}: {k.get("what")}' for _, k in known_hits],
            'exhaustive': True,
            'trusted_base': TRUSTED_BASE,
            'checker_cmd': f'./bin/check {pid} --tier {tier}',
        },
        'assumptions': TRUSTED_BASE + ctx.notes,
        'wall_s': round(time.time() - t0, 3),
        'violations': len(violations),
    }
    with open(ev_path, 'w') as f:
        json.dump(evidence, f, indent=1, default=str)
    if violations:
        return 1
    print(f'  OK ({evidence["wall_s"]} s)')
    return 0


def _write_error_evidence(pid: str, tier: str, seed: int, msg: str, wall: float, ev_path: str) -> None:
    with open(ev_path, 'w') as f:
        json.dump({'property_id': pid, 'tier': tier, 'seed': seed, 'level': 'other',
                   'coverage': {'explanation': 'ANALYSIS-ERROR: no verdict: ' + msg, 'obligations': 0, 'discharged': 0},
                   'assumptions': [], 'wall_s': round(wall, 3), 'violations': 0}, f, indent=1)


def main(argv: Optional[list[str]] = None) -> int:
    import argparse
    ap = argparse.ArgumentParser(prog='check')
    ap.add_argument('prop')
    ap.add_argument('--tier', default=os.environ.get('VERIF_TIER') or 'quick', choices=['quick', 'thorough'])
    ap.add_argument('--explain', default=None)
    a = ap.parse_args(argv)
    if a.explain:
        with open(a.explain) as f:
            data = json.load(f)
        for v in data.get('violations', []):
            print(f"{v['rule']} {v['loc']} -- {v['what']}\n    construct: {v['construct']}\n    {v['detail']}")
        print('re-running the check on the current tree:')
    return run_check(a.prop, a.tier)


if __name__ == '__main__':
    sys.exit(main())
