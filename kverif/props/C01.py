"""C01 -- per-object event processing is serial, ordered and lossless (DESIGN.md §4, R1.1-R1.11)."""
from __future__ import annotations

import ast

from .. import absint
from ..core import Ctx, PropSpec
from ..rules import (origin_src, arg_of, calls_in, cfg_of, cond_implies, construct, dominating_conditions, in_handler_of,
                     is_call_to, kwarg, leaving_targets, loop_nodes, method_call, norm, suspensions_from, table_check,
                     witness)
from ..srcmodel import AnalysisError, dotted, src, walk_no_defs

Q = 'kopf._core.reactor.queueing'


def _streams_param(f) -> str:
    for a in f.params():
        if a.arg == 'streams':
            return a.arg
    raise AnalysisError(f'{f.loc()}: {f.short} has no `streams` parameter')


def _is_streams_del(stmt: ast.AST, streams: str) -> bool:
    return isinstance(stmt, ast.Delete) and any(isinstance(t, ast.Subscript) and dotted(t.value) == streams for t in stmt.targets)


def _main_loop(ctx: Ctx, f, g):
    """The worker's loop: the one containing the dequeue (`<backlog>.get()`)."""
    loops = [n for n in walk_no_defs(f.node) if isinstance(n, ast.While)
             and any(method_call(c, 'get') is not None and isinstance(c, ast.Call) and not c.args for c in calls_in(n))]
    if len(loops) != 1:
        raise AnalysisError(f'{f.loc()}: expected exactly one dequeue loop in {f.short}, found {len(loops)}')
    return loops[0]


def check_worker(ctx: Ctx) -> None:
    repo = ctx.repo
    f, g = cfg_of(ctx, f'{Q}.worker')
    streams = _streams_param(f)
    loop = _main_loop(ctx, f, g)
    inside = loop_nodes(g, loop)
    dels = g.stmt_nodes(lambda x: _is_streams_del(x, streams))
    ctx.require_sites('R1.3', 'worker retires its stream entry (del streams[key])', len(dels), 1, f.loc())
    if not dels:
        return

    # R1.1 ATOMIC: from every edge that leaves the dequeue loop to the deletion of the stream entry: no suspension.
    leaving = leaving_targets(g, inside)
    starts = [b for a, b in leaving]
    susp = suspensions_from(g, starts, dels)
    ctx.count('loop_leaving_edges', len(leaving))
    ctx.ob('R1.1', f'worker: no suspension point between leaving the dequeue loop ({len(leaving)} edges: break, EOS, '
           f'exception, cancellation) and `del {streams}[key]`', not susp, loc=f.loc(dels[0].stmt),
           construct=construct(f, 'atomic:loop-exit->del streams[key]'),
           detail='; '.join(f'suspends at L{n.lineno} `{n.label[:60]}`' for n in susp[:4]))
    # ... and the deletion happens on ALL exits of the worker once the loop was entered (PAIR, owner = worker)
    esc = g.escaping_exits([g.entry], dels)
    ctx.ob('R1.3', 'worker: the stream entry is deleted on every exit (normal, exception, cancellation)', not esc,
           loc=f.loc(), construct=construct(f, 'allexits:del streams[key]'),
           detail='; '.join(f'{e.label} exit reachable via {witness(g, [g.entry], e, dels)}' for e in esc[:2]))

    # R1.2 GUARD + ATOMIC: an idle-timeout retirement only under `backlog.empty()` re-checked after the timeout,
    # with no suspension between that check and leaving the loop.
    gets = [c for c in calls_in(loop) if method_call(c, 'get') is not None and not c.args]
    backlog = dotted(method_call(gets[0], 'get'))
    breaks = [n for n in inside if n.kind == 'break']
    exits_normal = [(a, b) for a, b in leaving if a.kind in ('break',) or (a.kind == 'loop' and a.stmt is loop and b.kind == 'branch')]
    ctx.count('loop_normal_exits', len(exits_normal))

    def is_empty_true(e: ast.AST, o: bool) -> bool:
        r = method_call(e, 'empty')
        return r is not None and dotted(r) == backlog and o is True

    def is_eos(e: ast.AST, o: bool) -> bool:
        if isinstance(e, ast.Call) and dotted(e.func) == 'isinstance' and len(e.args) == 2 and o is True:
            return (repo.resolve(f.module, e.args[1]) or '').endswith('queueing.EOS')
        if isinstance(e, ast.Compare) and len(e.ops) == 1 and isinstance(e.ops[0], (ast.Is, ast.Eq)) and o is True:
            return (repo.resolve(f.module, e.comparators[0]) or '').endswith('queueing.EOS.token')
        return False

    n_idle = 0
    for a, b in exits_normal:
        conds = dominating_conditions(g, a)
        eos = any(cond_implies(t, o, is_eos) for t, o, _ in conds)
        if a.kind == 'loop':
            # leaving through the loop condition: the condition variable must never be set inside the loop
            names = {n.id for n in ast.walk(loop.test) if isinstance(n, ast.Name)}
            stores = [n for s in loop.body for n in walk_no_defs(s) if isinstance(n, ast.Name) and isinstance(n.ctx, ast.Store) and n.id in names]
            ctx.ob('R1.2', f'worker: the loop condition `{src(loop.test)}` is not switched off inside the loop (no third way to retire)',
                   not stores, loc=f.loc(loop), construct=construct(f, 'guard:loop-condition'),
                   detail='; '.join(f'assigned at L{n.lineno}' for n in stores))
            continue
        if eos:
            ctx.ob('R1.2', 'worker: a `break` on the end-of-stream marker', True, loc=f.loc(a.stmt), construct=construct(f, 'guard:break-on-EOS'))
            continue
        n_idle += 1
        guarded = [bn for t, o, bn in conds if cond_implies(t, o, is_empty_true)]
        after_timeout = [bn for bn in guarded if in_handler_of(bn, 'TimeoutError')]
        ctx.ob('R1.2', f'worker: retiring `break` is taken only under `{backlog}.empty()` re-checked after the timeout was caught',
               bool(after_timeout), loc=f.loc(a.stmt), construct=construct(f, 'guard:idle-break'),
               detail='' if after_timeout else 'no dominating `empty()` test inside the TimeoutError handler')
        if after_timeout:
            check = max(after_timeout, key=lambda n: n.id)
            susp2 = suspensions_from(g, [check], [a])
            ctx.ob('R1.1', 'worker: no suspension point between the emptiness re-check and the retiring `break`', not susp2,
                   loc=f.loc(a.stmt), construct=construct(f, 'atomic:empty-check->break'),
                   detail='; '.join(f'suspends at L{n.lineno}' for n in susp2))
    ctx.require_sites('R1.2', 'worker: idle retirement path', n_idle, 1, f.loc(loop))

    # R1.6 single consumer; R1.7 processor awaited inline
    proc_param = 'processor'
    proc_calls = [c for c in calls_in(f.node) if isinstance(c.func, ast.Name) and c.func.id == proc_param]
    ctx.require_sites('R1.7', 'worker: processor invocation', len(proc_calls), 1, f.loc())
    for c in proc_calls:
        parent = f.module.parent.get(c)
        awaited = isinstance(parent, ast.Await)
        in_loop = any(c in list(ast.walk(s)) for s in loop.body)
        ctx.ob('R1.7', 'worker: the processor is awaited directly inside the dequeue loop (never spawned as a task)',
               awaited and in_loop, loc=f.loc(c), construct=construct(f, 'confine:await processor'),
               detail='' if awaited else f'used as `{norm(parent)}`')
    leaked = [n for n in walk_no_defs(f.node) if isinstance(n, ast.Name) and n.id == proc_param and isinstance(n.ctx, ast.Load)
              and not (isinstance(f.module.parent.get(n), ast.Call) and f.module.parent.get(n).func is n)]
    ctx.ob('R1.7', 'worker: the processor callable is not handed to anything else (task factory, gather, scheduler)', not leaked,
           loc=f.loc(leaked[0]) if leaked else f.loc(), construct=construct(f, 'confine:processor-escape'),
           detail='; '.join(f'L{n.lineno}: {norm(repo.stmt_of(f.module, n), 60)}' for n in leaked[:3]))

    # R1.11 TABLE: one iteration of the loop
    def eff(it, p, call, names):
        if isinstance(call.func, ast.Name) and call.func.id == proc_param:
            return 'process'
        if method_call(call, 'get') is not None and dotted(method_call(call, 'get')) == backlog and not call.args:
            return 'get'
        return None
    cfg = absint.Config(effect=eff, raising={'asyncio.wait_for': ['asyncio.TimeoutError'], 'wait_for': ['asyncio.TimeoutError']})
    paths = absint.analyse(repo, f, cfg, stmts=loop.body, env={backlog: absint.sym(backlog)} if backlog and '.' not in backlog else None)
    dequeued_var = None
    for n in walk_no_defs(loop):
        if isinstance(n, ast.Assign) and len(n.targets) == 1 and isinstance(n.targets[0], ast.Name) and any(c is gets[0] for c in calls_in(n.value)):
            dequeued_var = n.targets[0].id
    atoms = {'TIMEOUT': r'^raised:', 'EMPTY': rf'truthy\({re_escape(backlog)}\.empty\(\)\)', 'EOS': r'isinstance\(.*EOS\)|eq\(.*EOS\.token'}

    def observe(p):
        timed_out = any(e.label.startswith('raised:') for e in p.trace)
        procs = [e for e in p.effects('process')]
        ev_ok = True
        for e in procs:
            a = e.kw.get('raw_event')
            gots = [g for g in p.effects('get')]
            ev_ok = ev_ok and a is not None and bool(gots) and dequeued_var is not None and a.key == p.env.get(dequeued_var, absint.sym('?')).key
        return ('timeout' if timed_out else 'event', len(procs), p.status, ev_ok)

    bad = []
    n_paths = 0
    for p in paths:
        n_paths += 1
        kind, nproc, status, ev_ok = observe(p)
        eos = p.atom(atoms['EOS'])
        if kind == 'timeout':
            empty = p.atom(atoms['EMPTY'])
            exp_status = 'break' if empty else 'continue'
            ok = nproc == 0 and status in (exp_status,) and empty is not None
        elif eos is True:
            ok = nproc == 0 and status == 'break'
        elif eos is False:
            ok = nproc == 1 and status in ('run', 'continue') and ev_ok
        else:
            ok = False
        if status == 'raise':
            ok = False
        if not ok:
            bad.append((p, kind, nproc, status))
    ctx.count('paths', n_paths)
    ctx.ob('R1.11', f'worker: one loop iteration ({n_paths} feasible paths): timeout => no processing, retire iff empty; '
           'EOS => break; any other event => the processor is awaited exactly once with the dequeued event',
           not bad and n_paths >= 3, loc=f.loc(loop), construct=construct(f, 'table:iteration'),
           detail='; '.join(f'[{k}] processor x{n}, status {s}: {p.describe()[:160]}' for p, k, n, s in bad[:3]))
    ctx.sample({'rule': 'R1.11', 'paths': [p.describe()[:200] for p in paths[:6]]})


def re_escape(s: str) -> str:
    import re
    return re.escape(s or '')


def check_watcher(ctx: Ctx) -> None:
    repo = ctx.repo
    f, g = cfg_of(ctx, f'{Q}.watcher')
    wf = repo.fn(f'{Q}.worker')

    # R1.3 CONFINE: writers of the streams mapping across the module
    ins_sites = []
    del_sites = []
    for fn in repo.functions_in(Q):
        for n in walk_no_defs(fn.node):
            if isinstance(n, ast.Assign):
                for t in n.targets:
                    if isinstance(t, ast.Subscript) and dotted(t.value) == 'streams':
                        ins_sites.append((fn, n))
            elif isinstance(n, ast.Delete):
                for t in n.targets:
                    if isinstance(t, ast.Subscript) and dotted(t.value) == 'streams':
                        del_sites.append((fn, n))
            elif isinstance(n, ast.Call) and isinstance(n.func, ast.Attribute) and dotted(n.func.value) == 'streams' \
                    and n.func.attr in ('pop', 'popitem', 'clear', 'update', 'setdefault', '__setitem__', '__delitem__'):
                (del_sites if n.func.attr in ('pop', 'popitem', 'clear', '__delitem__') else ins_sites).append((fn, n))
    ctx.ob('R1.3', 'streams mapping: exactly one insertion site, in watcher', len(ins_sites) == 1 and ins_sites[0][0] is f,
           loc=ins_sites[0][0].loc(ins_sites[0][1]) if ins_sites else f.loc(), construct=f'{Q}:confine:streams-insert',
           detail=', '.join(f'{fn.short}:L{n.lineno}' for fn, n in ins_sites))
    ctx.ob('R1.3', 'streams mapping: exactly one deletion site, in worker', len(del_sites) == 1 and del_sites[0][0] is wf,
           loc=del_sites[0][0].loc(del_sites[0][1]) if del_sites else f.loc(), construct=f'{Q}:confine:streams-delete',
           detail=', '.join(f'{fn.short}:L{n.lineno}' for fn, n in del_sites))

    # R1.4 DOM: the worker is spawned only after a failed lookup (KeyError arm) and after the insertion
    spawn_nodes = g.stmt_nodes(lambda x: isinstance(x, ast.Call) and is_call_to(repo, f, x, f'{Q}.worker'))
    ctx.require_sites('R1.4', 'watcher: worker creation', len(spawn_nodes), 1, f.loc())
    ins_nodes = g.stmt_nodes(lambda x: isinstance(x, ast.Assign) and any(isinstance(t, ast.Subscript) and dotted(t.value) == 'streams' for t in x.targets))
    for sn in spawn_nodes:
        in_keyerror = in_handler_of(sn, 'KeyError')
        ctx.ob('R1.4', 'watcher: a worker is created only in the KeyError arm of the stream lookup (no entry => no worker yet)',
               in_keyerror, loc=f.loc(sn.stmt), construct=construct(f, 'dom:spawn-in-KeyError-arm'))
        nd = g.dominated([sn], ins_nodes)
        ctx.ob('R1.4', 'watcher: the worker creation is dominated by the insertion of its stream entry', not nd and bool(ins_nodes),
               loc=f.loc(sn.stmt), construct=construct(f, 'dom:insert-before-spawn'))
        # the worker gets the same mapping and key
        call = [c for c in calls_in(sn.stmt) if is_call_to(repo, f, c, f'{Q}.worker')][0]
        ok = dotted(kwarg(call, 'streams')) == 'streams' and kwarg(call, 'key') is not None
        ctx.ob('R1.4', 'watcher: the worker receives the shared mapping and the key of the entry just inserted', ok,
               loc=f.loc(call), construct=construct(f, 'config:worker(streams=, key=)'))
        # spawned through the scheduler (limit + escalation), awaited there
        via = [c for c in calls_in(sn.stmt) if method_call(c, 'spawn') is not None and is_call_to(repo, f, c, 'aiotasks.Scheduler.spawn')]
        ctx.ob('R1.9', 'watcher: workers are spawned through the limited scheduler', bool(via), loc=f.loc(sn.stmt),
               construct=construct(f, 'config:scheduler.spawn(worker)'))
    # the KeyError arm belongs to a try whose body looks the key up in streams
    for sn in spawn_nodes:
        for fr in sn.frames:
            if fr.kind == 'try-rest' and getattr(fr, 'handler_classes', None) and any(c.endswith('KeyError') for c in fr.handler_classes):
                body_lookup = any(isinstance(x, ast.Subscript) and dotted(x.value) == 'streams' and isinstance(x.ctx, ast.Load)
                                  for s in fr.stmt.body for x in walk_no_defs(s))
                ctx.ob('R1.4', 'watcher: the KeyError arm guards a lookup in the streams mapping', body_lookup, loc=f.loc(fr.stmt),
                       construct=construct(f, 'dom:lookup-try'))

    # R1.5 CONFIG: unbounded FIFO queue
    for n in ins_nodes:
        qs = [c for c in calls_in(n.stmt) if (repo.resolve(f.module, c.func) or '').startswith('asyncio.') and 'Queue' in (repo.resolve(f.module, c.func) or '')]
        for c in qs:
            r = repo.resolve(f.module, c.func)
            ctx.ob('R1.5', 'watcher: the backlog is a FIFO asyncio.Queue constructed without maxsize (put() cannot suspend or drop)',
                   r == 'asyncio.Queue' and not c.args and not c.keywords, loc=f.loc(c), construct=construct(f, 'config:asyncio.Queue()'),
                   detail=norm(c))
        ctx.require_sites('R1.5', 'watcher: backlog queue construction', len(qs), 1, f.loc(n.stmt))

    # R1.6 CONFINE: producers/consumers of a backlog
    puts, gets = [], []
    for fn in repo.all_functions():
        for c in calls_in(fn.node):
            r = method_call(c, 'put') or method_call(c, 'put_nowait')
            if r is not None and origin_src(fn, r).endswith('backlog'):
                puts.append((fn, c))
            r = method_call(c, 'get') or method_call(c, 'get_nowait')
            if r is not None and origin_src(fn, r).endswith('backlog') and not c.args:
                gets.append((fn, c))
    dep = repo.fn(f'{Q}._wait_for_depletion')
    ok_p = all(fn in (f, dep) for fn, _ in puts)
    ctx.ob('R1.6', f'backlog producers: only watcher (stream order) and _wait_for_depletion (EOS) ({len(puts)} sites)', ok_p and len(puts) >= 3,
           loc=f.loc(), construct=f'{Q}:confine:backlog.put', detail=', '.join(f'{fn.short}:L{c.lineno}' for fn, c in puts))
    ctx.ob('R1.6', f'backlog consumer: only worker ({len(gets)} site)', len(gets) == 1 and gets[0][0] is wf, loc=wf.loc(),
           construct=f'{Q}:confine:backlog.get', detail=', '.join(f'{fn.short}:L{c.lineno}' for fn, c in gets))
    for fn, c in puts:
        if fn is f:
            ok = isinstance(f.module.parent.get(c), ast.Await) and len(c.args) == 1 and isinstance(c.args[0], ast.Name)
            ctx.ob('R1.6', 'watcher: put() is awaited and puts the event variable itself', ok, loc=f.loc(c), construct=construct(f, 'flow:put(raw_event)'))

    # R1.8 ORDER + ALLEXITS: depletion before closing the scheduler, both on all exits of the stream loop
    dep_nodes = g.stmt_nodes(lambda x: isinstance(x, ast.Call) and is_call_to(repo, f, x, f'{Q}._wait_for_depletion'))
    close_nodes = g.stmt_nodes(lambda x: isinstance(x, ast.Call) and is_call_to(repo, f, x, 'aiotasks.Scheduler.close'))
    ctx.require_sites('R1.8', 'watcher: depletion call', len(dep_nodes), 1, f.loc())
    ctx.require_sites('R1.8', 'watcher: scheduler close call', len(close_nodes), 1, f.loc())
    stream_loops = [n for n in g.nodes if n.kind == 'loop' and isinstance(n.stmt, ast.AsyncFor)]
    esc = g.escaping_exits(stream_loops, dep_nodes, classes=('normal', 'exc', 'cancel'))
    ctx.ob('R1.8', 'watcher: every exit after the stream loop was entered passes the depletion (EOS to every stream)', not esc,
           loc=f.loc(), construct=construct(f, 'allexits:depletion'),
           detail='; '.join(f'{e.label} via {witness(g, stream_loops, e, dep_nodes)}' for e in esc[:2]))
    nd = g.dominated(close_nodes, dep_nodes)
    ctx.ob('R1.8', 'watcher: closing the scheduler (cancels workers) is dominated by the depletion', not nd, loc=f.loc(),
           construct=construct(f, 'order:depletion<close'))
    # the depletion is waited for before the scheduler is closed: a loop on `not <task>.done()` between the two
    for dn in dep_nodes:
        tgt = dn.stmt.targets[0].id if isinstance(dn.stmt, ast.Assign) and isinstance(dn.stmt.targets[0], ast.Name) else None
        waited = [n for n in g.nodes if n.kind == 'branch' and n.cond and n.cond[1] is False and isinstance(n.stmt, ast.While)
                  and any(method_call(c, 'done') is not None and dotted(method_call(c, 'done')) == tgt for c in calls_in(n.cond[0]))]
        later_close = [c for c in close_nodes if c in g.reach([dn])]
        okw = bool(tgt) and all(not g.dominated([c], waited) or c not in g.reach([dn]) for c in later_close) and bool(waited)
        # dominated relative to dn: every path dn -> close passes a "done()" exit branch
        bad = []
        for c in later_close:
            r = g.reach([dn], stop=lambda n: n in set(waited))
            if c in r:
                bad.append(c)
        ctx.ob('R1.8', 'watcher: the depletion task is waited to completion (double-cancel-proof loop) before the scheduler is closed',
               bool(tgt) and bool(waited) and not bad, loc=f.loc(dn.stmt), construct=construct(f, 'order:depletion-awaited<close'))

    # R1.10 TABLE: one iteration of the stream loop
    loops = [n for n in walk_no_defs(f.node) if isinstance(n, ast.AsyncFor)]
    if len(loops) != 1:
        raise AnalysisError(f'{f.loc()}: expected one `async for` over the watch stream in watcher')
    loop = loops[0]
    var = loop.target.id if isinstance(loop.target, ast.Name) else None

    def eff(it, p, call, names):
        r = method_call(call, 'put')
        if r is not None and src(r).endswith('backlog'):
            return 'put'
        if is_call_to(repo, f, call, f'{Q}.worker'):
            return 'worker'
        return None
    cfg = absint.Config(effect=eff, raising={})
    # the lookup may fail: model both outcomes of the `try` by declaring the subscripted lookup as raising KeyError
    paths = _watcher_iteration_paths(ctx, f, loop, cfg)
    bad = []
    rows = set()
    for p in paths:
        bm1 = absint.entails(repo, f, p, 'isinstance(item(stream), kopf._cogs.clients.watching.Bookmark)')
        bm2 = p.atom(r"eq\(.*'BOOKMARK'\)")
        nput = [e for e in p.effects('put')]
        nworker = len(p.effects('worker'))
        skip = (bm1 is True) or (bm2 is True)
        missing = '@KeyError' in p.notes
        ok = True
        if skip:
            ok = not nput and nworker == 0 and p.status in ('continue',)
        else:
            ok = len(nput) == 1 and all(e.kw.get('#0') is not None and e.kw['#0'].key == p.env.get('@item', absint.sym('?')).key for e in nput) \
                and nworker == (1 if missing else 0) and p.status in ('run', 'continue')
        rows.add((skip, missing))
        if not ok:
            bad.append(p)
    ctx.count('paths', len(paths))
    ctx.ob('R1.10', f'watcher: one stream iteration ({len(paths)} feasible paths): only the two bookmark kinds are skipped; every other '
           'event is put exactly once, unchanged, into its stream; a worker is created iff the stream did not exist',
           not bad and len(rows) >= 3, loc=f.loc(loop), construct=construct(f, 'table:iteration'),
           detail='; '.join(p.describe()[:200] for p in bad[:3]))
    ctx.sample({'rule': 'R1.10', 'paths': [p.describe()[:200] for p in paths[:6]]})


def _watcher_iteration_paths(ctx: Ctx, f, loop: ast.AsyncFor, cfg: absint.Config):
    """Run the loop body twice: with the stream lookup succeeding and failing (KeyError)."""
    repo = ctx.repo
    out = []
    item = absint.sym('item(stream)')
    for missing in (False, True):
        it = absint.Interp(repo, f, cfg)
        orig_try = it.try_

        def try_(s, p, _missing=missing, _orig=orig_try, _it=it):
            handles_key = any(h.type is not None and (repo.resolve(f.module, h.type) or '') == 'KeyError' for h in s.handlers)
            lookup = any(isinstance(x, ast.Subscript) and dotted(x.value) == 'streams' for st in s.body for x in walk_no_defs(st))
            if handles_key and lookup:
                if _missing:
                    # the first lookup raises before any effect of the body
                    q = p
                    q.notes.append('@KeyError')
                    h = [h for h in s.handlers if (repo.resolve(f.module, h.type) or '') == 'KeyError'][0]
                    res = _it.run_block(h.body, [q])
                    return res
                return _it.run_block(s.body, [p])
            return _orig(s, p)
        it.try_ = try_  # type: ignore[method-assign]
        p0 = absint.Path()
        for a in f.params():
            p0.env[a.arg] = absint.sym(a.arg)
        if isinstance(loop.target, ast.Name):
            p0.env[loop.target.id] = item
        p0.env['@item'] = item
        out.extend(it.run_block(loop.body, [p0]))
    return out


def check_scheduler(ctx: Ctx) -> None:
    repo = ctx.repo
    f, g = cfg_of(ctx, f'{Q}.watcher')
    # R1.9 CONFIG: Scheduler(limit=settings.queueing.worker_limit, exception_handler=...)
    ctor = [c for c in calls_in(f.node) if is_call_to(repo, f, c, 'aiotasks.Scheduler')]
    ctx.require_sites('R1.9', 'watcher: scheduler construction', len(ctor), 1, f.loc())
    for c in ctor:
        lim = kwarg(c, 'limit')
        ctx.ob('R1.9', 'watcher: the scheduler is limited by settings.queueing.worker_limit', lim is not None and (dotted(lim) or '').endswith('queueing.worker_limit'),
               loc=f.loc(c), construct=construct(f, 'config:Scheduler(limit=)'), detail=norm(lim))
        ctx.ob('R1.9', 'watcher: the scheduler escalates worker failures (exception_handler=)', kwarg(c, 'exception_handler') is not None,
               loc=f.loc(c), construct=construct(f, 'config:Scheduler(exception_handler=)'))
    sp, sg = cfg_of(ctx, 'aiotasks.Scheduler._task_spawner')
    creates = sg.stmt_nodes(lambda x: isinstance(x, ast.Call) and (repo.resolve(sp.module, x.func) or '') == 'asyncio.create_task')
    ctx.require_sites('R1.9', 'scheduler: task creation site', len(creates), 1, sp.loc())

    def can_spawn(e: ast.AST, o: bool) -> bool:
        return method_call(e, '_can_spawn') is not None and o is True
    for cn in creates:
        from ..rules import holds_at
        ctx.ob('R1.9', 'scheduler: a task is created only under _can_spawn() (limit respected)', holds_at(sg, cn, can_spawn),
               loc=sp.loc(cn.stmt), construct=construct(sp, 'guard:create_task under _can_spawn'))
    cs = repo.fn('aiotasks.Scheduler._can_spawn')
    ctx.analysed(cs)
    txt = [n for n in walk_no_defs(cs.node) if isinstance(n, ast.Compare) and len(n.ops) == 1 and isinstance(n.ops[0], ast.Lt)
           and 'len' in src(n.left) and '_running_tasks' in src(n.left) and (dotted(n.comparators[0]) or '').endswith('_limit')]
    ctx.ob('R1.9', 'scheduler: _can_spawn compares the number of running tasks strictly below the limit', bool(txt), loc=cs.loc(),
           construct=construct(cs, 'formula:len(running) < limit'))
    spawn = repo.fn('aiotasks.Scheduler.spawn')
    ctx.analysed(spawn)
    queued = [c for c in calls_in(spawn.node) if (method_call(c, 'put') or method_call(c, 'put_nowait')) is not None
              and (dotted(method_call(c, 'put') or method_call(c, 'put_nowait')) or '').endswith('_pending_coros')]
    ctx.ob('R1.9', 'scheduler: spawn() queues the coroutine (pending coroutines wait for capacity, never dropped)', bool(queued), loc=spawn.loc(),
           construct=construct(spawn, 'flow:pending put'))
    pend = [c for f2 in repo.functions_in('aiotasks') for c in calls_in(f2.node)
            if (method_call(c, 'get_nowait') or method_call(c, 'get')) is not None
            and (dotted(method_call(c, 'get_nowait') or method_call(c, 'get')) or '').endswith('_pending_coros')]
    ctx.ob('R1.9', 'scheduler: pending coroutines are consumed only by the spawner', len(pend) == 1, loc=sp.loc(),
           construct='aiotasks:confine:_pending_coros.get')

    # _wait_for_depletion: EOS to every stream
    d, dg = cfg_of(ctx, f'{Q}._wait_for_depletion')
    loops = [n for n in walk_no_defs(d.node) if isinstance(n, ast.For) and 'streams' in src(n.iter)]
    ok = False
    for lp in loops:
        for c in calls_in(lp):
            if method_call(c, 'put') is not None and c.args and (repo.resolve(d.module, c.args[0]) or '').endswith('EOS.token'):
                ok = not any(isinstance(x, (ast.If, ast.Break, ast.Continue)) for s in lp.body for x in walk_no_defs(s))
    ctx.ob('R1.8', '_wait_for_depletion: the end-of-stream marker is put into every stream, unconditionally', ok, loc=d.loc(),
           construct=construct(d, 'flow:EOS to all'))


def check(ctx: Ctx) -> None:
    check_worker(ctx)
    check_watcher(ctx)
    check_scheduler(ctx)


SPEC = PropSpec(
    id='C01',
    title='Per-object event processing is serial, ordered and lossless',
    technique='static analysis: statement CFG with cancellation/exception edges (ATOMIC, ALLEXITS, DOM, ORDER), who-may-write/call '
              '(CONFINE), constructor facts (CONFIG), path-enumerated decision tables of the two stream loops (TABLE)',
    level_text='Static analysis of the current source: decides, on all CFG paths of queueing.worker/watcher and aiotasks.Scheduler, the structural '
               'clauses R1.1-R1.11 (no suspension between a worker\'s decision to retire and the removal of its stream entry; retirement only '
               'after an emptiness re-check; one insertion/deletion site; one consumer, ordered producers, unbounded FIFO queue; processor '
               'awaited inline; depletion before scheduler close on all exits; per-iteration tables: nothing but bookmarks skipped, every event '
               'processed exactly once). These are necessary conditions of the behaviour; the behaviour over histories is NOT decided.',
    level_note='asyncio is cooperative (interleaving only at suspension points); asyncio.Queue FIFO/unbounded put does not suspend; '
               'subscript reads total unless handled; see DESIGN.md §3',
    design_ref='DESIGN.md §4 C01',
    explanation='Rule kinds ATOMIC/ALLEXITS/DOM/ORDER on the statement CFG (with cancellation edges out of every suspension point), CONFINE over the '
                'package, CONFIG on constructor calls, TABLE by path enumeration of one loop iteration of worker and watcher.',
    not_decided='ordering/no-duplication as a statement about histories (follows only with the asyncio trusted base); fairness beyond the worker limit; timing.',
    check=check,
)
