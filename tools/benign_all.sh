#!/bin/sh
# Development aid: run the quick checks (4 at a time) on every delivered behaviour-preserving refactoring; print the ones that raise an alarm.
ls -d /tmp/seedwork/B*/out/R* | xargs -P 12 -I{} sh -c 'out=$(/verif/tools/try_seed.sh {}/patch.diff quick 2>&1); echo "$(echo {} | sed "s#/tmp/seedwork/##") $(echo "$out" | grep DETECTED-BY)"' | sort
