"""Shared by C09/C10/C06: the stop flag (aioenums.FlagSetter) and the runner's exit bookkeeping.

R9.8  FlagSetter.set keeps the FIRST time the flag was raised (the age that stages the termination is counted from it), accumulates
      reasons, and raises both events on every path.
R9.9  _runner: the "exited on its own" test `stopper.reason is None` is evaluated before the runner itself sets the stopper.
"""
from __future__ import annotations

import ast

from .. import absint
from ..core import Ctx
from ..rules import calls_in, cfg_of, cond_implies, construct, method_call
from ..srcmodel import dotted, src, walk_no_defs


def check_flag_setter(ctx: Ctx, rule: str = 'R9.8') -> None:
    repo = ctx.repo
    f = repo.fn('aioenums.FlagSetter.set')
    ctx.analysed(f)

    def eff(it, p, call, names):
        r = method_call(call, 'set')
        if r is not None and src(r) in ('self.sync_event', 'self.async_event'):
            return 'raise:' + src(r).split('.')[-1]
        return None
    paths = absint.analyse(repo, f, absint.Config(effect=eff))
    bad = []
    rows = set()
    for p in paths:
        had_when = p.atom(r'^isnone\(self\.when\)$')
        when = p.env.get('self.when')
        if had_when is False:
            ok = when is None or when.key == 'self.when'
            if not ok:
                bad.append(f'a flag that was already raised gets a new timestamp: when := {when.key[:60]}')
        elif had_when is True:
            ok = when is not None and '.time()' in when.key
            if not ok:
                bad.append(f'a flag raised for the first time gets no timestamp: when := {when.key[:60] if when else None}')
        else:
            bad.append('the timestamp is written without consulting whether the flag was raised before')
        rows.add(had_when)
        evs = sorted(p.labels('raise:'))
        if evs != ['raise:async_event', 'raise:sync_event']:
            bad.append(f'not both events are raised on a path: {evs}')
        # reasons accumulate: an existing reason is never dropped
        old_none = p.atom(r'^isnone\(self\.reason\)$')
        new = p.env.get('self.reason')
        if old_none is False and new is not None and 'self.reason' not in new.key:
            bad.append(f'an earlier stopping reason is lost: reason := {new.key[:60]}')
    ctx.count('paths', len(paths))
    ctx.ob(rule, f'FlagSetter.set ({len(paths)} paths): the time of the FIRST raise is kept (the stage of a termination is decided by the age of the flag), '
           'earlier reasons are kept, both the sync and the async event are raised', not bad and rows == {True, False}, loc=f.loc(),
           construct=construct(f, 'table:set-once timestamp'), detail=' | '.join(dict.fromkeys(bad)))
    # the staged termination reads that timestamp
    sd = repo.fn('daemons.stop_daemons')
    ctx.analysed(sd)
    reads = [n for n in walk_no_defs(sd.node) if isinstance(n, ast.Attribute) and n.attr == 'when' and 'stopper' in src(n.value)]
    ctx.ob(rule, 'stop_daemons: the age that selects the stage is counted from the stop flag\'s timestamp', bool(reads), loc=sd.loc(),
           construct=construct(sd, 'flow:age from stopper.when'))


def check_runner_exit_order(ctx: Ctx, rule: str = 'R9.9') -> None:
    repo = ctx.repo
    f, g = cfg_of(ctx, 'daemons._runner')
    tests = [n for n in g.nodes if n.kind == 'if' and any(
        isinstance(c, ast.Compare) and isinstance(c.left, ast.Attribute) and c.left.attr == 'reason' and 'stopper' in src(c.left.value)
        and isinstance(c.comparators[0], ast.Constant) and c.comparators[0].value is None for c in ast.walk(n.stmt.test))]
    sets = [n for n in g.nodes if n.kind == 'stmt' and any(
        method_call(c, 'set') is not None and 'stopper' in src(method_call(c, 'set')) for c in calls_in(n.stmt))]
    ctx.require_sites(rule, '_runner: `stopper.reason is None` test', len(tests), 1, f.loc())
    ctx.require_sites(rule, '_runner: final stopper.set(DONE)', len(sets), 1, f.loc())
    bad = [(s, t) for s in sets for t in tests if t in g.reach([s])]
    ctx.ob(rule, '_runner: the runner never sets the stopper before it tested whether the daemon "exited on its own" (reason is None) -- else no '
           'self-exited daemon/timer is ever recorded in forever_stopped and it is respawned on the next event', not bad,
           loc=f.loc(bad[0][0].stmt) if bad else f.loc(), construct=construct(f, 'order:reason-test<stopper.set'),
           detail='; '.join(f'stopper.set at L{s.lineno} reaches the test at L{t.lineno}' for s, t in bad[:2]))
    # and the daemons/timers themselves do not raise the flag
    for ref in ('daemons._daemon', 'daemons._timer'):
        d = repo.fn(ref)
        ctx.analysed(d)
        s2 = [c for c in calls_in(d.node) if method_call(c, 'set') is not None and 'stopper' in src(method_call(c, 'set'))]
        ctx.ob(rule, f'{d.short} never raises the stop flag itself', not s2, loc=d.loc(), construct=construct(d, 'confine:no stopper.set'))


def check_timer_start_sample(ctx: Ctx, rule: str = 'R10.5') -> None:
    """The start time used by the sharp grid and by the idle-only wait is sampled after the idle gate, immediately before the run."""
    repo = ctx.repo
    f, g = cfg_of(ctx, 'daemons._timer')
    execs = g.call_nodes('execution.execute_handlers_once')
    ctx.require_sites(rule, '_timer: handler execution', len(execs), 1, f.loc())
    # the variable subtracted from the clock in the sharp computation / compared with idle_reset_time
    names = set()
    for n in walk_no_defs(f.node):
        if isinstance(n, ast.BinOp) and isinstance(n.op, ast.Sub) and isinstance(n.right, ast.Name) and isinstance(n.left, ast.Call):
            names.add(n.right.id)
        if isinstance(n, ast.Compare) and len(n.ops) == 1 and isinstance(n.comparators[0], ast.Name) and 'idle_reset_time' in src(n.left):
            names.add(n.comparators[0].id)
    samples = [n for n in g.nodes if n.kind == 'stmt' and isinstance(n.stmt, (ast.Assign, ast.AnnAssign)) and isinstance(n.stmt.value, ast.Call)
               and any(isinstance(t, ast.Name) and t.id in names for t in (n.stmt.targets if isinstance(n.stmt, ast.Assign) else [n.stmt.target]))]
    ctx.require_sites(rule, '_timer: start-time sample', len(samples), 1, f.loc())
    und = g.dominated(execs, samples)
    susp = g.suspensions_between(samples, execs)
    ctx.ob(rule, '_timer: the start time (origin of the sharp grid, reference of the idle-only wait) is sampled on every path to the run and no '
           'suspension point (idle gate, sleep) lies between the sample and the run', not und and not susp and bool(samples), loc=f.loc(samples[0].stmt) if samples else f.loc(),
           construct=construct(f, 'atomic:start-sample->run'), detail='; '.join(f'suspends at L{n.lineno} `{n.label[:50]}`' for n in susp[:3]))


# Loops that iterate a live view across a suspension point and are nevertheless safe, with the reason (confirmed by reading).
ITER_EXEMPT = {
    ('kopf._core.reactor.queueing._wait_for_depletion', 'streams.values()'):
        'the only await in the body is put() on an unbounded queue, which does not suspend (premise R1.5)',
    ('kopf._cogs.structs.credentials.Vault.close', 'self._current'):
        'runs under self._guard, the lock every mutation of _current takes',
    ('kopf._cogs.structs.credentials.Vault._flush_caches', 'item.caches.values()'):
        'the item was already removed from the vault or the vault is closing under its guard; caches are written only at item creation',
}


def check_iteration_snapshots(ctx: Ctx, rule: str, modules: tuple = ()) -> None:
    """No suspension point inside a loop that iterates a LIVE view of a container other tasks mutate: at the await another task runs
    (a daemon's runner deletes its registry entry, a worker forgets a memory) and the iteration raises `dictionary changed size`.
    Safe idioms: iterate a snapshot (list()/tuple()/sorted()/.copy()), a locally built collection, or a generator call."""
    repo = ctx.repo
    n_loops = 0
    for f in repo.all_functions():
        if not f.is_async or (modules and f.module.short not in modules):
            continue
        params = {a.arg for a in f.params()}
        for lp in walk_no_defs(f.node):
            if not isinstance(lp, ast.For):
                continue
            susp = [x for s in lp.body for x in walk_no_defs(s) if isinstance(x, (ast.Await, ast.AsyncWith, ast.AsyncFor))]
            if not susp:
                continue
            it = lp.iter
            view = it.func.value if (isinstance(it, ast.Call) and isinstance(it.func, ast.Attribute) and it.func.attr in ('values', 'items', 'keys') and not it.args) else \
                it if isinstance(it, (ast.Name, ast.Attribute)) else None
            if view is None:
                continue            # a call: a snapshot constructor, a generator, range(), itertools...
            root = (dotted(view) or '').split('.')[0]
            shared = root in params or root == 'self'
            if not shared:
                # a local: shared only if it aliases something shared (bound from an attribute/parameter, not from a call/display)
                from ..rules import origin
                o = origin(f, ast.Name(id=root, ctx=ast.Load()))
                shared = isinstance(o, (ast.Attribute, ast.Subscript)) or (isinstance(o, ast.Name) and o.id in params)
            if not shared:
                continue
            n_loops += 1
            key = (f.qualname, src(it, 60))
            reason = ITER_EXEMPT.get(key)
            if reason and 'put()' in reason:
                # the premise of this exemption is checked, not assumed: every await in the body awaits a queue put()
                only_put = all(isinstance(x, ast.Await) and isinstance(x.value, ast.Call) and isinstance(x.value.func, ast.Attribute)
                               and x.value.func.attr == 'put' for x in susp)
                if not only_put:
                    reason = None
            ctx.ob(rule, f'{f.short}: the loop over `{src(it, 50)}` (a live view of a shared container) has no suspension point in its body -- or iterates a '
                   'snapshot' + (f' [exempt: {reason}]' if reason else ''), reason is not None, loc=f.loc(lp),
                   construct=construct(f, f'atomic-iter:{src(it, 50)}'),
                   detail='' if reason else f'awaits at L{susp[0].lineno} while iterating the live view: another task may add/remove entries there')
    ctx.count('live_view_loops_with_awaits', n_loops)
    # the daemon registries are mutated by the runners (del daemons[id]) and by forget(): every loop over them that awaits uses a snapshot
    dk = repo.fn('daemons.daemon_killer')
    ctx.analysed(dk)
    loops = [lp for lp in walk_no_defs(dk.node) if isinstance(lp, ast.For) and ('running_daemons' in src(lp.iter) or 'iter_all_daemon_memories' in src(lp.iter))]
    ctx.require_sites(rule, 'daemon_killer: loops over the daemon registries', len(loops), 4, dk.loc())
    for lp in loops:
        snap = isinstance(lp.iter, ast.Call) and dotted(lp.iter.func) in ('list', 'tuple', 'sorted')
        ctx.ob(rule, f'daemon_killer: `{src(lp.iter, 60)}` is a snapshot (the stoppers it schedules make daemons remove themselves from the registry meanwhile)',
               snap, loc=dk.loc(lp), construct=construct(dk, f'atomic-iter:{src(lp.iter, 60).replace("list(", "").rstrip(")")}'))
