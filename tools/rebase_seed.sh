#!/bin/sh
# Development aid: re-create a seeded patch against the current /repo HEAD (after a fix: commit touched its context).
# usage: tools/rebase_seed.sh <dir with patch.diff>   (rewrites patch.diff in place, keeps patch.orig.diff)
d="$(cd "$1" && pwd)"
wt="$(mktemp -d /tmp/rebase-XXXXXX)"; rmdir "$wt"
git -C /repo worktree add --detach "$wt" HEAD >/dev/null 2>&1 || exit 2
cd "$wt" || exit 2
if git apply --3way "$d/patch.diff" >/dev/null 2>&1 && [ -z "$(git diff --name-only --diff-filter=U)" ]; then
  cp "$d/patch.diff" "$d/patch.orig.diff"
  git diff HEAD -- kopf > "$d/patch.diff"
  echo "rebased $(basename "$d")"
else
  echo "CONFLICT $(basename "$d")"
fi
cd /; git -C /repo worktree remove --force "$wt"
