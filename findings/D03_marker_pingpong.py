"""
D3 (C04): two Kopf-based operators whose storage prefixes both start with "kopf." (but are not
kopf.zalando.org or a sub-domain of it) ping-pong forever: `_store_marker` skips the
`<prefix>/kopf-managed` marker for every prefix starting with "kopf.", while the reader
(`_detect_marked_prefixes`) recognises only kopf.zalando.org, its sub-domains, and marked
prefixes. Each operator therefore sees the other's last-handled-configuration annotation as an
essential change, re-handles, and stores a diff-base that embeds the other's -- exponentially.

The loop below is the framework's own change detection (`diffbase.fetch/build`,
`progress.clear`, `diffs.diff`) and its own write at the end of a handling cycle
(`diffbase.store`), applied with an RFC 7386 merge. Nothing else touches the object.
Run: /venv/bin/python D03_marker_pingpong.py
"""
import copy
from kopf._cogs.configs import progress, diffbase
from kopf._cogs.structs import bodies, patches, diffs

def merge(doc, patch):
    for k, v in patch.items():
        if v is None: doc.pop(k, None)
        elif isinstance(v, dict): doc[k] = merge(doc.get(k) if isinstance(doc.get(k), dict) else {}, v)
        else: doc[k] = v
    return doc

class Operator:
    def __init__(self, prefix):
        self.ps = progress.AnnotationsProgressStorage(prefix=prefix)
        self.ds = diffbase.AnnotationsDiffBaseStorage(prefix=prefix)
    def cycle(self, raw):
        """One handling cycle as in processing._detect_causes + process_changing_cause (no user handlers)."""
        body = bodies.Body(raw)
        old = self.ds.fetch(body=body); new = self.ds.build(body=body)
        old = self.ps.clear(essence=old) if old is not None else None
        new = self.ps.clear(essence=new)
        if old is not None and not diffs.diff(old, new):
            return False                      # NOOP: nothing essential changed
        patch = patches.Patch()
        self.ds.store(body=body, patch=patch, essence=new)   # "handled": remember the last-handled state
        merge(raw, copy.deepcopy(dict(patch)))
        return True

for pa, pb in [('kopf.a.com', 'kopf.b.com'), ('a.example.com', 'b.example.com'), ('kopf.a.com', 'kopf.zalando.org')]:
    A, B = Operator(pa), Operator(pb)
    raw = {'metadata': {'name': 'x'}, 'spec': {'f': 1}}
    rounds = 0; changed = True
    while changed and rounds < 8:
        changed = A.cycle(raw) | B.cycle(raw); rounds += 1
    size = sum(len(v) for v in raw['metadata']['annotations'].values())
    print(f'{pa:16s} + {pb:18s}: {"STILL CHANGING" if changed else "quiescent"} after {rounds} rounds; annotations = {size} bytes')
