"""C14 -- resume handlers run once per object per operator process (DESIGN.md §4, R14.1-R14.4)."""
from __future__ import annotations

import ast
import re
from typing import Optional

from .. import absint
from ..core import Ctx, PropSpec
from ..rules import (attribute_writes, calls_in, cfg_of, cond_implies, construct, dominating_conditions, is_call_to, kwarg, method_call, norm,
                     origin, table_check)
from ..srcmodel import AnalysisError, dotted, src, walk_no_defs
from .C02 import PROC, check_cycle_closing, param, table3

INV = 'kopf._core.reactor.inventory'
CAUSES = 'kopf._core.intents.causes'
MEM = f'{INV}.ResourceMemory'
MEMS = f'{INV}.ResourceMemories'
FLAGS = ('noticed_by_listing', 'fully_handled_once')


# ====================================================================== R14.1 monotone flags
def check_flags(ctx: Ctx, rule: str = 'R14.1') -> None:
    repo = ctx.repo
    mem = repo.cls(MEM)
    for fl in FLAGS:
        d = mem.field_defaults.get(fl)
        ctx.ob(rule, f'ResourceMemory.{fl} starts as False', isinstance(d, ast.Constant) and d.value is False, loc=mem.module.relpath(),
               construct=f'{MEM}:default:{fl}', detail=norm(d))
    # fully_handled_once: written only with True, only where the cycle closes
    w = attribute_writes(repo, 'fully_handled_once')
    ctx.require_sites(rule, 'assignments to fully_handled_once', len(w), 1)
    pcc = repo.fn(f'{PROC}.process_changing_cause')
    for f, tgt, val in w:
        ctx.ob(rule, f'{f.short}: fully_handled_once is only ever set to True (never reset within a process)',
               isinstance(val, ast.Constant) and val.value is True, loc=f.loc(tgt), construct=construct(f, 'mono:fully_handled_once:=True'), detail=norm(val))
        ctx.ob(rule, f'{f.short}: fully_handled_once is set only by process_changing_cause (where the closing of a cycle is decided)', f is pcc,
               loc=f.loc(tgt), construct=construct(f, 'mono:fully_handled_once:site'))
    check_cycle_closing(ctx, rule_order=None, rule_guard=rule, flag_only=True)

    # noticed_by_listing: never assigned, only given to the constructor when the memory is created
    w = attribute_writes(repo, 'noticed_by_listing')
    ctx.ob(rule, 'noticed_by_listing is never assigned after the memory was created', not w, loc=w[0][0].loc(w[0][1]) if w else '',
           construct='mono:noticed_by_listing:no-assignment', detail='; '.join(f'{f.short}: {norm(repo.stmt_of(f.module, t))}' for f, t, _ in w[:3]))
    # no back door: setattr / dataclasses.replace / constructor keyword for the second flag
    doors = []
    ctors = []
    for f in repo.all_functions():
        for c in calls_in(f.node):
            r = repo.resolve(f.module, c.func) or ''
            if r == 'setattr' and len(c.args) >= 2 and isinstance(c.args[1], ast.Constant) and c.args[1].value in FLAGS:
                doors.append((f, c))
            elif r == 'dataclasses.replace' and any(k.arg in FLAGS for k in c.keywords):
                doors.append((f, c))
            elif r == MEM:
                ctors.append((f, c))
                if kwarg(c, 'fully_handled_once') is not None or any(k.arg is None for k in c.keywords) or len(c.args) > 5:
                    doors.append((f, c))
    ctx.ob(rule, 'the two flags are not written through setattr / dataclasses.replace / constructor tricks', not doors,
           loc=doors[0][0].loc(doors[0][1]) if doors else '', construct='mono:flags:no-back-door',
           detail='; '.join(f'{f.short}: {norm(c, 80)}' for f, c in doors[:3]))
    rc = repo.fn(f'{MEMS}.recall')
    ctx.require_sites(rule, 'constructions of ResourceMemory', len(ctors), 2)
    for f, c in ctors:
        ctx.ob(rule, f'{f.short}: a ResourceMemory is constructed only by ResourceMemories.recall', f is rc, loc=f.loc(c),
               construct=construct(f, 'confine:ResourceMemory()'))
    _check_recall(ctx, rule, rc)
    _check_forget(ctx, rule)
    _check_event_entry(ctx, rule)


def _items_subscript(e: ast.AST) -> bool:
    return isinstance(e, ast.Subscript) and dotted(e.value) == 'self._items'


def _check_recall(ctx: Ctx, rule: str, f) -> None:
    repo = ctx.repo
    ctx.analysed(f)
    nbl = param(f, 'noticed_by_listing')

    def eff(it, p, call, names):
        return 'new' if MEM in names else None
    paths = absint.analyse(repo, f, absint.Config(effect=eff))
    known = r'^in\(.*, self\._items\)$'

    def observe(p):
        news = p.effects('new')
        remembered = [e for e in p.trace if e.label == 'setitem:self._items']
        if p.status != 'return' or p.retval is None:
            return (p.status,)
        if not news:
            same = bool(re.match(r'^self\._items\[.*\]$', p.retval.key))
            return ('existing' if same else f'returns {p.retval.key[:40]}', 'remembered' if remembered else '-')
        flag = news[-1].kw.get(nbl)
        what = 'new(noticed_by_listing=param)' if len(news) == 1 and flag is not None and flag.key == nbl and p.retval.key == news[-1].key else \
            f'new x{len(news)} noticed_by_listing={flag.key if flag is not None else None}'
        ok_store = len(remembered) == 1 and remembered[0].kw['value'].key == news[-1].key
        return (what, 'remembered' if ok_store else '-' if not remembered else 'remembered something else')

    def spec(v):
        if v['KNOWN']:
            return ('existing', '-')
        return ('new(noticed_by_listing=param)', '-' if v['EPH'] else 'remembered')
    table3(ctx, rule, f, paths, {'KNOWN': known, 'EPH': r'^truthy\(ephemeral\)$'}, spec, observe, tag='table:recall',
           what='ResourceMemories.recall: a known key returns the remembered memory untouched (its flags survive re-listings and reconnects); '
                'only an unknown key creates a memory, with noticed_by_listing as given, remembered unless ephemeral')


def _check_forget(ctx: Ctx, rule: str) -> None:
    repo = ctx.repo
    fg = repo.fn(f'{MEMS}.forget')
    init = repo.fn(f'{MEMS}.__init__')
    rc = repo.fn(f'{MEMS}.recall')
    drops, sets = [], []
    for f in repo.all_functions():
        for n in walk_no_defs(f.node):
            if isinstance(n, ast.Delete):
                drops += [(f, n) for t in n.targets if isinstance(t, ast.Subscript) and (dotted(t.value) or '').endswith('._items')]
            elif isinstance(n, ast.Call) and isinstance(n.func, ast.Attribute) and (dotted(n.func.value) or '').endswith('._items') \
                    and n.func.attr in ('pop', 'popitem', 'clear', 'update', 'setdefault', '__delitem__', '__setitem__'):
                (drops if n.func.attr in ('pop', 'popitem', 'clear', '__delitem__') else sets).append((f, n))
            elif isinstance(n, (ast.Assign, ast.AugAssign, ast.AnnAssign)):
                tgts = n.targets if isinstance(n, ast.Assign) else [n.target]
                for t in tgts:
                    if isinstance(t, ast.Attribute) and t.attr == '_items' and f.cls is not None and f.cls.qualname == MEMS and f is not init:
                        drops.append((f, n))
                    if isinstance(t, ast.Subscript) and (dotted(t.value) or '').endswith('._items') and f.cls is not None and f.cls.qualname == MEMS:
                        sets.append((f, n))
    ctx.require_sites(rule, 'removals from the memories', len(drops), 1)
    for f, n in drops:
        ctx.ob(rule, f'{f.short}: a memory is dropped only by ResourceMemories.forget', f is fg, loc=f.loc(n), construct=construct(f, 'confine:del _items[key]'),
               detail=norm(n, 80))
    for f, n in sets:
        ctx.ob(rule, f'{f.short}: a memory is (re)placed only by ResourceMemories.recall', f is rc, loc=f.loc(n), construct=construct(f, 'confine:_items[key]=...'),
               detail=norm(n, 80))
    sites = repo.call_sites_of(f'{MEMS}.forget', exact=True)
    ctx.require_sites(rule, 'callers of ResourceMemories.forget', len(sites), 1)
    pre = repo.fn(f'{PROC}.process_resource_event')
    for f, c in sites:
        ctx.ob(rule, f'{f.short}: forget() is called only by process_resource_event', f is pre, loc=f.loc(c), construct=construct(f, 'confine:forget()'))


def _check_event_entry(ctx: Ctx, rule: str) -> None:
    """process_resource_event: recall(noticed_by_listing = the event has no type, i.e. comes from the listing); forget only for DELETED."""
    repo = ctx.repo
    f = repo.fn(f'{PROC}.process_resource_event')
    ctx.analysed(f)
    raw_event = param(f, 'raw_event')
    body = absint._body(f)
    cut = next((i for i, s in enumerate(body) if isinstance(s, (ast.With, ast.AsyncWith))), len(body))
    labels = {f'{MEMS}.recall': 'recall', f'{MEMS}.forget': 'forget'}

    def eff(it, p, call, names):
        for q, lab in labels.items():
            if q in names:
                return lab
        return None
    paths = absint.analyse(repo, f, absint.Config(effect=eff), stmts=body[:cut])
    later = [c for s in body[cut:] for c in ast.walk(s) if isinstance(c, ast.Call) and is_call_to(repo, f, c, *labels)]
    ctx.ob(rule, 'process_resource_event: the memory is recalled/forgotten once, at the entry (before the throttled block)', not later,
           loc=f.loc(later[0]) if later else f.loc(), construct=construct(f, 'confine:recall/forget at entry'))
    listing = f"({raw_event}['type'] Is None)"
    bad_r, bad_f, n_r, n_f = [], [], 0, 0
    for p in paths:
        rs, fs = p.effects('recall'), p.effects('forget')
        n_r += len(rs)
        n_f += len(fs)
        for e in rs:
            v = e.kw.get('noticed_by_listing')
            typeless = p.atom(rf"^isnone\({re.escape(raw_event)}\['type'\]\)$")
            named = v is not None and v.kind in ('bool', 'const') and typeless is not None and v.data is typeless   # the test was named into a local
            if len(rs) != 1 or v is None or not (v.key == listing or named):
                bad_r.append(v.key if v is not None else 'omitted')
        if fs:
            deleted = p.atom(rf"^eq\({re.escape(raw_event)}\['type'\], 'DELETED'\)$")
            same_obj = all(e.kw.get('#0') is not None and rs and e.kw['#0'].key == rs[0].kw.get('#0', absint.sym('?')).key for e in fs)
            if deleted is not True or not same_obj:
                bad_f.append(p.describe()[:160])
    ctx.count('paths', len(paths))
    ctx.ob(rule, 'process_resource_event: a memory is marked noticed_by_listing exactly when the event has no type (it comes from the initial listing, '
           'not from the watch-stream)', n_r > 0 and not bad_r, loc=f.loc(), construct=construct(f, 'flow:noticed_by_listing=type is None'),
           detail='; '.join(sorted(set(bad_r))[:2]))
    ctx.ob(rule, 'process_resource_event: the memory (and its flags) is forgotten only for a DELETED event of that same object', n_f > 0 and not bad_f,
           loc=f.loc(), construct=construct(f, 'guard:forget under DELETED'), detail='; '.join(bad_f[:2]))
    recalls = repo.call_sites_of(f'{MEMS}.recall', exact=True)
    ctx.require_sites(rule, 'callers of ResourceMemories.recall', len(recalls), 2)
    for ff, c in recalls:
        if ff is f:
            continue
        v = kwarg(c, 'noticed_by_listing')
        ctx.ob(rule, f'{ff.short}: other users of recall() never claim that the object was noticed by the listing', v is None, loc=ff.loc(c),
               construct=construct(ff, 'config:recall(noticed_by_listing omitted)'), detail=norm(v))


# ====================================================================== R14.2 initial = noticed and not yet handled
def check_initial_flow(ctx: Ctx, rule: str = 'R14.2') -> None:
    repo = ctx.repo
    f = repo.fn(f'{PROC}._detect_causes')
    ctx.analysed(f)
    memory = param(f, 'memory')
    calls = [c for c in calls_in(f.node) if is_call_to(repo, f, c, f'{CAUSES}.detect_changing_cause')]
    ctx.require_sites(rule, '_detect_causes: detection of the changing cause', len(calls), 1, f.loc())
    for c in calls:
        v = kwarg(c, 'initial')
        if v is None:
            ctx.ob(rule, '_detect_causes passes `initial=` to detect_changing_cause', False, loc=f.loc(c), construct=construct(f, 'flow:initial'))
            continue
        v = origin(f, v)
        it = absint.Interp(repo, f, absint.Config())
        p0 = absint.Path()
        for a in f.params():
            p0.env[a.arg] = absint.sym(a.arg)
        paths = []
        for q, b in it.truth(v, p0):
            q.notes.append(b)
            paths.append(q)
        table3(ctx, rule, f, paths, {'N': rf'^truthy\({memory}\.noticed_by_listing\)$', 'F': rf'^truthy\({memory}\.fully_handled_once\)$'},
               lambda val: val['N'] and not val['F'], lambda p: p.notes[-1], tag='formula:initial',
               what='_detect_causes: initial == memory.noticed_by_listing and not memory.fully_handled_once (of the memory it was given)')
    # the memory that is read here is the one recalled for this object, and the one whose flag is set when the cycle closes
    pre = repo.fn(f'{PROC}.process_resource_event')
    prc = repo.fn(f'{PROC}.process_resource_causes')
    ctx.analysed(pre, prc)
    hops = [(pre, f'{PROC}.process_resource_causes', 'recalled'), (prc, f'{PROC}._detect_causes', 'param'), (prc, f'{PROC}.process_changing_cause', 'param')]
    for g, callee, how in hops:
        sites = [c for c in calls_in(g.node) if is_call_to(repo, g, c, callee)]
        ctx.require_sites(rule, f'{g.name}: call of {callee.rsplit(".", 1)[-1]}', len(sites), 1, g.loc())
        for c in sites:
            m = kwarg(c, 'memory')
            if how == 'param':
                ok = m is not None and dotted(m) == param(g, 'memory')
            else:
                o = origin(g, m) if m is not None else None
                o = o.value if isinstance(o, ast.Await) else o
                ok = isinstance(o, ast.Call) and is_call_to(repo, g, o, f'{MEMS}.recall')
            ctx.ob(rule, f'{g.name} hands the per-object memory (the one recalled for this event) on to {callee.rsplit(".", 1)[-1]}', ok, loc=g.loc(c),
                   construct=construct(g, f'flow:memory->{callee.rsplit(".", 1)[-1]}'), detail=norm(m))


# ====================================================================== R14.3 = R5.1 / R5.2 (the resume-relevant tables)
def check_tables(ctx: Ctx, rule: str = 'R14.3') -> None:
    repo = ctx.repo
    f = repo.fn(f'{CAUSES}.detect_changing_cause')
    ctx.analysed(f)

    def eff(it, p, call, names):
        return 'cause' if f'{CAUSES}.ChangingCause' in names else None
    paths = absint.analyse(repo, f, absint.Config(effect=eff))
    atoms = {
        'D': r"^eq\(raw_event\['type'\], 'DELETED'\)$",
        'M': r'^truthy\(.*is_deletion_ongoing\(',
        'F': r'^truthy\(.*is_deletion_blocked\(',
        'O': r'^isnone\(old\)$',
        'E': (r'^truthy\(diff\)$', 'truthy(diff)'),
        'I': r'^truthy\(initial\)$',
    }

    def spec(v):
        if v['D']:
            return ('GONE', 'initial')
        if v['M']:
            return ('DELETE' if v['F'] else 'FREE', 'initial')
        if v['O']:
            return ('CREATE', 'False')
        if not v['E']:
            return ('RESUME' if v['I'] else 'NOOP', 'initial')
        return ('UPDATE', 'initial')

    def observe(p):
        cs = p.effects('cause')
        if len(cs) != 1 or p.status != 'return' or p.retval is None or p.retval.key != cs[0].key:
            return ('#causes', len(cs), p.status)
        r, i = cs[0].kw.get('reason'), cs[0].kw.get('initial')
        return (r.key.rsplit('.', 1)[-1] if r is not None else None, i.key if i is not None else None)
    table_check(ctx, rule, f, paths, atoms, spec, observe,
                what='detect_changing_cause: a creation never carries initial=True; RESUME is detected only for an unchanged, existing, not-deleting object '
                     'with initial=True; every other cause passes `initial` through (resume handlers are mixed in)')

    g = repo.fn('registries.ChangingRegistry.iter_handlers')
    ctx.analysed(g)
    loops = [n for n in walk_no_defs(g.node) if isinstance(n, ast.For)]
    if len(loops) != 1:
        raise AnalysisError(f'{g.loc()}: expected one loop over the handlers in {g.short}')
    hv = loops[0].target.id if isinstance(loops[0].target, ast.Name) else 'handler'
    paths = absint.analyse(repo, g, absint.Config(), stmts=loops[0].body, env={hv: absint.sym('handler')})
    atoms = {
        'HI': r'^truthy\(handler\.initial\)$', 'CI': r'^truthy\(cause\.initial\)$', 'CD': r'^truthy\(cause\.deleted\)$', 'HD': r'^truthy\(handler\.deleted\)$',
        'X': r'^in\(handler\.id, excluded\)$', 'RN': r'^isnone\(handler\.reason\)$', 'RE': r'^eq\((cause\.reason, handler\.reason|handler\.reason, cause\.reason)\)$',
        'MT': r'^truthy\(.*registries\.match\(',
    }

    def sel(v):
        return 1 if ((not v['X']) and (v['RN'] or v['RE']) and not (v['HI'] and not v['CI']) and not (v['HI'] and v['CD'] and not v['HD']) and v['MT']) else 0
    table_check(ctx, rule, g, paths, atoms, sel, lambda p: len(p.effects('yield')),
                what='ChangingRegistry.iter_handlers: an initial (resume) handler is selected only for an initial cause, and not for an object being deleted '
                     'unless it opted in (deleted=True); otherwise the usual selection rule')


# ====================================================================== R14.4 the memory key
def check_key(ctx: Ctx, rule: str = 'R14.4') -> None:
    repo = ctx.repo
    f = repo.fn(f'{MEMS}._build_key')
    ctx.analysed(f)
    body_param = [a.arg for a in f.params()][1] if len(f.params()) > 1 else None
    if body_param is None:
        raise AnalysisError(f'{f.loc()}: _build_key has no body parameter')
    paths = absint.analyse(repo, f, absint.Config())
    keys = {p.retval.key if p.retval is not None else p.status for p in paths}
    uid = re.compile(rf"^{re.escape(body_param)}(\.get\('metadata'(, \{{\}})?\)|\['metadata'\])(\.get\('uid'(, [^)]*)?\)|\['uid'\])$")
    others = {k for k in keys if not uid.match(k) and k not in ("''", 'None')}
    ctx.ob(rule, 'ResourceMemories._build_key: the memory key is the uid of the object (metadata.uid) and nothing else -- the same for listing and '
           'watch events, different for a re-created namesake', any(uid.match(k) for k in keys) and not others, loc=f.loc(),
           construct=construct(f, 'config:key=metadata.uid'), detail='; '.join(sorted(keys))[:200])
    local_names = {n.id for st in absint._body(f) for n in walk_no_defs(st) if isinstance(n, ast.Name) and isinstance(n.ctx, ast.Store)}
    reads_other = [n for st in absint._body(f) for n in walk_no_defs(st) if isinstance(n, ast.Name) and isinstance(n.ctx, ast.Load)
                   and n.id not in {body_param, 'str'} | local_names]
    ctx.ob(rule, 'ResourceMemories._build_key depends on the raw body only (not on the event type or on state)', not reads_other, loc=f.loc(),
           construct=construct(f, 'config:key-depends-on-body-only'), detail=', '.join(sorted({n.id for n in reads_other})))
    for name in ('recall', 'forget'):
        g = repo.fn(f'{MEMS}.{name}')
        ctx.analysed(g)
        rb = [a.arg for a in g.params()][1]
        uses = [n for n in walk_no_defs(g.node) if _items_subscript(n)]
        uses_k = [n.slice for n in uses] + [n.left for n in walk_no_defs(g.node) if isinstance(n, ast.Compare) and len(n.ops) == 1
                                            and isinstance(n.ops[0], (ast.In, ast.NotIn)) and dotted(n.comparators[0]) == 'self._items']
        ctx.require_sites(rule, f'ResourceMemories.{name}: uses of the memory key', len(uses_k), 2, g.loc())
        bad = []
        for k in uses_k:
            o = origin(g, k)
            if not (isinstance(o, ast.Call) and is_call_to(repo, g, o, f'{MEMS}._build_key') and len(o.args) == 1 and dotted(o.args[0]) == rb):
                bad.append(k)
        ctx.ob(rule, f'ResourceMemories.{name}: every access to the memories uses `_build_key(raw_body)` of the body it was given', not bad,
               loc=g.loc(bad[0]) if bad else g.loc(), construct=construct(g, 'config:key=_build_key(raw_body)'), detail='; '.join(norm(k) for k in bad[:2]))


def check(ctx: Ctx) -> None:
    check_flags(ctx)
    check_initial_flow(ctx)
    check_tables(ctx)
    check_key(ctx)
    # R14.5 (= R2.11): a finished resume handler mixed into a superseding cause keeps its record (it is re-purposed, not purged)
    from . import _extra
    _extra.check_repurpose_all(ctx, 'R14.5')


SPEC = PropSpec(
    id='C14',
    title='Resume handlers run once per object per operator process',
    technique='static analysis: who-may-write the two per-object flags with constant-value facts (MONO/CONFINE), decision tables of recall / the closing '
              'of a cycle / cause detection / handler selection by path enumeration over a predicate abstraction (TABLE), truth table of `initial` and '
              'def-use flow of the memory (FLOW), key derivation facts (CONFIG)',
    level_text='Static analysis of the current source: decides the structural clauses R14.1-R14.4 -- fully_handled_once is only ever set to True, only in '
               'process_changing_cause and exactly when a cycle closes; noticed_by_listing is fixed at creation of the memory (recall returns a known '
               'memory untouched), set from "the event has no type", and memories are dropped only by forget, only for DELETED events; initial == '
               'noticed_by_listing and not fully_handled_once of that same memory; a creation never is initial, RESUME only when initial, initial handlers '
               'only in initial causes and not on deletion unless opted in; the memory key is metadata.uid in recall and forget alike. These are necessary '
               'conditions (monotonicity); that resume handlers are not repeated over reconnect/re-listing histories is NOT decided.',
    level_note='the flags are plain attributes of a dataclass: writes are found syntactically over the whole package (attribute name), including setattr / '
               'dataclasses.replace; branch predicates are opaque atoms; DESIGN.md §3',
    design_ref='DESIGN.md §4 C14',
    explanation='MONO+CONFINE over every write/constructor/removal site of the two flags and of the memories container, TABLE on ResourceMemories.recall and '
                'on the closing decision of process_changing_cause (flag column), FLOW/FORMULA on _detect_causes and the memory hand-over, TABLE on '
                'detect_changing_cause and ChangingRegistry.iter_handlers (the R5.1/R5.2 tables), CONFIG on _build_key.',
    not_decided='repetition over reconnect / re-listing histories (follows from monotonicity only with the asyncio trusted base); observation O1 (a memory first '
                'created by an admission review is never marked noticed_by_listing); the uid being unique and stable is a Kubernetes guarantee.',
    check=check,
)
