"""Rule instances added by the lead after the third round of seeded changes (DESIGN.md §8, round 3), plus the cross-wiring of existing
rule sets into further properties whose statements depend on them.

New rule kinds here:
  CONDVAR   every mutation of the state that a `Condition.wait_for` predicate of the same class reads is followed, on every normal
            path, by an unconditional `notify_all()` of that condition (a conditional notification strands the waiters whose predicate
            became true through the un-notified branch);
  FRESH     a clock sample that enters the arithmetic of a stored deadline is taken with no suspension point between the sampling
            and the use (a sample carried across an await makes the deadline early by the time awaited);
  BOUNDARY  a name-prefix test that separates "<name>/<sub>" entries from other names includes the separator in the prefix.
"""
from __future__ import annotations

import ast
from typing import Iterable, Optional

from ..core import Ctx, include
from ..rules import calls_in, cfg_of, construct, kwarg, method_call, norm
from ..srcmodel import AnalysisError, dotted, src, walk_no_defs

MUTATORS = {'add', 'discard', 'remove', 'difference_update', 'update', 'clear', 'pop', 'append', 'put', 'put_nowait', 'get_nowait',
            'intersection_update', 'symmetric_difference_update', 'setdefault', 'extend', 'insert', 'popitem'}
CONTAINER_DUNDERS = ('__contains__', '__getitem__', '__len__', '__iter__')

# (class, method) pairs that mutate predicate state without notifying, each confirmed by reading; the premise is checked below.
CONDVAR_EXEMPT = {
    ('Scheduler', '_task_done_callback'): 'synchronous done-callback (cannot take the lock): hands the task to the cleaning queue; the cleaner notifies',
    ('Scheduler', '_task_spawner'): 'moves a job from the pending queue to the running set: the only predicate it can satisfy is its own',
}


def _self_attr(e: ast.AST) -> Optional[str]:
    """`self.X` (possibly below subscripts/attributes: self.X[k], self.X.y) -> 'X'."""
    while isinstance(e, (ast.Subscript, ast.Attribute)):
        if isinstance(e, ast.Attribute) and isinstance(e.value, ast.Name) and e.value.id == 'self':
            return e.attr
        e = e.value
    return None


def _reads(cls, node: ast.AST, seen: set, depth: int = 3) -> set[str]:
    """Attributes of self read by an expression/body, following calls to methods (and properties) of the same class."""
    out: set[str] = set()
    bare_self = False
    for n in ast.walk(node):
        if isinstance(n, ast.Attribute) and isinstance(n.value, ast.Name) and n.value.id == 'self':
            m = cls.methods.get(n.attr)
            if m is not None:
                if depth > 0 and n.attr not in seen:
                    seen.add(n.attr)
                    out |= _reads(cls, m.node, seen, depth - 1)
            else:
                out.add(n.attr)
        elif isinstance(n, ast.Name) and n.id == 'self':
            bare_self = True
    # `x in self`, `len(self)`, `self[k]`: the container protocol of the class
    for n in ast.walk(node):
        uses_protocol = (isinstance(n, ast.Compare) and any(isinstance(c, ast.Name) and c.id == 'self' for c in n.comparators)) or \
                        (isinstance(n, ast.Subscript) and isinstance(n.value, ast.Name) and n.value.id == 'self') or \
                        (isinstance(n, ast.Call) and any(isinstance(a, ast.Name) and a.id == 'self' for a in n.args))
        if uses_protocol and bare_self:
            for d in CONTAINER_DUNDERS:
                m = cls.methods.get(d)
                if m is not None and d not in seen:
                    seen.add(d)
                    out |= _reads(cls, m.node, seen, depth - 1)
    return out


def _condvar_class(ctx: Ctx, rule: str, cref: str, minimum_mutations: int) -> None:
    repo = ctx.repo
    cls = repo.cls(cref)
    cname = cls.qualname.rsplit('.', 1)[1]
    # condition attributes: self.X on which both wait_for and notify_all are called inside the class
    waits: dict[str, list[tuple]] = {}
    notifies: set[str] = set()
    for m in cls.methods.values():
        for c in calls_in(m.node):
            r = method_call(c, 'wait_for')
            if r is not None and _self_attr(r) is not None and isinstance(r, ast.Attribute) and isinstance(r.value, ast.Name):
                waits.setdefault(r.attr, []).append((m, c))
            r = method_call(c, 'notify_all')
            if r is not None and isinstance(r, ast.Attribute) and isinstance(r.value, ast.Name) and r.value.id == 'self':
                notifies.add(r.attr)
    conds = sorted(waits)      # a condition that is awaited but never notified fails the per-method obligations below
    if not conds:
        raise AnalysisError(f'{cls.qualname}: no condition variable awaited with wait_for found (rule {rule})')
    total = 0
    for x in conds:
        state: set[str] = set()
        for m, c in waits[x]:
            if not c.args:
                continue
            p = c.args[0]
            body = p.body if isinstance(p, ast.Lambda) else p
            state |= _reads(cls, body, set())
        state -= {x}
        ctx.ob(rule, f'{cname}: the predicates awaited on self.{x} read state of the object (found: {sorted(state)})', bool(state),
               loc=cls.module.relpath() + f':{cls.node.lineno}', construct=f'{cls.qualname}:condvar:{x}:state')
        for mname, m in sorted(cls.methods.items()):
            if mname == '__init__':
                continue
            f, g = cfg_of(ctx, m)

            def is_mut(n: ast.AST) -> bool:
                if isinstance(n, (ast.Assign, ast.AugAssign, ast.AnnAssign)):
                    tg = n.targets if isinstance(n, ast.Assign) else [n.target]
                    return any(_self_attr(t) in state for t in tg)
                if isinstance(n, ast.Delete):
                    return any(_self_attr(t) in state for t in n.targets)
                if isinstance(n, ast.Call) and isinstance(n.func, ast.Attribute) and n.func.attr in MUTATORS:
                    return _self_attr(n.func.value) in state
                return False

            muts = g.stmt_nodes(is_mut)
            if not muts:
                continue
            total += len(muts)
            noti = g.stmt_nodes(lambda n: isinstance(n, ast.Call) and method_call(n, 'notify_all') is not None
                                and _self_attr(method_call(n, 'notify_all')) == x)
            ex = CONDVAR_EXEMPT.get((cname, mname))
            if ex is not None:
                ctx.ob(rule, f'{cname}.{mname}: exempt from notifying self.{x} ({ex})', True, loc=f.loc(), construct=construct(f, f'condvar:{x}:exempt'),
                       nontrivial=False)
                continue
            esc = g.escaping_exits(muts, noti, classes=('normal',))
            ctx.ob(rule, f'{cname}.{mname}: every change of the awaited state ({", ".join(sorted(state))}) is followed on every normal path by an unconditional '
                         f'self.{x}.notify_all() -- a change that is not announced leaves the tasks waiting for it blocked although their condition holds',
                   not esc and bool(noti), loc=f.loc(muts[0].stmt), construct=construct(f, f'condvar:{x}:notify after mutation'),
                   detail='' if (not esc and noti) else ('no notify_all() in the method' if not noti else
                                                         'a normal exit is reachable from ' + norm(muts[0].stmt, 60) + ' without passing notify_all()'))
    ctx.require_sites(rule, f'{cname}: mutations of awaited state', total, minimum_mutations, cls.module.relpath() + f':{cls.node.lineno}')


def check_condvar_toggles(ctx: Ctx, rule: str) -> None:
    _condvar_class(ctx, rule, 'aiotoggles.Toggle', 1)
    _condvar_class(ctx, rule, 'aiotoggles.ToggleSet', 2)


def check_condvar_scheduler(ctx: Ctx, rule: str) -> None:
    _condvar_class(ctx, rule, 'aiotasks.Scheduler', 3)
    # premise of the exemption of the done-callback: it hands the finished task over, and the cleaner announces every task it takes
    repo = ctx.repo
    cb = repo.fn('aiotasks.Scheduler._task_done_callback')
    puts = [c for c in calls_in(cb.node) if method_call(c, 'put_nowait') is not None and _self_attr(method_call(c, 'put_nowait')) == '_cleaning_queue']
    ctx.ob(rule, 'Scheduler._task_done_callback hands every finished task to the cleaning queue (premise of its exemption)', bool(puts), loc=cb.loc(),
           construct=construct(cb, 'condvar:handover to the cleaner'))
    f, g = cfg_of(ctx, 'aiotasks.Scheduler._task_cleaner')
    gets = g.stmt_nodes(lambda n: isinstance(n, ast.Call) and method_call(n, 'get') is not None and _self_attr(method_call(n, 'get')) == '_cleaning_queue')
    noti = g.stmt_nodes(lambda n: isinstance(n, ast.Call) and method_call(n, 'notify_all') is not None)
    ctx.require_sites(rule, 'Scheduler._task_cleaner: take from the cleaning queue', len(gets), 1, f.loc())
    # every normal path from one take to the next passes a notify (the loop is eternal: look for a cycle get -> get avoiding notify)
    r = g.reach(gets, stop=lambda n: n in set(noti))
    ctx.ob(rule, 'Scheduler._task_cleaner: after every finished task the condition is notified before the next one is taken (the spawner refills the pool, '
                 'wait()/close() see the scheduler drain)', bool(noti) and not (set(gets) & r), loc=f.loc(gets[0].stmt) if gets else f.loc(),
           construct=construct(f, 'condvar:notify per cleaned task'))


def check_condvar_backbone(ctx: Ctx, rule: str) -> None:
    _condvar_class(ctx, rule, 'references.Backbone', 1)
    _condvar_class(ctx, rule, 'aiovalues.Container', 2)


# ---------------------------------------------------------------------------------------------------------------- FRESH
def _clock_aliases(f) -> set[str]:
    """Local names bound to a clock *function* (`clock = loop.time`), i.e. an attribute named `time`/`monotonic` that is not called."""
    out = set()
    for n in walk_no_defs(f.node):
        if isinstance(n, ast.Assign) and len(n.targets) == 1 and isinstance(n.targets[0], ast.Name) and isinstance(n.value, ast.Attribute) \
                and n.value.attr in ('time', 'monotonic'):
            out.add(n.targets[0].id)
    return out


def _is_clock_call(e: ast.AST, aliases: set[str]) -> bool:
    if not isinstance(e, ast.Call):
        return False
    if isinstance(e.func, ast.Name) and e.func.id in aliases:
        return True
    return isinstance(e.func, ast.Attribute) and e.func.attr in ('time', 'monotonic')


def check_throttled_fresh_clock(ctx: Ctx, rule: str) -> None:
    """throttlers.throttled: the deadline `active_until` is anchored to the moment of the error and the remaining pause is measured at the moment of the
    sleep: every clock operand in arithmetic with `active_until` is sampled with no suspension point between the sampling and its use."""
    repo = ctx.repo
    f, g = cfg_of(ctx, 'throttlers.throttled')
    aliases = _clock_aliases(f)
    sites = []
    for n in g.nodes:
        if n.kind != 'stmt' or not isinstance(n.stmt, ast.Assign):
            continue
        s = n.stmt
        tgt_is_deadline = any(isinstance(t, ast.Attribute) and t.attr == 'active_until' for t in s.targets)
        uses_deadline = any(isinstance(x, ast.Attribute) and x.attr == 'active_until' for x in ast.walk(s.value))
        if not (tgt_is_deadline or uses_deadline) or not isinstance(s.value, ast.BinOp):
            continue
        sites.append(n)
    ctx.require_sites(rule, 'throttled: arithmetic on the throttling deadline (set on error; remaining time before each sleep)', len(sites), 3, f.loc())
    for n in sites:
        operands = [x for x in ast.walk(n.stmt.value) if isinstance(x, (ast.Call, ast.Name))]
        clockish = []
        stale = []
        for x in operands:
            if _is_clock_call(x, aliases):
                clockish.append(x)
            elif isinstance(x, ast.Name) and x.id not in aliases:
                # a name holding a clock sample: find its definitions
                defs = [d for d in g.nodes if d.kind == 'stmt' and isinstance(d.stmt, ast.Assign) and any(isinstance(t, ast.Name) and t.id == x.id for t in d.stmt.targets)
                        and _is_clock_call(d.stmt.value, aliases)]
                if defs:
                    clockish.append(x)
                    susp = g.suspensions_between(defs, [n])
                    if susp:
                        stale.append((x.id, susp[0].lineno))
        ctx.ob(rule, 'throttled: the clock value combined with `active_until` is sampled at that very point (no await between sampling and use): the pause is '
                     'counted from the error, and an interrupted pause resumes for the time that really remains',
               bool(clockish) and not stale, loc=f.loc(n.stmt), construct=construct(f, 'fresh:clock in deadline arithmetic'),
               detail='; '.join(f'`{v}` is sampled before the suspension point at L{ln}' for v, ln in stale) or ('no clock operand' if not clockish else ''))


# ---------------------------------------------------------------------------------------------------------------- Vault
def check_vault_stores_what_it_tested(ctx: Ctx, rule: str) -> None:
    """Vault._update_converted: the credentials that are stored are the very object that was compared with the invalidated ones (and `invalidate`
    records the stored object), so that credentials once invalidated are recognised when a login handler offers them again."""
    repo = ctx.repo
    f = repo.fn('credentials.Vault._update_converted')
    ctx.analysed(f)
    stores = [c for c in calls_in(f.node) if (repo.resolve(f.module, c.func) or '').endswith('VaultItem')]
    ctx.require_sites(rule, '_update_converted: construction of the stored VaultItem', len(stores), 1, f.loc())
    loops = [n for n in walk_no_defs(f.node) if isinstance(n, ast.For)]
    for c in stores:
        v = kwarg(c, 'info', 0)
        name = v.id if isinstance(v, ast.Name) else None
        # the tested name: operand of a `not in` comparison against the invalid history, dominating syntactically (enclosing if)
        tested = set()
        for n in walk_no_defs(f.node):
            if isinstance(n, ast.If) and any(c is x for x in ast.walk(n)):
                for cmp_ in ast.walk(n.test):
                    if isinstance(cmp_, ast.Compare) and any(isinstance(o, ast.NotIn) for o in cmp_.ops) and '_invalid' in src(cmp_, 400) and isinstance(cmp_.left, ast.Name):
                        tested.add(cmp_.left.id)
        rebinds = [n for n in walk_no_defs(f.node) if isinstance(n, (ast.Assign, ast.AugAssign, ast.AnnAssign, ast.NamedExpr)) and any(
            isinstance(t, ast.Name) and t.id == name for t in (n.targets if isinstance(n, ast.Assign) else [n.target]))]
        loopvar = any(name in {x.id for x in ast.walk(lp.target) if isinstance(x, ast.Name)} for lp in loops)
        ctx.ob(rule, 'Vault._update_converted: the object stored as current credentials is the loop item that was compared with the invalidated history, '
                     'unmodified (invalidated credentials offered again are recognised by equality with what was stored and invalidated)',
               name is not None and name in tested and loopvar and not rebinds, loc=f.loc(c), construct=construct(f, 'flow:stored == tested'),
               detail=f'stored {norm(v, 40)}; tested {sorted(tested)}; rebound at {[getattr(r, "lineno", 0) for r in rebinds]}')


# ---------------------------------------------------------------------------------------------------------------- BOUNDARY
def _ends_with_sep(e: ast.AST, sep: str = '/') -> bool:
    if isinstance(e, ast.Constant) and isinstance(e.value, str):
        return e.value.endswith(sep)
    if isinstance(e, ast.JoinedStr) and e.values:
        return _ends_with_sep(e.values[-1], sep)
    if isinstance(e, ast.BinOp) and isinstance(e.op, ast.Add):
        return _ends_with_sep(e.right, sep)
    return False


def check_subresource_boundary(ctx: Ctx, rule: str) -> None:
    """scanning._read_version: an API entry is a subresource of resource R only if its name is "R/<sub>": the prefix test includes the slash, so that
    `widgetsets/status` is not taken for a status subresource of `widgets` (the status part of a patch would go to a non-existent endpoint and be lost)."""
    repo = ctx.repo
    f = repo.fn('scanning._read_version')
    ctx.analysed(f)
    comps = []
    for c in calls_in(f.node):
        v = kwarg(c, 'subresources')
        if v is not None:
            comps += [x for x in ast.walk(v) if isinstance(x, (ast.GeneratorExp, ast.SetComp, ast.ListComp))]
    ctx.require_sites(rule, '_read_version: computation of `subresources=`', len(comps), 1, f.loc())
    for comp in comps:
        tests = [c for gen in comp.generators for i in gen.ifs for c in calls_in(i) if method_call(c, 'startswith') is not None]
        ok = bool(tests) and all(c.args and _ends_with_sep(c.args[0]) for c in tests)
        ctx.ob(rule, '_read_version: subresources of a resource are the entries named "<resource name>/<sub>" -- the prefix test includes the separator',
               ok, loc=f.loc(comp), construct=construct(f, 'boundary:subresource prefix ends with /'),
               detail='; '.join(norm(c, 80) for c in tests) or 'no startswith() filter')



# ---------------------------------------------------------------------------------------------------------------- gaps found by the mutation sweep
def check_record_field_mapping(ctx: Ctx, rule: str) -> None:
    """HandlerState.for_storage / from_storage: each key of the persisted record is computed from the field of the same name, and each field is
    restored from the key of the same name (the key *sets* agree by R2.5; a crossed pair -- `failure` restored from 'success' -- passes that rule and
    turns a recorded success into a permanent failure, or resets the attempts)."""
    repo = ctx.repo
    fs = repo.fn('progression.HandlerState.for_storage')
    fr = repo.fn('progression.HandlerState.from_storage')
    ctx.analysed(fs, fr)
    recs = [c for c in calls_in(fs.node) if (repo.resolve(fs.module, c.func) or '').endswith('ProgressRecord')]
    ctx.require_sites(rule, 'for_storage: construction of the ProgressRecord', len(recs), 1, fs.loc())
    n = 0
    for c in recs:
        for kw in c.keywords:
            if kw.arg is None:
                continue
            attrs = {x.attr for x in ast.walk(kw.value) if isinstance(x, ast.Attribute) and isinstance(x.value, ast.Name) and x.value.id == 'self'}
            n += 1
            ctx.ob(rule, f'for_storage: record key `{kw.arg}` is computed from self.{kw.arg} and from no other field', attrs == {kw.arg}, loc=fs.loc(kw.value),
                   construct=construct(fs, f'keys:for_storage:{kw.arg}'), detail=f'reads {sorted(attrs)}')
            # a None field is stored as None, any other value is stored (not the reverse): `None if <absent test> else <conversion of the field>`
            v = kw.value
            if isinstance(v, ast.IfExp):
                none_branch_is_body = isinstance(v.body, ast.Constant) and v.body.value is None
                t = v.test
                absent = (isinstance(t, ast.Compare) and len(t.ops) == 1 and isinstance(t.ops[0], ast.Is) and isinstance(t.comparators[0], ast.Constant)
                          and t.comparators[0].value is None) or (isinstance(t, ast.UnaryOp) and isinstance(t.op, ast.Not))
                present = (isinstance(t, ast.Compare) and len(t.ops) == 1 and isinstance(t.ops[0], ast.IsNot)) or \
                          (isinstance(t, ast.Attribute))
                none_branch_is_else = isinstance(v.orelse, ast.Constant) and v.orelse.value is None
                ok = (none_branch_is_body and absent) or (none_branch_is_else and present)
                ctx.ob(rule, f'for_storage: `{kw.arg}` is stored as None exactly when the field is absent, and converted otherwise', ok, loc=fs.loc(v),
                       construct=construct(fs, f'formula:for_storage:{kw.arg}:None iff absent'), detail=norm(v, 80))
    ctx.require_sites(rule, 'for_storage: record keys', n, 9, fs.loc())
    ctors = [c for c in calls_in(fr.node) if isinstance(c.func, ast.Name) and c.func.id == 'cls']
    ctx.require_sites(rule, 'from_storage: construction of the HandlerState', len(ctors), 1, fr.loc())
    dparam = fr.params()[1].arg if len(fr.params()) > 1 else None
    m = 0
    for c in ctors:
        for kw in c.keywords:
            if kw.arg is None or kw.arg in ('active', 'basetime', '_origin'):
                continue
            keys = set()
            for x in ast.walk(kw.value):
                if isinstance(x, ast.Call) and method_call(x, 'get') is not None and dotted(method_call(x, 'get')) == dparam and x.args and isinstance(x.args[0], ast.Constant):
                    keys.add(x.args[0].value)
                if isinstance(x, ast.Subscript) and dotted(x.value) == dparam and isinstance(x.slice, ast.Constant):
                    keys.add(x.slice.value)
            m += 1
            ctx.ob(rule, f'from_storage: field `{kw.arg}` is restored from the record key \'{kw.arg}\' and from no other key', keys == {kw.arg}, loc=fr.loc(kw.value),
                   construct=construct(fr, f'keys:from_storage:{kw.arg}'), detail=f'reads {sorted(keys)}')
    ctx.require_sites(rule, 'from_storage: restored fields', m, 9, fr.loc())
    # defaults of the restored flags: an absent success/failure reads as False, absent retries as 0 (never as done / never as exhausted)
    for c in ctors:
        for kw in c.keywords:
            if kw.arg in ('success', 'failure', 'retries') and isinstance(kw.value, ast.BoolOp):
                last = kw.value.values[-1]
                want = 0 if kw.arg == 'retries' else False
                ctx.ob(rule, f'from_storage: an absent `{kw.arg}` reads as {want!r} (`... or {want!r}`)', isinstance(kw.value.op, ast.Or) and isinstance(last, ast.Constant)
                       and last.value == want and type(last.value) is type(want), loc=fr.loc(kw.value), construct=construct(fr, f'config:from_storage:{kw.arg}:default'),
                       detail=norm(kw.value, 60))


def check_pressure_relief(ctx: Ctx, rule: str) -> None:
    """queueing.worker: before the processor is awaited for the last queued event, the stream-pressure flag is cleared (under `backlog.empty()`).
    A pressure flag that stays set makes every interruptible sleep of the processor (`apply`, the consistency barrier) return at once as
    "interrupted": no touch-patch is sent, no new event arrives, and a delayed/retried handler is never woken up again."""
    repo = ctx.repo
    f, g = cfg_of(ctx, 'queueing.worker')
    procp = 'processor'
    proc = g.stmt_nodes(lambda x: isinstance(x, ast.Call) and isinstance(x.func, ast.Name) and x.func.id == procp)
    ctx.require_sites(rule, 'worker: the processor call', len(proc), 1, f.loc())
    clears = g.stmt_nodes(lambda x: isinstance(x, ast.Call) and method_call(x, 'clear') is not None and 'pressure' in (dotted(method_call(x, 'clear')) or ''))
    ctx.require_sites(rule, 'worker: pressure.clear()', len(clears), 1, f.loc())

    def assume(test, outcome):
        # prune the branches on which `backlog.empty()` is false at the relief test (the flag may stay set only when more events are queued)
        def empty_false(e, o):
            return isinstance(e, ast.Call) and method_call(e, 'empty') is not None and o is False
        from ..rules import cond_implies
        return False if cond_implies(test, outcome, empty_false) else None
    gets = g.stmt_nodes(lambda x: isinstance(x, ast.Call) and method_call(x, 'get') is not None and 'backlog' in (dotted(method_call(x, 'get')) or ''))
    r = g.reach(gets, stop=lambda n: n in set(clears), edge_ok=g.pruned(assume))
    und = [p for p in proc if p in r]
    ctx.ob(rule, 'worker: on every path from the dequeue to the processor on which the backlog is empty, pressure.clear() is executed first (the processor can '
                 'then really sleep for the handlers\' delays and send the touch-patch that wakes them up)', not und and bool(clears) and bool(gets),
           loc=f.loc(proc[0].stmt) if proc else f.loc(), construct=construct(f, 'dom:backlog.empty() => pressure.clear() < processor'))
    # and the flag handed to the processor is that very flag
    for n in proc:
        for c in calls_in(n.stmt):
            if isinstance(c.func, ast.Name) and c.func.id == procp:
                sp = kwarg(c, 'stream_pressure')
                recv = dotted(method_call([x for cl in clears for x in calls_in(cl.stmt) if method_call(x, 'clear') is not None][0], 'clear')) if clears else None
                ctx.ob(rule, 'worker: the flag that is cleared is the one handed to the processor as stream_pressure', sp is not None and dotted(sp) == recv,
                       loc=f.loc(c), construct=construct(f, 'flow:stream_pressure=cleared flag'), detail=f'{norm(sp, 40)} vs {recv}')


def check_apply_always(ctx: Ctx, rule: str) -> None:
    """processing.process_resource_event: once the causes were processed, `application.apply` is reached on every normal path unless the event is DELETED:
    whatever was accumulated (handler patches, progress, finalizer edits) and whatever delays are due are applied/slept in this very cycle."""
    repo = ctx.repo
    f, g = cfg_of(ctx, 'processing.process_resource_event')
    prc = g.call_nodes('processing.process_resource_causes')
    app = g.call_nodes('application.apply')
    ctx.require_sites(rule, 'process_resource_event: process_resource_causes call', len(prc), 1, f.loc())
    ctx.require_sites(rule, 'process_resource_event: application.apply call', len(app), 1, f.loc())

    def assume(test, outcome):
        def is_deleted(e, o):
            # `raw_event['type'] != 'DELETED'` False  /  `== 'DELETED'` True
            if isinstance(e, ast.Compare) and len(e.ops) == 1 and isinstance(e.comparators[0], ast.Constant) and e.comparators[0].value == 'DELETED':
                return (isinstance(e.ops[0], ast.NotEq) and o is False) or (isinstance(e.ops[0], ast.Eq) and o is True)
            return False
        from ..rules import cond_implies
        return False if cond_implies(test, outcome, is_deleted) else None
    pr = g.pruned(assume)

    def normal_flow(a, b) -> bool:     # the failure of a call is contained by `throttled` (C12); this rule is about the cycles that complete
        return pr(a, b) and b not in a.exc_edges.values()
    esc = g.escaping_exits(prc, app, classes=('normal',), edge_ok=normal_flow)
    ctx.ob(rule, 'process_resource_event: for every event other than DELETED, every normal path from process_resource_causes to the end of the cycle passes '
                 'application.apply (no condition may skip the delivery of the accumulated patch or the sleep-and-touch for the delays)', not esc and bool(app) and bool(prc),
           loc=f.loc(app[0].stmt) if app else f.loc(), construct=construct(f, 'allexits:causes -> apply unless DELETED'))
    for n in app:
        for c in calls_in(n.stmt):
            if repo.callee_names(f, c) and any(q.endswith('application.apply') for q in repo.callee_names(f, c)):
                d, pz = kwarg(c, 'delays'), kwarg(c, 'patch')
                src_d = None
                for m in prc:
                    st = m.stmt
                    if isinstance(st, ast.Assign) and isinstance(st.targets[0], ast.Tuple) and st.targets[0].elts and isinstance(st.targets[0].elts[0], ast.Name):
                        src_d = st.targets[0].elts[0].id
                ctx.ob(rule, 'process_resource_event: apply() receives the delays returned by process_resource_causes and the cycle\'s patch', d is not None and dotted(d) == src_d
                       and pz is not None and dotted(pz) == 'patch', loc=f.loc(c), construct=construct(f, 'flow:apply(delays=, patch=)'), detail=f'delays={norm(d, 30)} patch={norm(pz, 30)}')


def check_deliver_results(ctx: Ctx, rule: str) -> None:
    """progression.deliver_results and its call sites: the result a handler returned (no exception, not None) is written into the cycle's patch under
    status.<handler id> on every path, in every cycle kind that persists state (changing, watching, sub-handling, daemons, timers)."""
    from .. import absint
    repo = ctx.repo
    f = repo.fn('progression.deliver_results')
    ctx.analysed(f)
    loops = [n for n in walk_no_defs(f.node) if isinstance(n, ast.For)]
    ctx.require_sites(rule, 'deliver_results: loop over the outcomes', len(loops), 1, f.loc())
    for lp in loops:
        idvars = {n.id for n in ast.walk(lp.target) if isinstance(n, ast.Name)}

        def effect(it, path, call, names):
            # a call that mutates something reached from the patch: X.update(...), X.__setitem__(...)
            if isinstance(call.func, ast.Attribute) and call.func.attr in ('update', '__setitem__'):
                return 'write'
            return None
        paths = absint.analyse(repo, f, absint.Config(effect=effect), stmts=lp.body)
        ctx.count('paths', len(paths))
        n_written = 0
        for p in paths:
            exc_none = p.atoms.get('isnone(outcome.exception)')
            res_none = p.atoms.get('isnone(outcome.result)')
            for k, v in p.atoms.items():      # whatever the outcome variable is called
                if k.startswith('isnone(') and k.endswith('.exception)'):
                    exc_none = v
                if k.startswith('isnone(') and k.endswith('.result)'):
                    res_none = v
            writes = [e for e in p.trace if e.label == 'write' or e.label.startswith('setitem:')]
            deliverable = exc_none is True and res_none is False
            if deliverable:
                n_written += 1
            ok = (len(writes) == 1) if deliverable else (not writes if (exc_none is False or res_none is True) else True)
            via_patch = all('patch' in (e.label + ' ' + e.key) or any(x in p.env and 'patch' in getattr(p.env[x], 'key', '') for x in _names_of(e.node)) for e in writes)
            by_id = all(bool(idvars & _names_of(e.node)) for e in writes)
            status = all("'status'" in (e.label + ' ' + e.key) or any("'status'" in getattr(p.env.get(x), 'key', '') for x in _names_of(e.node)) for e in writes)
            ctx.ob(rule, 'deliver_results, one outcome: a result is written into the patch under status.<handler id> exactly when the outcome has no exception and a '
                         'non-None result (once; nothing is written for a failed handler or for None)', ok and via_patch and by_id and status, loc=f.loc(lp),
                   construct=construct(f, 'table:result => one status write'),
                   detail=f'exception is None={exc_none}, result is None={res_none}: {len(writes)} write(s) {[e.key[:50] for e in writes]} via_patch={via_patch} by_id={by_id} status={status}')
        ctx.require_sites(rule, 'deliver_results: paths that deliver a result (mapping results merged, other results stored)', n_written, 2, f.loc())
    # call sites: after every execution of handlers in a persisting cycle the results are delivered from the same outcomes into the cycle's patch
    for ref, minimum in (('processing.process_changing_cause', 1), ('processing.process_watching_cause', 1), ('subhandling.execute', 1), ('daemons._daemon', 1), ('daemons._timer', 1)):
        cf, cg = cfg_of(ctx, ref)
        E = cg.call_nodes('execution.execute_handlers_once')
        D = cg.call_nodes('progression.deliver_results')
        ctx.require_sites(rule, f'{cf.name}: execute_handlers_once', len(E), minimum, cf.loc())

        def normal_flow(a, b) -> bool:
            return b not in a.exc_edges.values()
        r = cg.reach(E, stop=lambda n: n in set(D), edge_ok=normal_flow)
        bad = (cg.exit_normal in r) or bool(set(E) & r)
        ctx.ob(rule, f'{cf.name}: every completed execution of handlers is followed by deliver_results before the cycle ends or the next execution starts', bool(D) and not bad,
               loc=cf.loc(E[0].stmt) if E else cf.loc(), construct=construct(cf, 'allexits:execute -> deliver_results'))
        for d in D:
            for c in calls_in(d.stmt):
                if any(q.endswith('progression.deliver_results') for q in repo.callee_names(cf, c)):
                    o = kwarg(c, 'outcomes', 0)
                    srcs = set()
                    for e in E:
                        st = e.stmt
                        if isinstance(st, ast.Assign) and isinstance(st.targets[0], ast.Name):
                            srcs.add(st.targets[0].id)
                    ctx.ob(rule, f'{cf.name}: deliver_results receives the outcomes of that execution', o is not None and dotted(o) in srcs, loc=cf.loc(c),
                           construct=construct(cf, 'flow:deliver_results(outcomes=)'), detail=f'{norm(o, 30)} not in {sorted(srcs)}')


def _names_of(node) -> set:
    return {n.id for n in ast.walk(node) if isinstance(n, ast.Name)} if node is not None else set()


def dominating_conditions_of(g, node) -> list:
    from ..rules import dominating_conditions
    return [(t, o) for t, o, _ in dominating_conditions(g, node)]


def check_response_payload(ctx: Ctx, rule: str) -> None:
    """admission.build_response: the warnings are returned, all of them and in the order given; a non-empty JSON patch is returned (base64 of its JSON dump)
    together with patchType=JSONPatch; neither depends on any other condition (e.g. on `allowed`)."""
    repo = ctx.repo
    f, g = cfg_of(ctx, 'admission.build_response')

    def store_of(key: str):
        def pred(x: ast.AST) -> bool:
            return isinstance(x, ast.Assign) and any(isinstance(t, ast.Subscript) and isinstance(t.slice, ast.Constant) and t.slice.value == key for t in x.targets)
        return g.stmt_nodes(pred)
    for key, param in (('warnings', 'warnings'), ('patch', 'jsonpatch'), ('patchType', 'jsonpatch')):
        nodes = store_of(key)
        ctx.require_sites(rule, f"build_response: store of response['{key}']", len(nodes), 1, f.loc())
        for n in nodes:
            conds = dominating_conditions_of(g, n)
            only_param = bool(conds) and all(isinstance(t, ast.Name) and t.id == param and o is True for t, o in conds)
            ctx.ob(rule, f"build_response: response['{key}'] is set whenever `{param}` is non-empty, under no other condition", only_param, loc=f.loc(n.stmt),
                   construct=construct(f, f'guard:{key} iff {param}'), detail='; '.join(f'{norm(t, 40)}={o}' for t, o in conds))
            # the opposite direction: with a non-empty parameter no normal path skips the store
            def assume(test, outcome, param=param):
                return False if (isinstance(test, ast.Name) and test.id == param and outcome is False) else None
            missing = g.escaping_exits([g.entry], [n], classes=('normal',), edge_ok=g.pruned(assume))
            ctx.ob(rule, f"build_response: with a non-empty `{param}` every normal path sets response['{key}']", not missing, loc=f.loc(n.stmt),
                   construct=construct(f, f'allexits:{param} => {key}'))
            v = n.stmt.value
            if key == 'warnings':
                comp = v if isinstance(v, (ast.ListComp,)) else None
                direct = comp is not None and len(comp.generators) == 1 and isinstance(comp.generators[0].iter, ast.Name) and comp.generators[0].iter.id == param \
                    and not comp.generators[0].ifs
                as_list = isinstance(v, ast.Call) and isinstance(v.func, ast.Name) and v.func.id == 'list' and len(v.args) == 1 and dotted(v.args[0]) == param
                ctx.ob(rule, 'build_response: the returned warnings are all given warnings in the given order (a list built by iterating the parameter itself: '
                             'no filter, no sorting, no set)', direct or as_list, loc=f.loc(v), construct=construct(f, 'flow:warnings in order'), detail=norm(v, 80))
            if key == 'patch':
                from ..rules import origin
                o = origin(f, v)
                calls = {repo.resolve(f.module, c.func) or '' for c in calls_in(o)} if o is not None else set()
                dumps = [c for c in calls_in(o) if (repo.resolve(f.module, c.func) or '') == 'json.dumps'] if o is not None else []
                ctx.ob(rule, 'build_response: the returned patch is the base64 encoding of json.dumps(jsonpatch)', 'base64.b64encode' in calls and bool(dumps)
                       and all(c.args and dotted(c.args[0]) == param for c in dumps), loc=f.loc(v), construct=construct(f, 'flow:patch=b64(json(jsonpatch))'),
                       detail=norm(o, 80))
            if key == 'patchType':
                ctx.ob(rule, "build_response: patchType is 'JSONPatch'", isinstance(v, ast.Constant) and v.value == 'JSONPatch', loc=f.loc(v),
                       construct=construct(f, 'config:patchType'))


# ---------------------------------------------------------------------------------------------------------------- round 4
def _display_bound(f, e: ast.AST, depth: int = 3) -> Optional[int]:
    """Upper bound on the number of elements of a list/set expression built from displays (None = unknown)."""
    from ..rules import origin
    e = origin(f, e, depth)
    if isinstance(e, (ast.List, ast.Tuple, ast.Set)):
        return None if any(isinstance(x, ast.Starred) for x in e.elts) else len(e.elts)
    if isinstance(e, ast.IfExp):
        a, b = _display_bound(f, e.body, depth), _display_bound(f, e.orelse, depth)
        return None if a is None or b is None else max(a, b)
    if isinstance(e, ast.Call) and isinstance(e.func, ast.Name) and e.func.id in ('set', 'list', 'frozenset', 'tuple') and len(e.args) == 1:
        return _display_bound(f, e.args[0], depth)
    if isinstance(e, ast.Call) and isinstance(e.func, ast.Name) and e.func.id in ('set', 'list', 'frozenset', 'tuple') and not e.args:
        return 0
    if isinstance(e, ast.BinOp) and isinstance(e.op, ast.Sub):
        return _display_bound(f, e.left, depth)
    if isinstance(e, ast.BinOp) and isinstance(e.op, (ast.BitOr, ast.Add)):
        a, b = _display_bound(f, e.left, depth), _display_bound(f, e.right, depth)
        return None if a is None or b is None else a + b
    if isinstance(e, ast.BinOp) and isinstance(e.op, ast.BitAnd):
        a, b = _display_bound(f, e.left, depth), _display_bound(f, e.right, depth)
        return a if b is None else b if a is None else min(a, b)
    return None


def _is_set_expr(f, e: ast.AST) -> bool:
    from ..rules import origin
    e = origin(f, e)
    if isinstance(e, (ast.Set, ast.SetComp)):
        return True
    if isinstance(e, ast.Call) and isinstance(e.func, ast.Name) and e.func.id in ('set', 'frozenset'):
        return True
    if isinstance(e, ast.BinOp) and isinstance(e.op, (ast.Sub, ast.BitOr, ast.BitAnd, ast.BitXor)):
        return _is_set_expr(f, e.left) or _is_set_expr(f, e.right)
    return False


def check_key_order_deterministic(ctx: Ctx, rule: str) -> None:
    """conventions.*.make_keys: the list of candidate keys has a fixed order (V2 first, V1 as the fallback) on every run: it is not produced by iterating a
    set of more than one string (string hashing is randomised per process, so such an order -- and with it which record `fetch` prefers -- changes with a restart)."""
    repo = ctx.repo
    f = repo.fn('conventions.StorageKeyFormingConvention.make_keys')
    ctx.analysed(f)
    rets = [n for n in walk_no_defs(f.node) if isinstance(n, ast.Return) and n.value is not None]
    ctx.require_sites(rule, 'make_keys: return of the key list', len(rets), 1, f.loc())
    for r in rets:
        bad = []
        for x in ast.walk(r.value):
            # a set turned into a sequence, or iterated by a comprehension
            arg = None
            if isinstance(x, ast.Call) and isinstance(x.func, ast.Name) and x.func.id in ('list', 'tuple') and len(x.args) == 1 and _is_set_expr(f, x.args[0]):
                arg = x.args[0]
            if isinstance(x, (ast.ListComp, ast.GeneratorExp)) and any(_is_set_expr(f, gen.iter) for gen in x.generators):
                arg = [gen.iter for gen in x.generators if _is_set_expr(f, gen.iter)][0]
            if isinstance(x, ast.Starred) and _is_set_expr(f, x.value):
                arg = x.value
            if arg is not None:
                b = _display_bound(f, arg)
                if b is None or b > 1:
                    bad.append(f'{norm(arg, 50)} (up to {b if b is not None else "?"} elements)')
        from ..rules import origin
        v = r.value
        first = v
        while isinstance(first, ast.BinOp) and isinstance(first.op, ast.Add):
            first = first.left
        fo = origin(f, first)
        v2_first = any(method_call(c, 'make_v2_key') is not None for c in calls_in(fo)) and not any(method_call(c, 'make_v1_key') is not None for c in calls_in(fo))
        ctx.ob(rule, 'make_keys: the order of the returned keys does not depend on set iteration (only sets of at most one element are turned into sequences)', not bad,
               loc=f.loc(r), construct=construct(f, 'config:key order independent of hashing'), detail='; '.join(bad))
        ctx.ob(rule, 'make_keys: the V2 key comes first, the V1 key is the fallback (fetch prefers the first key present; store writes the first)', v2_first, loc=f.loc(r),
               construct=construct(f, 'order:v2 key first'), detail=norm(fo, 60))


def check_extra_fields_single_impl(ctx: Ctx, rule: str) -> None:
    """registries: the fields declared by handlers (`field=`) are added to the essence by ONE implementation for every registry section (watching, changing,
    spawning): no section overrides get_extra_fields/iter_extra_fields, and cause detection unions all three (a timer's or daemon's field that is not tracked
    makes a change of only that field an empty diff: no idle reset, no re-evaluation of its criteria on the essential diff)."""
    repo = ctx.repo
    base = repo.cls('registries.ResourceRegistry')
    for m in ('get_extra_fields', 'iter_extra_fields'):
        ctx.ob(rule, f'ResourceRegistry.{m} exists', m in base.methods, loc=base.module.relpath() + f':{base.node.lineno}', construct=f'{base.qualname}:dispatch:{m} defined')
    n = 0
    for q, c in sorted(repo.classes.items()):
        if c is base or not repo.is_subclass(q, base.qualname):
            continue
        n += 1
        over = [m for m in ('get_extra_fields', 'iter_extra_fields') if m in c.methods]
        ctx.ob(rule, f'{q.rsplit(".", 1)[1]}: inherits the extra-fields computation of ResourceRegistry unchanged', not over, loc=c.module.relpath() + f':{c.node.lineno}',
               construct=f'{q}:dispatch:extra fields not overridden', detail=f'overrides {over}')
    ctx.require_sites(rule, 'registry sections derived from ResourceRegistry', n, 4, base.module.relpath())
    f = repo.fn('processing._detect_causes')
    ctx.analysed(f)
    secs = {dotted(method_call(c, 'get_extra_fields')).rsplit('.', 1)[-1] for c in calls_in(f.node) if method_call(c, 'get_extra_fields') is not None
            and dotted(method_call(c, 'get_extra_fields'))}
    ctx.ob(rule, '_detect_causes: the extra fields of the watching, changing AND spawning sections are all part of the essence', {'_watching', '_changing', '_spawning'} <= secs,
           loc=f.loc(), construct=construct(f, 'config:extra fields of all sections'), detail=str(sorted(secs)))


def check_vault_invalid_history(ctx: Ctx, rule: str) -> None:
    """credentials.Vault: the history of invalidated credentials only grows (bounded trimming inside `invalidate` itself): nothing else removes, clears or
    replaces entries of `_invalid` -- a forgotten entry lets a login handler re-offer credentials that already got a 401, which are then reused."""
    repo = ctx.repo
    cls = repo.cls('credentials.Vault')
    writers = []
    for mname, m in sorted(cls.methods.items()):
        for n in walk_no_defs(m.node):
            hit = False
            if isinstance(n, (ast.Assign, ast.AugAssign, ast.AnnAssign)):
                tg = n.targets if isinstance(n, ast.Assign) else [n.target]
                hit = any(_self_attr(t) == '_invalid' for t in tg)
            elif isinstance(n, ast.Delete):
                hit = any(_self_attr(t) == '_invalid' for t in n.targets)
            elif isinstance(n, ast.Call) and isinstance(n.func, ast.Attribute) and n.func.attr in MUTATORS and _self_attr(n.func.value) == '_invalid':
                hit = True
            if hit:
                writers.append((mname, m, n))
    ctx.require_sites(rule, 'Vault: writes of the invalidated-credentials history', len(writers), 2, cls.module.relpath())
    for mname, m, n in writers:
        ok = mname in ('__init__', 'invalidate') and not isinstance(n, ast.Delete) and not (isinstance(n, ast.Call) and n.func.attr in ('clear', 'pop', 'popitem', 'remove', 'discard'))
        ctx.ob(rule, f'Vault.{mname}: the history of invalidated credentials is written only by the constructor and by invalidate(), and never deleted or cleared', ok,
               loc=m.loc(n), construct=construct(m, 'confine:_invalid writers'), detail=norm(n, 80))
    inv = cls.methods.get('invalidate')
    if inv is not None:
        keeps = [n for n in walk_no_defs(inv.node) if isinstance(n, ast.Assign) and any(_self_attr(t) == '_invalid' for t in n.targets)]
        for n in keeps:
            has_current = any(_self_attr(x) == '_current' for x in ast.walk(n.value))
            ctx.ob(rule, 'Vault.invalidate: the item being invalidated is appended to the history (the trimmed tail of earlier ones is kept)', has_current and
                   isinstance(n.value, ast.BinOp) and isinstance(n.value.op, ast.Add), loc=inv.loc(n), construct=construct(inv, 'flow:_invalid += current'), detail=norm(n.value, 80))


def check_finalizer_scan_raw_list(ctx: Ctx, rule: str) -> None:
    """registries.*.requires_finalizer: the scan for a handler that requires the finalizer ranges over the registry's raw handler list, not over a
    de-duplicated getter (de-duplication keeps the FIRST registration of a function only: a later registration whose filters do match would be ignored and
    the mandatory deletion handler would not hold the object)."""
    repo = ctx.repo
    n = 0
    for cname in ('ChangingRegistry', 'SpawningRegistry'):
        f = repo.fn(f'registries.{cname}.requires_finalizer')
        ctx.analysed(f)
        loops = [x for x in walk_no_defs(f.node) if isinstance(x, ast.For)]
        its = [x.iter for x in loops] + [g.iter for c in walk_no_defs(f.node) if isinstance(c, (ast.GeneratorExp, ast.ListComp)) for g in c.generators]
        for it in its:
            n += 1
            ctx.ob(rule, f'{cname}.requires_finalizer scans every registered handler (self._handlers), each judged by its own criteria', dotted(it) == 'self._handlers',
                   loc=f.loc(it), construct=construct(f, 'flow:scan over self._handlers'), detail=norm(it, 60))
    ctx.require_sites(rule, 'requires_finalizer: handler scans', n, 2)


def check_postponed_cancellation(ctx: Ctx, rule: str) -> None:
    """invocation.invoke: a cancellation that arrives while a synchronous handler's thread runs is postponed, not dropped: it is remembered by the waiting loop
    and re-raised once the thread has exited, whatever the thread's outcome (a swallowed cancellation lets a cancelled task carry on: a stopped operator
    proceeds with start-up, an abandoned daemon keeps patching)."""
    repo = ctx.repo
    f, g = cfg_of(ctx, 'invocation.invoke')
    loops = [lp for lp in walk_no_defs(f.node) if isinstance(lp, ast.While) and any(method_call(c, 'done') is not None for c in calls_in(lp.test))]
    ctx.require_sites(rule, 'invoke: loop waiting for the executor future', len(loops), 1, f.loc())
    for lp in loops:
        hs = [h for t in ast.walk(lp) if isinstance(t, ast.Try) for h in t.handlers
              if h.type is not None and (repo.resolve(f.module, h.type) or '').endswith('CancelledError')]
        ctx.require_sites(rule, 'invoke: handler of CancelledError around the shielded wait', len(hs), 1, f.loc(lp))
        kept = set()
        for h in hs:
            for st in h.body:
                if isinstance(st, ast.Assign) and isinstance(st.value, ast.Name) and st.value.id == h.name:
                    kept |= {t.id for t in st.targets if isinstance(t, ast.Name)}
        ctx.ob(rule, 'invoke: the cancellation caught while the thread runs is remembered', bool(kept), loc=f.loc(lp), construct=construct(f, 'flow:cancellation remembered'))
        raises = [n for n in g.nodes if n.kind == 'raise' and isinstance(n.stmt, ast.Raise) and isinstance(n.stmt.exc, ast.Name) and n.stmt.exc.id in kept
                  and n.lineno > lp.lineno]
        ctx.ob(rule, 'invoke: the remembered cancellation is re-raised after the loop', bool(raises), loc=f.loc(lp), construct=construct(f, 'allexits:cancellation re-raised'))
        for r in raises:
            conds = [(t, o) for t, o in dominating_conditions_of(g, r) if getattr(t, 'lineno', 0) > lp.lineno]
            only_presence = all(_names_of(t) <= kept for t, o in conds)
            ctx.ob(rule, 'invoke: the re-raise depends on nothing but "a cancellation was caught" (not on the outcome of the thread)', only_presence, loc=f.loc(r.stmt),
                   construct=construct(f, 'guard:re-raise iff cancelled'), detail='; '.join(f'{norm(t, 50)}={o}' for t, o in conds))


def check_fresh_deadline(ctx: Ctx, rule: str, ref: str = 'queueing.worker', deadline: str = 'consistency_time') -> None:
    """A deadline variable is computed from / compared with clock samples taken at that very point: no suspension point lies between a clock sample and its
    use in arithmetic with the deadline (a sample taken before an await makes the window shorter by the time awaited -- here: by the handler's run time)."""
    repo = ctx.repo
    f, g = cfg_of(ctx, ref)
    aliases = _clock_aliases(f)
    sites = []
    for n in g.nodes:
        if n.kind not in ('stmt', 'if', 'loop') or n.stmt is None:
            continue
        for e in g.own_exprs(n):
            for b in ast.walk(e):
                if isinstance(b, ast.BinOp) and isinstance(b.op, (ast.Add, ast.Sub)):
                    assigned = isinstance(n.stmt, ast.Assign) and n.stmt.value is b and any(dotted(t) == deadline for t in n.stmt.targets)
                    operand = any(dotted(x) == deadline for x in (b.left, b.right))
                    if assigned or operand:
                        sites.append((n, b))
    ctx.require_sites(rule, f'{f.name}: arithmetic on `{deadline}`', len(sites), 2, f.loc())
    for n, b in sites:
        stale, clockish = [], 0
        for x in ast.walk(b):
            if _is_clock_call(x, aliases):
                clockish += 1
            elif isinstance(x, ast.Name) and x.id not in aliases and x.id != deadline:
                defs = [d for d in g.nodes if d.kind == 'stmt' and isinstance(d.stmt, ast.Assign) and any(isinstance(t, ast.Name) and t.id == x.id for t in d.stmt.targets)
                        and _is_clock_call(d.stmt.value, aliases)]
                if defs:
                    clockish += 1
                    susp = g.suspensions_between(defs, [n])
                    if susp:
                        stale.append((x.id, susp[0].lineno))
        ctx.ob(rule, f'{f.name}: the clock value combined with `{deadline}` is sampled at that very point (no await between sampling and use)', clockish > 0 and not stale,
               loc=f.loc(n.stmt), construct=construct(f, f'fresh:clock in {deadline} arithmetic'),
               detail='; '.join(f'`{v}` is sampled before the suspension point at L{ln}' for v, ln in stale) or ('no clock operand' if not clockish else ''))


def check_session_closed_in_loop(ctx: Ctx, rule: str) -> None:
    """api.request: the "session is closed" condition (another request's 401 made the vault close the shared session) is recognised on EVERY attempt: the raise of
    APISessionClosed sits in a handler of the very try that performs the attempt, inside the retry loop -- so a request sleeping in its backoff is re-run with
    the fresh credentials instead of failing with a bare RuntimeError."""
    repo = ctx.repo
    f = repo.fn('api.request')
    ctx.analysed(f)
    raises = [r for r in walk_no_defs(f.node) if isinstance(r, ast.Raise) and r.exc is not None and 'APISessionClosed' in src(r.exc, 200)]
    ctx.require_sites(rule, 'request: raise of APISessionClosed', len(raises), 1, f.loc())
    loops = [lp for lp in walk_no_defs(f.node) if isinstance(lp, (ast.For, ast.While))]
    good = 0
    details = []
    for r in raises:
        in_handler = None
        for t in walk_no_defs(f.node):
            if isinstance(t, ast.Try):
                for h in t.handlers:
                    if any(x is r for x in ast.walk(h)):
                        in_handler = (t, h)
        attempt = in_handler is not None and any(isinstance(c, ast.Call) and (method_call(c, 'request') is not None) for st in in_handler[0].body for c in ast.walk(st))
        in_loop = any(any(x is r for x in ast.walk(lp)) for lp in loops)
        closed = any(isinstance(x, ast.Attribute) and x.attr == 'closed' for _t in ([in_handler[1]] if in_handler else []) for x in ast.walk(_t))
        good += bool(attempt and in_loop and closed)
        details.append(f'L{r.lineno}: in handler of the attempt={attempt}, inside the loop={in_loop}, tests closed={closed}')
    ctx.ob(rule, 'request: APISessionClosed is raised under `session.closed` from a handler of the attempt\'s own try, inside the retry loop', good >= 1,
           loc=f.loc(raises[0]) if raises else f.loc(), construct=construct(f, 'dispatch:session-closed per attempt'), detail='; '.join(details))


def check_clean_before_sleep(ctx: Ctx, rule: str) -> None:
    """peering.process_peering_event: expired records are cleaned right after they were classified, before the (long, interruptible) wait for the peers' deadlines:
    a list of dead peers that is acted upon after the wait is stale -- a peer that re-announced itself meanwhile would have its fresh record deleted."""
    repo = ctx.repo
    f, g = cfg_of(ctx, 'peering.process_peering_event')
    cleans = g.call_nodes('peering.clean')
    sleeps = g.call_nodes('aiotime.sleep')
    ctx.require_sites(rule, 'process_peering_event: clean(dead peers)', len(cleans), 1, f.loc())
    ctx.require_sites(rule, 'process_peering_event: wait for the deadlines', len(sleeps), 1, f.loc())
    after = g.reach(sleeps)
    ctx.ob(rule, 'process_peering_event: clean(dead_peers) is not reachable from the wait (the classification it acts on was made in this very activation, with no '
                 'suspension point in between other than the pause toggle)', not (set(cleans) & after), loc=f.loc(cleans[0].stmt) if cleans else f.loc(),
           construct=construct(f, 'order:clean before the wait'))


def check_pressure_on_every_put(ctx: Ctx, rule: str) -> None:
    """queueing.watcher: every event handed to a stream raises that stream's pressure flag, unconditionally (listed pseudo-events included): the flag is what wakes
    a processor sleeping at the consistency barrier or for handler delays; an event queued without it waits for the sleep to run out."""
    repo = ctx.repo
    f, g = cfg_of(ctx, 'queueing.watcher')
    puts = g.stmt_nodes(lambda x: isinstance(x, ast.Call) and method_call(x, 'put') is not None and 'backlog' in (dotted(method_call(x, 'put')) or src(method_call(x, 'put'))))
    sets = g.stmt_nodes(lambda x: isinstance(x, ast.Call) and method_call(x, 'set') is not None and 'pressure' in (dotted(method_call(x, 'set')) or src(method_call(x, 'set'))))
    ctx.require_sites(rule, 'watcher: backlog.put of a stream event', len(puts), 2, f.loc())
    ctx.require_sites(rule, 'watcher: pressure.set()', len(sets), 2, f.loc())
    for pn in puts:
        # the closest dominating set: a set node from which the put is reachable, and every condition dominating... simply: no path from the loop head to this put avoids all sets
        loops = [n for n in g.nodes if n.kind == 'loop' and isinstance(n.stmt, ast.AsyncFor)]
        r = g.reach(loops or [g.entry], stop=lambda n: n in set(sets))
        ctx.ob(rule, 'watcher: on every path of one iteration to backlog.put(event) the stream\'s pressure flag was set first', pn not in r, loc=f.loc(pn.stmt),
               construct=construct(f, 'dom:pressure.set < backlog.put'))


def check_mapping_results_merged(ctx: Ctx, rule: str) -> None:
    """progression.deliver_results: a mapping result is MERGED into what the cycle's patch already holds under status.<handler id> (`.update`), it does not replace it:
    two deliveries under one key in one cycle (a function registered for two causes, a handler that also wrote patch.status[<own id>]) both reach the API."""
    from .. import absint
    repo = ctx.repo
    f = repo.fn('progression.deliver_results')
    ctx.analysed(f)
    loops = [n for n in walk_no_defs(f.node) if isinstance(n, ast.For)]
    ctx.require_sites(rule, 'deliver_results: loop over the outcomes', len(loops), 1, f.loc())
    for lp in loops:
        def effect(it, path, call, names):
            return 'merge' if isinstance(call.func, ast.Attribute) and call.func.attr == 'update' else None
        paths = absint.analyse(repo, f, absint.Config(effect=effect), stmts=lp.body)
        n = 0
        for p in paths:
            is_map = any(('Mapping' in k) and v is True for k, v in p.atoms.items())
            if not is_map:
                continue
            n += 1
            merges = [e for e in p.trace if e.label == 'merge']
            replaces = [e for e in p.trace if e.label.startswith('setitem:')]
            ctx.ob(rule, 'deliver_results: a mapping result is merged (update) into the entry of the patch, never assigned over it', bool(merges) and not replaces, loc=f.loc(lp),
                   construct=construct(f, 'table:mapping result => merge'), detail=f'{len(merges)} merge(s), {len(replaces)} replacement(s)')
        ctx.require_sites(rule, 'deliver_results: path for mapping results', n, 1, f.loc())


def check_reconnect_classes(ctx: Ctx, rule: str) -> None:
    """watching.continuous_watch / watch_objs: the except arms that end the request QUIETLY (re-list / reconnect) catch connection-level classes only -- the closed list
    ClientConnectionError, ClientPayloadError, TimeoutError; anything wider (ClientError, OSError, Exception) would turn a permanent fault, e.g. a non-JSON answer, into
    an endless silent re-listing instead of a failure that stops the operator."""
    repo = ctx.repo
    allowed = {'aiohttp.ClientConnectionError', 'aiohttp.ClientPayloadError', 'asyncio.TimeoutError', 'TimeoutError', 'builtins.TimeoutError',
               'aiohttp.client_exceptions.ClientConnectionError', 'aiohttp.client_exceptions.ClientPayloadError'}
    n = 0
    for ref in ('watching.continuous_watch', 'watching.watch_objs'):
        f = repo.fn(ref)
        ctx.analysed(f)
        for t in walk_no_defs(f.node):
            if not isinstance(t, ast.Try):
                continue
            for h in t.handlers:
                quiet = not any(isinstance(x, ast.Raise) for st in h.body for x in ast.walk(st))
                if not quiet or h.type is None:
                    if h.type is None:
                        ctx.ob(rule, f'{f.name}: no bare `except:`', False, loc=f.loc(h), construct=construct(f, 'dispatch:quiet handler classes'))
                    continue
                classes = [repo.resolve(f.module, c) or src(c) for c in (h.type.elts if isinstance(h.type, ast.Tuple) else [h.type])]
                if all(c.endswith('APIError') or c.endswith('errors.APITooManyRequestsError') for c in classes) or any('errors.' in c for c in classes):
                    continue            # API-level arms are decided by R19.2 / R19.6
                n += 1
                wide = [c for c in classes if c not in allowed]
                ctx.ob(rule, f'{f.name}: a handler that ends the request quietly catches only connection-level classes (ClientConnectionError, ClientPayloadError, TimeoutError)',
                       not wide, loc=f.loc(h), construct=construct(f, 'dispatch:quiet handler classes'), detail=f'also catches {wide}')
    ctx.require_sites(rule, 'watching: quiet reconnect handlers', n, 2)

# ---------------------------------------------------------------------------------------------------------------- cross-wiring
def _c01_worker(ctx: Ctx, rule: str) -> None:
    from . import C01
    include(ctx, C01.check_worker, rule, 'C01')


def _c19_stream(ctx: Ctx, rule: str) -> None:
    from . import C19
    include(ctx, C19.check_stream, rule, 'C19')


def _plumbing(ctx: Ctx, rule: str) -> None:
    from . import _x_progress
    _x_progress.check_handler_plumbing(ctx, rule)


def _c04_siblings(ctx: Ctx, rule: str) -> None:
    from . import C04
    include(ctx, C04.check_siblings, rule, 'C04')


def _c07_worker(ctx: Ctx, rule: str) -> None:
    from . import C07
    include(ctx, C07.check_worker_bookkeeping, rule, 'C07')


def _c09_staged(ctx: Ctx, rule: str) -> None:
    from . import C09
    include(ctx, C09.check_staged_termination, rule, 'C09')


def _terminate(ctx: Ctx, rule: str) -> None:
    from . import _x_cluster
    _x_cluster.check_terminate(ctx, rule)


def _closing_flag(ctx: Ctx, rule: str) -> None:
    from . import C02
    C02.check_cycle_closing(ctx, None, rule, flag_only=True)


def _c15_field_values(ctx: Ctx, rule: str) -> None:
    # only the clauses that concern admission causes: the value list of a non-changing cause is the reviewed (current) state only, and the
    # per-value criterion table; the old-state clause for changing handlers (known finding D12 of C15) says nothing about webhooks
    from . import C15
    sub = Ctx('C15', ctx.tier, ctx.repo)
    C15.check_field_values(sub, rule)
    for o in sub.obligations:
        if o.construct.endswith(C15.D12_ROLE) or 'value-list-old-for-updates' in o.construct or 'value-list-new-state' in o.construct:
            continue
        ctx.obligations.append(o)
        ctx.rules_seen[o.rule] = ctx.rules_seen.get(o.rule, 0) + 1
    ctx.functions |= sub.functions


def _c15_dedup(ctx: Ctx, rule: str) -> None:
    from . import C15
    include(ctx, C15.check_r15_2, rule, 'C15')


def _c16_locations(ctx: Ctx, rule: str) -> None:
    from . import C16

    def run(sub: Ctx) -> None:
        na = C16.analyse_names(sub.repo)
        C16.check_locations(sub, bool(na.facts) and all(fa.prefixed for fa in na.facts.values()) and na.elements_ok)
    include(ctx, run, rule, 'C16')


def _c09_deleted(ctx: Ctx, rule: str) -> None:
    from . import C09
    include(ctx, C09.check_deleted_event, rule, 'C09')


def _c02_sibling(ctx: Ctx, rule: str) -> None:
    from . import C02
    C02.check_sibling_protocol(ctx, rule)


EXTRA = {
    # new rules
    'C19': [(check_condvar_toggles, 'R19.50'), (check_condvar_backbone, 'R19.51'), (check_subresource_boundary, 'R19.52')],
    'C13': [(check_condvar_toggles, 'R13.25'), (_terminate, 'R13.24'), (_closing_flag, 'R13.6')],
    'C17': [(check_condvar_toggles, 'R17.26')],
    'C01': [(check_condvar_scheduler, 'R1.22'), (_c19_stream, 'R1.13')],
    'C20': [(check_condvar_scheduler, 'R20.25'), (check_condvar_backbone, 'R20.26'), (_c09_staged, 'R20.10')],
    'C12': [(check_throttled_fresh_clock, 'R12.7'), (check_vault_stores_what_it_tested, 'R12.30')],
    'C08': [(check_subresource_boundary, 'R8.8')],
    # cross-wiring (the clause is a necessary condition of the target property too; DESIGN §8 round 3 says why)
    'C03': [(_c01_worker, 'R3.9'), (_plumbing, 'R3.23')],
    'C05': [(_c04_siblings, 'R5.7'), (_c07_worker, 'R5.8')],
    'C06': [(_c09_staged, 'R6.7')],
    'C18': [(_c15_field_values, 'R18.35')],
    'C02': [(_c15_dedup, 'R2.15'), (_c16_locations, 'R2.16')],
    'C11': [(_c09_deleted, 'R11.7')],
    'C15': [(_closing_flag, 'R15.8')],
    'C16': [(_c02_sibling, 'R16.9'), (check_record_field_mapping, 'R16.10')],
}
EXTRA['C02'] += [(check_record_field_mapping, 'R2.17')]
EXTRA['C11'] += [(check_record_field_mapping, 'R11.8'), (check_pressure_relief, 'R11.9')]
EXTRA['C03'] += [(check_pressure_relief, 'R3.10'), (check_apply_always, 'R3.11')]
EXTRA['C08'] += [(check_apply_always, 'R8.9'), (check_deliver_results, 'R8.10')]
EXTRA['C18'] += [(check_response_payload, 'R18.36')]
EXTRA['C16'] += [(check_key_order_deterministic, 'R16.11')]
EXTRA['C10'] = [(check_extra_fields_single_impl, 'R10.7')]
EXTRA['C15'] += [(check_extra_fields_single_impl, 'R15.9')]
EXTRA['C04'] = [(check_extra_fields_single_impl, 'R4.9')]
EXTRA['C12'] += [(check_vault_invalid_history, 'R12.31')]


_CV = 'CONDVAR: every change of the state awaited through a Condition.wait_for predicate is followed by an unconditional notify_all on every normal path'
KINDS = {
    'C01': _CV + ' (Scheduler: workers are spawned when capacity frees); the stream rules of C19 (resume version) for "none processed twice"',
    'C02': 'cross-wired dedup-key rule of C15 and record-location agreement of C16; KEYS: each record key is computed from / restored into the field of the same name',
    'C03': 'cross-wired worker rules of C01 and sub-handler plumbing; pressure relief before the processor (a stale pressure flag suppresses the sleep-and-touch); '
           'ALLEXITS: every completed non-DELETED cycle passes application.apply',
    'C05': 'cross-wired key-agreement rule of C04 ("never handled before" = nothing under the storage\'s own keys) and worker version bookkeeping of C07',
    'C06': 'cross-wired staged-termination rule set of C09 (stage parameters are per daemon)',
    'C08': 'BOUNDARY: subresource discovery uses the "<name>/" prefix; ALLEXITS: apply() on every completed cycle; TABLE+ALLEXITS: handler results are delivered '
           'into the patch after every execution',
    'C10': 'DISPATCH: one implementation of the handler-declared extra fields for all registry sections (a timer\'s field is part of the essential diff that resets idling)',
    'C04': 'DISPATCH: one implementation of the handler-declared extra fields for all registry sections',
    'C11': 'cross-wired spawning-order table of C09; KEYS field mapping; pressure relief',
    'C12': 'FRESH: no suspension point between a clock sample and its use in the throttling-deadline arithmetic; FLOW: the stored credentials are the object '
           'that was compared with the invalidated ones',
    'C13': _CV + ' (toggles); cross-wired terminate_redundancies and first-sight-flag rules',
    'C15': 'cross-wired first-sight-flag rule (resume handlers are not mixed into later causes)',
    'C16': 'cross-wired sub-handling protocol of C02 (every sub-handler record is referenced for purging); KEYS field mapping',
    'C17': _CV + ' (the readiness gate opens when toggles are dropped)',
    'C18': 'cross-wired value-list rule of C15 for admission causes; GUARD/FLOW on the response payload (warnings in order, patch + patchType)',
    'C19': _CV + ' (toggles, backbone, containers); BOUNDARY: subresource discovery',
    'C20': _CV + ' (Scheduler, backbone); cross-wired staged-termination rule set of C09 for the exit path',
}


# ---------------------------------------------------------------------------------------------------------------- round 4 wiring
def _c19_list_objs(ctx: Ctx, rule: str) -> None:
    from . import _x_cluster
    _x_cluster.check_list_objs(ctx, rule)


def _c19_spawn_keys(ctx: Ctx, rule: str) -> None:
    from . import _x_cluster
    _x_cluster.check_spawn_keys(ctx, rule)


def _sleep_table(ctx: Ctx, rule: str) -> None:
    from . import _x_tasks
    _x_tasks.check_sleep(ctx, rule)


def _c04_siblings2(ctx: Ctx, rule: str) -> None:
    _c04_siblings(ctx, rule)


def _c09_spawn(ctx: Ctx, rule: str) -> None:
    from . import C09
    include(ctx, C09.check_spawn_and_runner, rule, 'C09')


def _c08_carry(ctx: Ctx, rule: str) -> None:
    from . import C08
    C08.check_carry_forward(ctx, rule_prefix=rule)


def _c20_own(ctx: Ctx, rule: str) -> None:
    from . import C20
    include(ctx, C20.check_ownership, rule, "C20")


EXTRA['C06'] += [(check_finalizer_scan_raw_list, 'R6.23'), (_c09_spawn, 'R6.8')]
EXTRA['C15'] += [(check_finalizer_scan_raw_list, 'R15.10')]
EXTRA['C08'] += [(check_postponed_cancellation, 'R8.11'), (check_mapping_results_merged, 'R8.12')]
EXTRA['C20'] += [(check_postponed_cancellation, 'R20.27'), (check_reconnect_classes, 'R20.28')]
EXTRA['C09'] = [(check_postponed_cancellation, 'R9.12')]
EXTRA['C19'] += [(check_reconnect_classes, 'R19.53')]
EXTRA['C11'] += [(check_fresh_deadline, 'R11.10'), (_c19_list_objs, 'R11.11')]
EXTRA['C07'] = [(check_fresh_deadline, 'R7.8'), (check_pressure_on_every_put, 'R7.7')]
EXTRA['C12'] += [(check_session_closed_in_loop, 'R12.32')]
EXTRA['C13'] += [(check_clean_before_sleep, 'R13.26'), (_c20_own, 'R13.27')]
EXTRA['C03'] += [(_c19_list_objs, 'R3.12'), (_c04_siblings2, 'R3.13')]
EXTRA['C05'] += [(_c19_list_objs, 'R5.9'), (_sleep_table, 'R5.10')]
EXTRA['C14'] = [(_c19_list_objs, 'R14.7'), (_c08_carry, 'R14.8')]
EXTRA['C01'] += [(_c19_spawn_keys, 'R1.14'), (check_pressure_on_every_put, 'R1.15')]
EXTRA['C02'] += [(_sleep_table, 'R2.18')]
KINDS['C07'] = 'FRESH: the consistency deadline is computed from a clock sample taken after the processor returned; DOM: every queued event raises the stream pressure'
KINDS['C09'] = 'ALLEXITS: a cancellation postponed while a sync handler\'s thread runs is re-raised, whatever the thread\'s outcome'
KINDS['C14'] = 'cross-wired list_objs item completion (kind/apiVersion of listed objects = those of watched ones) and the carry-forward rules of C08'


def _table_a3(ctx: Ctx, rule: str) -> None:
    from . import _prc
    _prc.check_table(ctx, rule, 'process_resource_causes (Appendix A.3): a cycle that starts from a carried-forward patch (non-empty at entry, dict content or '
                     'transformation fns alike) skips the state-dependent handlers (a finished handler is not run again on a view that lacks its record)')


EXTRA['C02'] += [(_table_a3, 'R2.19')]


# ---------------------------------------------------------------------------------------------------------------- round 5
def check_patched_version_flow(ctx: Ctx, rule: str) -> None:
    """application.patch_and_check: the version handed back to the worker is read from the response of the PATCH on every path on which a request was made; nothing
    replaces it by None (every own write moves the resourceVersion: annotations travel in the same merge-patch even when the status part was pruned)."""
    repo = ctx.repo
    f = repo.fn('application.patch_and_check')
    ctx.analysed(f)
    rets = [r for r in walk_no_defs(f.node) if isinstance(r, ast.Return) and isinstance(r.value, ast.Tuple) and len(r.value.elts) == 2]
    ctx.require_sites(rule, 'patch_and_check: returns of (version, remaining patch)', len(rets), 1, f.loc())
    names = {r.value.elts[0].id for r in rets if isinstance(r.value.elts[0], ast.Name)}
    n = 0
    for nm in names:
        for a in walk_no_defs(f.node):
            if isinstance(a, ast.Assign) and any(isinstance(t, ast.Name) and t.id == nm for t in a.targets):
                n += 1
                txt = src(a.value, 400)
                ok = 'resourceVersion' in txt or (nm in {x.id for x in ast.walk(a.value) if isinstance(x, ast.Name)})
                ctx.ob(rule, 'patch_and_check: the returned version is only ever the response\'s metadata.resourceVersion (or that value decorated), never reset', ok,
                       loc=f.loc(a), construct=construct(f, 'flow:version from the response'), detail=norm(a.value, 80))
    ctx.require_sites(rule, 'patch_and_check: assignments of the returned version', n, 1, f.loc())
    # once the request was made, no return hands back a constant instead of that version
    _, g = cfg_of(ctx, f)
    reqs = g.call_nodes('patching.patch_obj')
    ctx.require_sites(rule, 'patch_and_check: the patch_obj request', len(reqs), 1, f.loc())
    after = g.reach(reqs)
    for rn in [x for x in after if x.kind == 'return' and isinstance(x.stmt, ast.Return) and isinstance(x.stmt.value, ast.Tuple) and len(x.stmt.value.elts) == 2]:
        v = rn.stmt.value.elts[0]
        ctx.ob(rule, 'patch_and_check: after the request every return hands back the version read from its response (not a constant)', isinstance(v, ast.Name) and v.id in names,
               loc=f.loc(rn.stmt), construct=construct(f, 'flow:no constant version after the request'), detail=norm(v, 40))


def check_apply_not_for_deleted(ctx: Ctx, rule: str) -> None:
    """processing.process_resource_event: nothing is patched for a DELETED event (the object is gone; a patch computed for it could only land on a later object
    of the same name): application.apply is reached only under `type != 'DELETED'`."""
    from ..rules import cond_implies, dominating_conditions
    repo = ctx.repo
    f, g = cfg_of(ctx, 'processing.process_resource_event')
    app = g.call_nodes('application.apply')
    ctx.require_sites(rule, 'process_resource_event: application.apply call', len(app), 1, f.loc())

    def not_deleted(e, o):
        if isinstance(e, ast.Compare) and len(e.ops) == 1 and isinstance(e.comparators[0], ast.Constant) and e.comparators[0].value == 'DELETED':
            return (isinstance(e.ops[0], ast.NotEq) and o is True) or (isinstance(e.ops[0], ast.Eq) and o is False)
        return False
    for n in app:
        conds = dominating_conditions(g, n)
        ok = any(cond_implies(t, o, not_deleted) for t, o, _ in conds)
        ctx.ob(rule, 'process_resource_event: application.apply is dominated by the test that the event is not DELETED', ok, loc=f.loc(n.stmt),
               construct=construct(f, 'guard:apply only if not DELETED'))


def check_purge_all_keys(ctx: Ctx, rule: str) -> None:
    """progress storages: purge() nulls EVERY name under which the record may be stored (V2 and V1 keys): the loop over the keys has no early exit -- a surviving
    copy is found by fetch()'s fallback and resurrects the purged state."""
    repo = ctx.repo
    n = 0
    for cname in ('AnnotationsProgressStorage',):
        f = repo.fn(f'progress.{cname}.purge')
        ctx.analysed(f)
        for lp in [x for x in walk_no_defs(f.node) if isinstance(x, ast.For)]:
            n += 1
            exits = [x for st in lp.body for x in ast.walk(st) if isinstance(x, (ast.Break, ast.Return))]
            ctx.ob(rule, f'{cname}.purge: the loop over the candidate keys visits all of them (no break / return)', not exits, loc=f.loc(lp),
                   construct=construct(f, 'loop:purge visits all keys'))
    ctx.require_sites(rule, 'purge: loops over the keys', n, 1)


def _c11_outcomes(ctx: Ctx, rule: str) -> None:
    from . import C11
    C11.check_outcome_table(ctx, rule)


def _purpose(ctx: Ctx, rule: str) -> None:
    from . import _x_progress
    _x_progress.check_state_with_purpose(ctx, rule)


def _decorators(ctx: Ctx, rule: str) -> None:
    from . import _x_intents
    _x_intents.check_decorators(ctx, rule, 'all')


def _c10_schedule(ctx: Ctx, rule: str) -> None:
    from . import C10

    def run(sub: Ctx) -> None:
        t = C10.Timer(sub)
        C10.check_first_run(sub, t)
        C10.check_schedule_table(sub, t)
    include(ctx, run, rule, 'C10')


EXTRA['C07'] += [(check_patched_version_flow, 'R7.9')]
EXTRA['C08'] += [(check_apply_not_for_deleted, 'R8.13'), (_sleep_table, 'R8.14')]
EXTRA['C16'] += [(check_purge_all_keys, 'R16.12')]
EXTRA['C02'] += [(check_purge_all_keys, 'R2.24')]
EXTRA['C06'] += [(check_postponed_cancellation, 'R6.24'), (_c02_sibling, 'R6.25')]
EXTRA['C10'] += [(_c11_outcomes, 'R10.8')]
EXTRA['C11'] += [(_purpose, 'R11.12'), (_decorators, 'R11.13')]
EXTRA['C12'] += [(_sleep_table, 'R12.33')]
EXTRA['C20'] += [(_c10_schedule, 'R20.29')]


def _c13_paused(ctx: Ctx, rule: str) -> None:
    # "asked to stop ... when the operator pauses": the pausing sweep of the daemon killer covers every daemon, unconditionally (C13 decides it; C09 states it too)
    from . import C13
    include(ctx, C13.check_pause_wiring, rule, "C13")


EXTRA['C09'] += [(_c13_paused, 'R9.13')]
