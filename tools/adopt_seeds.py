#!/venv/bin/python
"""Development aid: copy confirmed seeded changes into /verif/seeded/<id>/ and record what the checks say about them.
usage: tools/adopt_seeds.py <confirm log> <seed root glob, e.g. /tmp/seed-*/seed/*> [--detect]"""
import glob, json, os, re, shutil, subprocess, sys
log = open(sys.argv[1]).read()
conf = {}
for m in re.finditer(r'^seed=(\S+) compiles=(\d+) demo_unchanged_exit=(\d+) demo_changed_exit=(\d+) suite: (.*)$', log, re.M):
    conf[m.group(1)] = dict(compiles=m.group(2) == '0', demo_unchanged_exit=int(m.group(3)), demo_changed_exit=int(m.group(4)), suite=m.group(5).strip())
for d in sorted(glob.glob(sys.argv[2])):
    sid = os.path.basename(d)
    c = conf.get(sid)
    if not c:
        continue
    ok = c['compiles'] and c['demo_unchanged_exit'] == 0 and c['demo_changed_exit'] != 0 and 'stable not passing: 0' in c['suite'] and 'stable missing: 0' in c['suite']
    if not ok:
        print('NOT CONFIRMED', sid, c); continue
    dst = f'/verif/seeded/{sid}'
    os.makedirs(dst, exist_ok=True)
    shutil.copy(f'{d}/patch.diff', dst); shutil.copy(f'{d}/demo.py', dst)
    meta = json.load(open(f'{d}/meta.json'))
    old = json.load(open(f'{dst}/meta.json')) if os.path.exists(f'{dst}/meta.json') else {}
    meta['property'] = meta.get('property', sid.split('-')[0])
    meta['confirmed_by_lead'] = {'ran': 'tools/confirm_seed.sh (fresh worktree: demo on unchanged tree, git apply, demo on changed tree, unedited suite in parallel vs BASELINE.json)', **c}
    for k in ('detected_by_quick', 'first_seen', 'note'):
        if k in old:
            meta[k] = old[k]
    if '--detect' in sys.argv:
        out = subprocess.run(['/verif/tools/try_seed.sh', f'{dst}/patch.diff'], capture_output=True, text=True).stdout
        m = re.search(r'DETECTED-BY:(.*)', out)
        meta['detected_by_quick'] = m.group(1).split() if m else []
    json.dump(meta, open(f'{dst}/meta.json', 'w'), indent=1)
    print('adopted', sid, meta.get('detected_by_quick', ''))
