"""Extension rule set "cluster": helpers of C19 (watch coverage), C12 (credentials vault) and C13 (peering) that no property module examines.

C19  R19.20 observation.is_deleted            R19.21 revise_namespaces / get_blockers     R19.22 _update_resources
     R19.23 revise_resources (set <- selectors) R19.24 _disable_* filters                   R19.25 revision = mutate + notify under the lock
     R19.26 process_discovered_*_event        R19.27 namespace_observer fallbacks         R19.28 Resource identity (__eq__/__hash__)
     R19.29 Resource.get_url                  R19.30 Selector.check                       R19.31 Selector.select / is_specific
     R19.32 Backbone.fill / wait_for          R19.33 match_namespace / select_specific    R19.34 Ensemble.get_keys/get_tasks/get_flags/del_keys
     R19.35 terminate_redundancies            R19.36 adjust_tasks (wanted = spawned)      R19.37 key computation of the spawners
     R19.38 api.iter_jsonlines                R19.39 api.stream                           R19.40 fetching.list_objs
     R19.41 (resource, namespace) hand-over   R19.42 scanning.scan_resources              R19.43 faults while streaming (watch_objs, infinite_watch)
C12  R12.20 Vault.select    R12.21 Vault._items    R12.22 re-authentication trigger (invalidate/_expire)    R12.23 Vault.populate
     R12.24 caches flushed before removal; APIContext.close    R12.25 Vault.extended    R12.26 api.request hand-over to the session
C13  R13.20 Peer record round trip    R13.21 touch/clean payload and addressing; delays    R13.22 detect_own_id    R13.23 guess_selectors
     R13.24 spawn_missing_peerings wiring    R13.25 adjust_tasks: peering resources and the "peering missing" pause

Every rule is a necessary structural condition of a clause of the property (named in the obligation text); sites are selected by role
(resolved callee, parameter, written field, loop variable), never by position or text.
"""
from __future__ import annotations

import ast
import itertools
from typing import Callable, Iterable, Optional

from .. import absint
from ..core import Ctx
from ..rules import (SKIP, calls_in, cfg_of, cond_implies, construct, dominating_conditions, is_call_to, kwarg, method_call,
                     norm, origin, table_check)
from ..srcmodel import AnalysisError, FuncInfo, dotted, src, walk_no_defs

OBS = 'kopf._core.reactor.observation'
ORC = 'kopf._core.reactor.orchestration'
REF = 'kopf._cogs.structs.references'
API = 'kopf._cogs.clients.api'
AUTH = 'kopf._cogs.clients.auth'
CRED = 'kopf._cogs.structs.credentials'
PEER = 'kopf._core.engines.peering'
FETCH = 'kopf._cogs.clients.fetching'
SCAN = 'kopf._cogs.clients.scanning'
WATCH = 'kopf._cogs.clients.watching'
QUEUE = 'kopf._core.reactor.queueing'
ERR = 'kopf._cogs.clients.errors'


# ============================================================================================== small shared machinery
def param(f: FuncInfo, name: str) -> str:
    if not any(a.arg == name for a in f.params()):
        raise AnalysisError(f'{f.loc()}: {f.short} has no `{name}` parameter')
    return name


def self_name(f: FuncInfo) -> str:
    ps = f.params()
    if f.cls is None or not ps:
        raise AnalysisError(f'{f.loc()}: {f.short} is not a method')
    return ps[0].arg


def defs_of(f: FuncInfo, name: str) -> list[ast.AST]:
    """Values ever bound to a local name by plain/annotated assignment."""
    out = []
    for n in walk_no_defs(f.node):
        if isinstance(n, ast.Assign) and any(isinstance(t, ast.Name) and t.id == name for t in n.targets):
            out.append(n.value)
        elif isinstance(n, ast.AnnAssign) and isinstance(n.target, ast.Name) and n.target.id == name and n.value is not None:
            out.append(n.value)
    return out


def strip(e: Optional[ast.AST]) -> Optional[ast.AST]:
    """Look through await / typing.cast / NewType-like single-argument wrappers are NOT removed (only await and cast)."""
    while e is not None:
        if isinstance(e, ast.Await):
            e = e.value
        elif isinstance(e, ast.Call) and (dotted(e.func) or '').split('.')[-1] == 'cast' and len(e.args) == 2:
            e = e.args[1]
        else:
            break
    return e


def org(f: FuncInfo, e: Optional[ast.AST], depth: int = 4) -> Optional[ast.AST]:
    """origin() through awaits/casts."""
    for _ in range(depth):
        e2 = strip(origin(f, e)) if e is not None else None
        if e2 is e:
            break
        e = e2
    return e


def is_none(e: Optional[ast.AST]) -> bool:
    return isinstance(e, ast.Constant) and e.value is None


# ---- boolean formulas: the truth table of an expression over role-named atoms
Leaf = Callable[[ast.AST], Optional[tuple[str, bool]]]


def bexpr(f: FuncInfo, e: ast.AST, leaf: Leaf, atoms: set, depth: int = 0) -> Callable[[dict], bool]:
    """Compile a condition into a function of a valuation; leaves are named by ``leaf`` (role), unknown leaves become `?text` atoms
    (on which a specification never depends, so that they show up as disagreements unless they are vacuous)."""
    if isinstance(e, ast.BoolOp):
        parts = [bexpr(f, v, leaf, atoms, depth) for v in e.values]
        if isinstance(e.op, ast.And):
            return lambda v: all(p(v) for p in parts)
        return lambda v: any(p(v) for p in parts)
    if isinstance(e, ast.UnaryOp) and isinstance(e.op, ast.Not):
        inner = bexpr(f, e.operand, leaf, atoms, depth)
        return lambda v: not inner(v)
    if isinstance(e, ast.IfExp):
        t, a, b = (bexpr(f, x, leaf, atoms, depth) for x in (e.test, e.body, e.orelse))
        return lambda v: a(v) if t(v) else b(v)
    if isinstance(e, ast.Constant) and isinstance(e.value, bool):
        val = e.value
        return lambda v: val
    if isinstance(e, ast.Call) and dotted(e.func) == 'bool' and len(e.args) == 1:
        return bexpr(f, e.args[0], leaf, atoms, depth)
    if isinstance(e, ast.Compare) and len(e.ops) > 1:
        parts, left = [], e.left
        for op, right in zip(e.ops, e.comparators):
            parts.append(ast.Compare(left, [op], [right]))
            left = right
        return bexpr(f, ast.BoolOp(ast.And(), parts), leaf, atoms, depth)
    if isinstance(e, ast.Compare) and isinstance(e.ops[0], (ast.In, ast.NotIn)) and isinstance(e.comparators[0], (ast.List, ast.Tuple, ast.Set)):
        # x in [a, b]  ==  x == a or x == b   (None members compare by identity)
        alts = [ast.Compare(e.left, [ast.Is() if is_none(m) else ast.Eq()], [m]) for m in e.comparators[0].elts]
        inner = bexpr(f, ast.BoolOp(ast.Or(), alts) if alts else ast.Constant(False), leaf, atoms, depth)
        return inner if isinstance(e.ops[0], ast.In) else (lambda v: not inner(v))
    if isinstance(e, ast.Compare) and isinstance(e.ops[0], (ast.IsNot, ast.NotEq, ast.NotIn)):
        flipped = {ast.IsNot: ast.Is, ast.NotEq: ast.Eq, ast.NotIn: ast.In}[type(e.ops[0])]()
        inner = bexpr(f, ast.Compare(e.left, [flipped], e.comparators), leaf, atoms, depth)
        return lambda v: not inner(v)
    if isinstance(e, ast.Name) and depth < 4 and leaf(e) is None:
        o = origin(f, e, 1)
        if o is not e:
            return bexpr(f, o, leaf, atoms, depth + 1)
    r = leaf(e)
    name, pol = r if r is not None else ('?' + src(e, 60), True)
    atoms.add(name)
    return (lambda v: bool(v[name])) if pol else (lambda v: not v[name])


def tt_diff(code: Callable[[dict], bool], spec: Callable[[dict], bool], atoms: Iterable[str]) -> Optional[str]:
    """First valuation on which the two formulas disagree (None = equivalent)."""
    names = sorted(atoms)
    if len(names) > 16:
        raise AnalysisError(f'formula over {len(names)} atoms is too large for a truth table')
    for combo in itertools.product((False, True), repeat=len(names)):
        v = dict(zip(names, combo))
        c, s = bool(code(v)), bool(spec(DefaultFalse(v)))
        if c != s:
            return ' '.join(f'{k}={int(b)}' for k, b in v.items()) + f' => code {c}, specification {s}'
    return None


def spec_support(spec: Callable[[dict], bool]) -> set:
    """Atoms a specification formula reads (explored to a fixpoint: short-circuit evaluation hides atoms from a single probe)."""
    known: set = set()
    while True:
        missing: set = set()

        class Rec(dict):
            def __missing__(self, k):
                missing.add(k)
                return False
        names = sorted(known)
        for combo in itertools.product((False, True), repeat=len(names)):
            spec(Rec(zip(names, combo)))
        if not missing or len(known) > 14:
            return known
        known |= missing


class DefaultFalse(dict):
    def __missing__(self, k):
        return False


def formula_ob(ctx: Ctx, rule: str, f: FuncInfo, e: Optional[ast.AST], leaf: Leaf, spec: Callable[[dict], bool], spec_atoms: Iterable[str],
               what: str, key: str, loc_node: Optional[ast.AST] = None) -> bool:
    if e is None:
        return ctx.ob(rule, what, False, loc=f.loc(loc_node), construct=construct(f, key), detail='the condition was not found')
    atoms: set = set()
    code = bexpr(f, e, leaf, atoms)
    d = tt_diff(code, spec, atoms | set(spec_atoms))
    ctx.count('valuations', 2 ** len(atoms | set(spec_atoms)))
    return ctx.ob(rule, what, d is None, loc=f.loc(e if hasattr(e, 'lineno') else loc_node), construct=construct(f, key), detail=d or '')


def role_leaf(role: Callable[[ast.AST], Optional[str]]) -> Leaf:
    """Standard leaves over role-named operands: `x is None`, `x == y`, `x in y`, truthiness of x."""
    def leaf(e: ast.AST) -> Optional[tuple[str, bool]]:
        if isinstance(e, ast.Compare) and len(e.ops) == 1:
            l, r, op = e.left, e.comparators[0], e.ops[0]
            if isinstance(op, (ast.Is, ast.Eq)) and (is_none(r) or is_none(l)):
                x = role(l if is_none(r) else r)
                return (f'none:{x}', True) if x else None
            if isinstance(op, (ast.Is, ast.Eq)):
                a, b = role(l), role(r)
                return ('eq:' + ','.join(sorted((a, b))), True) if a and b else None
            if isinstance(op, ast.In):
                a, b = role(l), role(r)
                return (f'in:{a},{b}', True) if a and b else None
            return None
        x = role(e)
        return (f'truthy:{x}', True) if x else None
    return leaf


def comp_filters(e: ast.AST) -> list[ast.AST]:
    return [i for g in getattr(e, 'generators', []) for i in g.ifs]


def bool_rows(repo, f: FuncInfo, cfg: Optional[absint.Config] = None) -> list[tuple[absint.Path, Optional[bool]]]:
    """Paths of a predicate with the truth value it returns (forked where the returned value is symbolic)."""
    it = absint.Interp(repo, f, cfg or absint.Config())
    p0 = absint.Path()
    p0.fn = f.qualname
    for a in f.params():
        p0.env[a.arg] = absint.sym(a.arg)
    out: list[tuple[absint.Path, Optional[bool]]] = []
    for p in it.run_block(absint._body(f), [p0]):
        if p.status != 'return' or p.retval is None:
            out.append((p, None))
            continue
        for q, b in it.truth_value(p.retval, p):
            out.append((q, b))
    return out


def normal_edges(a, b) -> bool:
    return b not in a.exc_edges.values()


def with_frames(n, suffix: str) -> list:
    return [fr for fr in n.frames if fr.kind == 'with' and isinstance(fr.stmt, (ast.AsyncWith, ast.With))
            and any(src(it.context_expr).endswith(suffix) for it in fr.stmt.items)]


def recv_is(call: ast.AST, attr: str, *suffixes: str) -> bool:
    r = method_call(call, attr)
    return r is not None and any((dotted(r) or src(r)) == s or (dotted(r) or src(r)).endswith('.' + s) for s in suffixes)


def top_level(loop: ast.AST, node: ast.AST) -> bool:
    """Is ``node`` (part of) a statement directly in the loop body (not nested under a condition)?"""
    return any(any(x is node for x in ast.walk(s)) and not isinstance(s, (ast.If, ast.Try, ast.While, ast.For, ast.Match, ast.With)) for s in loop.body)


def whole_of(e: Optional[ast.AST], name: str) -> bool:
    """Is ``e`` the whole named collection (possibly copied by list()/set()/..., possibly its .items()/.values()/.keys()) -- not a slice, not a filter?"""
    e = strip(e)
    while isinstance(e, ast.Call):
        if dotted(e.func) in ('list', 'tuple', 'set', 'frozenset', 'sorted') and len(e.args) == 1 and not e.keywords:
            e = e.args[0]
        elif isinstance(e.func, ast.Attribute) and e.func.attr in ('items', 'values', 'keys') and not e.args and not e.keywords:
            e = e.func.value
        else:
            return False
    return e is not None and dotted(e) == name


def loop_escapes(loop: ast.AST, kinds=(ast.Break, ast.Continue, ast.Return)) -> list[ast.AST]:
    return [x for s in loop.body for x in walk_no_defs(s) if isinstance(x, kinds)]


def concat_leaves(f: FuncInfo, e: Optional[ast.AST], depth: int = 0) -> list[tuple[str, str]]:
    """Leaves of a concatenation of collections: ('all', name) = every element of the named collection (possibly mapped by a filter-free
    comprehension), ('?', text) = anything else (a slice, a filtered comprehension, an `or`)."""
    e = strip(e)
    if e is None or depth > 6:
        return [('?', src(e))]
    if isinstance(e, ast.BinOp) and isinstance(e.op, (ast.Add, ast.BitOr)):
        return concat_leaves(f, e.left, depth + 1) + concat_leaves(f, e.right, depth + 1)
    if isinstance(e, ast.Call) and dotted(e.func) in ('list', 'tuple', 'set', 'frozenset', 'sorted') and len(e.args) == 1 and not e.keywords:
        return concat_leaves(f, e.args[0], depth + 1)
    if isinstance(e, ast.Call) and (dotted(e.func) or '').endswith('chain') and not e.keywords:
        return [l for a in e.args for l in concat_leaves(f, a, depth + 1)]
    if isinstance(e, (ast.ListComp, ast.SetComp, ast.GeneratorExp)) and len(e.generators) == 1 and not e.generators[0].ifs:
        return concat_leaves(f, e.generators[0].iter, depth + 1)
    if isinstance(e, (ast.List, ast.Tuple, ast.Set)) and not e.elts:
        return []
    if isinstance(e, ast.Name):
        o = origin(f, e, 1)
        if o is not e:
            return concat_leaves(f, o, depth + 1)
        return [('all', e.id)]
    if isinstance(e, ast.Attribute) and dotted(e):
        return [('all', dotted(e))]
    return [('?', src(e, 60))]


# ============================================================================================== C19: observation
def check_is_deleted(ctx: Ctx, rule: str) -> None:
    repo = ctx.repo
    f = repo.fn(f'{OBS}.is_deleted')
    ctx.analysed(f)
    rows = bool_rows(repo, f)
    res = {id(p): b for p, b in rows}
    atoms = {'DEL': r"^eq\(.*\['type'\], 'DELETED'\)$",
             'MARK': r"^truthy\(.*'deletionTimestamp'\)\)?$",
             'COND': r"^truthy\(.*'conditions'\)\)?$"}
    table_check(ctx, rule, f, [p for p, _ in rows], atoms, lambda v: bool(v['DEL'] or (v['MARK'] and v['COND'])), lambda p: res[id(p)],
                what='is_deleted (a deleted namespace/CRD leaves the insights, a live one stays): deleted iff the event is DELETED, or the object is marked '
                     'for deletion and reports conditions')


def check_revise_namespaces(ctx: Ctx, rule: str) -> None:
    repo = ctx.repo
    f = repo.fn(f'{OBS}.revise_namespaces')
    ctx.analysed(f)
    loops = [n for n in walk_no_defs(f.node) if isinstance(n, ast.For) and any(is_call_to(repo, f, c, f'{OBS}.is_deleted') for c in calls_in(n))]
    if len(loops) != 1:
        raise AnalysisError(f'{f.loc()}: expected one loop over the namespace events in {f.short}')
    loop = loops[0]

    def eff(it, p, call, names):
        for m in ('add', 'discard', 'remove', 'update', 'difference_update', 'clear'):
            if recv_is(call, m, 'namespaces'):
                return m
        return None
    env = {loop.target.id: absint.sym('event')} if isinstance(loop.target, ast.Name) else None
    paths = absint.analyse(repo, f, absint.Config(effect=eff), stmts=loop.body, env=env)
    atoms = {'DEL': r'^truthy\(.*is_deleted\(', 'BLK': r'^truthy\(.*get_blockers\(', 'MATCH': r'^truthy\(any\('}

    def observe(p):
        es = p.effects('add', 'discard', 'remove', 'update', 'difference_update', 'clear')
        named = all(e.kw.get('#0') is not None and "['metadata']['name']" in e.kw['#0'].key and 'event' in e.kw['#0'].key for e in es)
        return tuple(e.label for e in es) + (() if named else ('of-another-name',)) + (() if p.status in ('run', 'continue') else (p.status,))

    def spec(v):
        if v['DEL']:
            return () if v['BLK'] else ('discard',)
        return ('add',) if v['MATCH'] else ()
    table_check(ctx, rule, f, paths, atoms, spec, observe,
                what='revise_namespaces, one event: deleted and not blocked => the namespace (metadata.name of this event) is discarded; deleted but blocked '
                     '=> kept; otherwise added iff it matches a configured pattern')
    leaves = concat_leaves(f, loop.iter)
    ctx.ob(rule, 'revise_namespaces: every given event and every listed body is revised (nothing filtered out, no early exit from the loop)',
           sorted(leaves) == sorted([('all', param(f, 'raw_events')), ('all', param(f, 'raw_bodies'))]) and not loop_escapes(loop, (ast.Break, ast.Return)), loc=f.loc(loop),
           construct=construct(f, 'flow:all events revised'), detail=f'iterates {norm(org(f, loop.iter))}')
    anys = [c for c in calls_in(loop) if dotted(c.func) == 'any' and len(c.args) == 1 and isinstance(c.args[0], (ast.GeneratorExp, ast.ListComp))
            and any(is_call_to(repo, f, x, f'{REF}.match_namespace') for x in calls_in(c.args[0].elt))]
    ctx.require_sites(rule, 'revise_namespaces: match of the namespace against the configured patterns', len(anys), 1, f.loc(loop))
    for c in anys:
        gen = c.args[0].generators[0]
        m = [x for x in calls_in(c.args[0].elt) if is_call_to(repo, f, x, f'{REF}.match_namespace')][0]
        name_arg, pat_arg = kwarg(m, 'name', 0), kwarg(m, 'pattern', 1)
        ok = len(c.args[0].generators) == 1 and dotted(gen.iter) == param(f, 'namespaces') and not gen.ifs and isinstance(gen.target, ast.Name) \
            and dotted(pat_arg) == gen.target.id and "['metadata']['name']" in src(org(f, name_arg), 200)
        ctx.ob(rule, 'revise_namespaces: a namespace is served iff its NAME matches ANY of the configured patterns (name first, pattern second, no pattern skipped)',
               bool(ok), loc=f.loc(c), construct=construct(f, 'flow:any(match_namespace(name, pattern))'), detail=norm(c))
    gb = repo.fn(f'{OBS}.get_blockers')
    ctx.analysed(gb)
    filters = [i for n in walk_no_defs(gb.node) for i in comp_filters(n)]
    ok = any(isinstance(i, ast.Compare) and len(i.ops) == 1 and isinstance(i.ops[0], ast.Eq) and any(isinstance(x, ast.Constant) and x.value == 'status' for x in ast.walk(i.left))
             and isinstance(i.comparators[0], ast.Constant) and i.comparators[0].value == 'True' for i in filters)
    ctx.ob(rule, 'get_blockers: exactly the conditions whose status is "True" block the removal of a terminating namespace', ok and len(filters) == 1, loc=gb.loc(),
           construct=construct(gb, 'formula:status == "True"'), detail='; '.join(norm(i) for i in filters))


def check_update_resources(ctx: Ctx, rule: str) -> None:
    repo = ctx.repo
    f, g = cfg_of(ctx, f'{OBS}._update_resources')
    ps = [a.arg for a in f.params()]
    res, sels = ps[0], ps[1]
    grp, source = param(f, 'group'), param(f, 'source')

    def mut(x: ast.AST, attrs) -> bool:
        return isinstance(x, ast.Call) and any(method_call(x, a) is not None and dotted(method_call(x, a)) == res for a in attrs)
    rem = g.stmt_nodes(lambda x: mut(x, ('difference_update',)) or (isinstance(x, ast.AugAssign) and isinstance(x.op, ast.Sub) and dotted(x.target) == res))
    add = g.stmt_nodes(lambda x: mut(x, ('update', 'add')) or (isinstance(x, ast.AugAssign) and isinstance(x.op, ast.BitOr) and dotted(x.target) == res))
    ctx.require_sites(rule, '_update_resources: removal of the previously served resources of the group', len(rem), 1, f.loc())
    ctx.require_sites(rule, '_update_resources: inclusion of the resources the selectors select', len(add), 1, f.loc())
    for n in rem:
        arg = n.stmt.value if isinstance(n.stmt, ast.AugAssign) else [c for c in calls_in(n.stmt) if mut(c, ('difference_update',))][0].args[0]
        comp = org(f, arg)
        over = comp.generators[0].iter if isinstance(comp, (ast.SetComp, ast.ListComp, ast.GeneratorExp)) and len(comp.generators) == 1 else None
        var = comp.generators[0].target.id if over is not None and isinstance(comp.generators[0].target, ast.Name) else None
        cond = ast.BoolOp(ast.And(), comp.generators[0].ifs) if over is not None and len(comp.generators[0].ifs) > 1 else (comp.generators[0].ifs[0] if over is not None and comp.generators[0].ifs else ast.Constant(True))

        def role(e: ast.AST) -> Optional[str]:
            d = dotted(e)
            return 'group' if d == grp else 'its-group' if d == f'{var}.group' else None
        formula_ob(ctx, rule, f, cond if over is not None and dotted(over) == res else None, role_leaf(role),
                   lambda v: v['none:group'] or v['eq:group,its-group'], ['none:group', 'eq:group,its-group'],
                   '_update_resources: before re-inclusion exactly the served resources of the revised group (all of them when no group is given) are '
                   'dropped -- a vanished CRD leaves the served set, other groups are untouched', 'formula:dropped = of the group', n.stmt)
    nd = g.dominated(add, rem)
    ctx.ob(rule, '_update_resources: the obsolete resources are dropped before the selected ones are (re-)included (else what was just found is dropped again)',
           bool(rem) and bool(add) and not nd, loc=f.loc(add[0].stmt) if add else f.loc(), construct=construct(f, 'order:drop<include'))
    for n in add:
        loops = [fr.stmt for fr in n.frames if fr.kind == 'loop' and isinstance(fr.stmt, ast.For)]
        ok = len(loops) == 1 and dotted(loops[0].iter) == sels and isinstance(loops[0].target, ast.Name) and top_level(loops[0], n.stmt) and not loop_escapes(loops[0])
        call = [c for c in calls_in(n.stmt) if mut(c, ('update', 'add'))]
        arg = org(f, call[0].args[0]) if call and call[0].args else None
        sel_ok = ok and isinstance(arg, ast.Call) and method_call(arg, 'select') is not None and dotted(method_call(arg, 'select')) == loops[0].target.id \
            and len(arg.args) == 1 and dotted(arg.args[0]) == source
        ctx.ob(rule, '_update_resources: for EVERY selector, unconditionally, what it selects from the discovered resources is included in the served set', bool(sel_ok),
               loc=f.loc(n.stmt), construct=construct(f, 'flow:include selector.select(source) for all selectors'), detail=norm(n.stmt))


REGISTRY_KINDS = {'webhook_resources': {'_webhooks'}, 'indexed_resources': {'_indexing'},
                  'watched_resources': {'_indexing', '_watching', '_spawning', '_changing'}}
PATCHED_KINDS = {'_spawning', '_changing'}


def _selector_kinds(f: FuncInfo, e: Optional[ast.AST], depth: int = 0) -> Optional[set]:
    """{registry kind} of a union of `registry.<kind>.get_all_selectors()`; None if something else is mixed in."""
    e = org(f, e)
    if e is None or depth > 6:
        return None
    if isinstance(e, ast.BinOp) and isinstance(e.op, ast.BitOr):
        a, b = _selector_kinds(f, e.left, depth + 1), _selector_kinds(f, e.right, depth + 1)
        return None if a is None or b is None else a | b
    if isinstance(e, ast.Call) and method_call(e, 'get_all_selectors') is not None and isinstance(method_call(e, 'get_all_selectors'), ast.Attribute):
        return {method_call(e, 'get_all_selectors').attr}
    if isinstance(e, ast.Call) and method_call(e, 'union') is not None:
        parts = [_selector_kinds(f, x, depth + 1) for x in [method_call(e, 'union')] + list(e.args)]
        return None if any(p is None for p in parts) else set().union(*parts)
    return None


def check_revise_resources(ctx: Ctx, rule: str) -> None:
    repo = ctx.repo
    f, g = cfg_of(ctx, f'{OBS}.revise_resources')
    ins, grp, rsc = param(f, 'insights'), param(f, 'group'), param(f, 'resources')
    ups = [c for c in calls_in(f.node) if is_call_to(repo, f, c, f'{OBS}._update_resources')]
    seen = {}
    for c in ups:
        tgt = c.args[0] if c.args else kwarg(c, 'resources')
        sel = c.args[1] if len(c.args) > 1 else kwarg(c, 'selectors')
        field = tgt.attr if isinstance(tgt, ast.Attribute) and dotted(tgt.value) == ins else None
        kinds = _selector_kinds(f, sel)
        seen[field] = kinds
        want = REGISTRY_KINDS.get(field or '')
        ctx.ob(rule, f'revise_resources: insights.{field} is derived from the selectors of exactly the handler kinds {sorted(want) if want else "?"} '
               '(every kind of handler that needs the watch-stream of a resource makes it served)', want is not None and kinds == want, loc=f.loc(c),
               construct=construct(f, f'flow:{field}<-selectors'), detail=f'selectors of {sorted(kinds) if kinds is not None else norm(sel)}')
        ctx.ob(rule, f'revise_resources: insights.{field} is revised for the given group from the freshly discovered resources',
               dotted(kwarg(c, 'group')) == grp and dotted(kwarg(c, 'source')) == rsc, loc=f.loc(c), construct=construct(f, f'config:{field}:group/source'))
    ctx.require_sites(rule, 'revise_resources: served sets revised (webhook, indexed, watched)', len(set(seen) & set(REGISTRY_KINDS)), 3, f.loc())
    check_resource_scan_scope(ctx, rule)
    wnodes = [n for n in g.call_nodes(f'{OBS}._update_resources') if any('watched_resources' in src(c) for c in calls_in(n.stmt))]
    for callee, want in (('_disable_ambiguous_selectors', REGISTRY_KINDS['watched_resources']), ('_disable_unsuitable_resources', PATCHED_KINDS)):
        nodes = g.call_nodes(f'{OBS}.{callee}')
        ctx.require_sites(rule, f'revise_resources: {callee}', len(nodes), 1, f.loc())
        for n in nodes:
            c = [c for c in calls_in(n.stmt) if is_call_to(repo, f, c, f'{OBS}.{callee}')][0]
            tgt = kwarg(c, 'resources', 0)
            ok = isinstance(tgt, ast.Attribute) and tgt.attr == 'watched_resources' and dotted(tgt.value) == ins and _selector_kinds(f, kwarg(c, 'selectors', 1)) == want \
                and bool(wnodes) and not g.dominated([n], wnodes)
            ctx.ob(rule, f'revise_resources: {callee} filters the watched set, after it was revised, with the selectors of {sorted(want)}', ok, loc=f.loc(c),
                   construct=construct(f, f'flow:{callee}'), detail=norm(c))


def check_resource_scan_scope(ctx: Ctx, rule: str) -> None:
    """resource_observer: the initial scan covers the API groups of every handler kind that revise_resources serves (and the backbone)."""
    repo = ctx.repo
    f = repo.fn(f'{OBS}.resource_observer')
    ctx.analysed(f)
    kinds = set()
    for c in calls_in(f.node):
        r = method_call(c, 'get_all_handlers')
        if isinstance(r, ast.Attribute):
            par = f.module.parent.get(c)
            if isinstance(par, ast.Call) and method_call(par, 'extend') is not None or isinstance(par, (ast.BinOp, ast.AugAssign, ast.Starred, ast.List)):
                kinds.add(r.attr)
    want = set().union(*REGISTRY_KINDS.values())
    ctx.ob(rule, f'resource_observer: the API groups to scan are taken from the handlers of every kind whose selectors make a resource served ({sorted(want)})',
           kinds >= want, loc=f.loc(), construct=construct(f, 'sibling:scanned handler kinds'), detail=f'scans the groups of {sorted(kinds)}')
    scans = [c for c in calls_in(f.node) if is_call_to(repo, f, c, f'{SCAN}.scan_resources')]
    ctx.require_sites(rule, 'resource_observer: the initial scan', len(scans), 1, f.loc())
    paths = absint.analyse(repo, f, absint.Config(effect_names={f'{SCAN}.scan_resources': 'scan'}))
    bad, rows = [], set()
    for p in paths:
        anyg = p.atom(r'^in\(None, ')
        for e in p.effects('scan')[:1]:
            gv = e.kw.get('groups')
            everything = gv is None or (gv.kind == 'const' and gv.data is None)
            rows.add(anyg)
            if anyg is True and not everything:
                bad.append(f'some selector names no group, yet only `{gv.key[:50]}` is scanned')
            if anyg is None and not everything:
                bad.append(f'the scanned groups `{gv.key[:50]}` do not depend on whether a selector names no group')
    ctx.ob(rule, 'resource_observer: when some selector names no API group, ALL groups are scanned (groups=None)', not bad and bool(rows), loc=f.loc(scans[0]) if scans else f.loc(),
           construct=construct(f, 'formula:group filter'), detail='; '.join(dict.fromkeys(bad)))
    bb = [n for n in walk_no_defs(f.node) if isinstance(n, ast.Attribute) and n.attr == 'selectors' and (dotted(n.value) or '').endswith('backbone')]
    ctx.ob(rule, 'resource_observer: the groups of the backbone resources (namespaces, CRDs, peerings) are scanned too', bool(bb), loc=f.loc(),
           construct=construct(f, 'flow:backbone groups'))


def check_disable_filters(ctx: Ctx, rule: str) -> None:
    repo = ctx.repo
    # ---- ambiguity: only a specific selector that selects MORE THAN ONE resource is disabled
    f = repo.fn(f'{OBS}._disable_ambiguous_selectors')
    ctx.analysed(f)
    res = param(f, 'resources')
    loops = [n for n in walk_no_defs(f.node) if isinstance(n, ast.For) and dotted(n.iter) == param(f, 'selectors') and isinstance(n.target, ast.Name)]
    if len(loops) != 1:
        raise AnalysisError(f'{f.loc()}: expected one loop over the selectors in {f.short}')
    loop = loops[0]

    def eff(it, p, call, names):
        for m in ('difference_update', 'discard', 'remove', 'clear', 'intersection_update'):
            r = method_call(call, m)
            if r is not None and dotted(r) == res:
                return 'drop'
        return None
    paths = absint.analyse(repo, f, absint.Config(effect=eff), stmts=loop.body, env={loop.target.id: absint.sym('selector')})
    atoms = {'SPEC': r'^truthy\(selector\.is_specific\)$', 'N': (r'^cmp\(1, len\(', None, ('<', '=', '>'))}

    def observe(p):
        ds = p.effects('drop')
        return (len(ds), all(e.kw.get('#0') is not None and e.kw['#0'].key.startswith('selector.select(') for e in ds))
    table_check(ctx, rule, f, paths, atoms, lambda v: (1, True) if v['SPEC'] and v['N'] == '<' else (0, True), observe,
                what='_disable_ambiguous_selectors, one selector: what it selects is dropped from the served set iff the selector is specific and selects '
                     'MORE than one resource (a selector matching exactly one resource stays served)')
    # ---- unsuitable: not watchable = lacks `watch` OR lacks `list`
    f = repo.fn(f'{OBS}._disable_unsuitable_resources')
    ctx.analysed(f)
    res = param(f, 'resources')
    drops = [c for c in calls_in(f.node) if method_call(c, 'difference_update') is not None and dotted(method_call(c, 'difference_update')) == res]
    ctx.require_sites(rule, '_disable_unsuitable_resources: removal from the served set', len(drops), 1, f.loc())
    comps = {}
    for n in walk_no_defs(f.node):
        if isinstance(n, ast.Assign) and len(n.targets) == 1 and isinstance(n.targets[0], ast.Name):
            v = n.value.left if isinstance(n.value, ast.BinOp) and isinstance(n.value.op, ast.Sub) else n.value
            if isinstance(v, (ast.SetComp, ast.ListComp)) and len(v.generators) == 1 and dotted(v.generators[0].iter) == res and isinstance(v.generators[0].target, ast.Name):
                comps[n.targets[0].id] = (v, n.value)

    def verbs_role(var: str):
        def role(e: ast.AST) -> Optional[str]:
            if isinstance(e, ast.Constant) and isinstance(e.value, str):
                return e.value
            return 'verbs' if dotted(e) == f'{var}.verbs' else None
        return role
    n_watch = 0
    for c in drops:
        a = c.args[0] if c.args else None
        if not (isinstance(a, ast.Name) and a.id in comps):
            ctx.ob(rule, '_disable_unsuitable_resources: what is removed is a subset of the served set chosen by its verbs', False, loc=f.loc(c),
                   construct=construct(f, 'flow:dropped subset'), detail=norm(c))
            continue
        comp, full = comps[a.id]
        var = comp.generators[0].target.id
        cond = comp.generators[0].ifs[0] if len(comp.generators[0].ifs) == 1 else ast.BoolOp(ast.And(), comp.generators[0].ifs) if comp.generators[0].ifs else ast.Constant(True)
        atoms: set = set()
        code = bexpr(f, cond, role_leaf(verbs_role(var)), atoms)
        if 'in:watch,verbs' in atoms or 'in:list,verbs' in atoms:
            n_watch += 1
            formula_ob(ctx, rule, f, cond, role_leaf(verbs_role(var)), lambda v: not v['in:watch,verbs'] or not v['in:list,verbs'], ['in:watch,verbs', 'in:list,verbs'],
                       '_disable_unsuitable_resources: a resource is dropped as non-watchable iff it lacks the `watch` verb or lacks the `list` verb (every other '
                       'resource keeps its watch)', 'formula:nonwatchable', comp)
        else:
            formula_ob(ctx, rule, f, cond, role_leaf(verbs_role(var)), lambda v: not v['in:patch,verbs'], ['in:patch,verbs'],
                       '_disable_unsuitable_resources: the only other reason to drop a watchable resource is the missing `patch` verb', 'formula:nonpatchable', comp)
            conds = [t for t, o, _ in dominating_conditions(cfg_of(ctx, f)[1], cfg_of(ctx, f)[1].stmt_nodes(lambda x: x is c)[0])]
            req = any(any(isinstance(x, ast.Name) and any(isinstance(d, ast.Call) and dotted(d.func) == 'any' for d in defs_of(f, x.id)) for x in ast.walk(t)) for t in conds)
            ctx.ob(rule, '_disable_unsuitable_resources: non-patchable resources are dropped only when some state-keeping handler selects them', req, loc=f.loc(c),
                   construct=construct(f, 'guard:patching required'))
    ctx.require_sites(rule, '_disable_unsuitable_resources: the non-watchable filter', n_watch, 1, f.loc())
    # ---- mismatched selectors only warn
    f = repo.fn(f'{OBS}._disable_mismatched_selectors')
    ctx.analysed(f)
    res = param(f, 'resources')
    muts = [c for c in calls_in(f.node) if isinstance(c.func, ast.Attribute) and dotted(c.func.value) == res
            and c.func.attr in ('difference_update', 'discard', 'remove', 'clear', 'intersection_update', 'update', 'add', 'pop')]
    ctx.ob(rule, '_disable_mismatched_selectors only warns: a selector that matches nothing does not change the served set', not muts, loc=f.loc(muts[0]) if muts else f.loc(),
           construct=construct(f, 'confine:no mutation'))



MUTATING = ('add', 'discard', 'remove', 'update', 'difference_update', 'intersection_update', 'clear', 'pop')


def _insight_mutation(repo, f: FuncInfo, x: ast.AST) -> bool:
    if not isinstance(x, ast.Call):
        return False
    if is_call_to(repo, f, x, f'{OBS}.revise_namespaces', f'{OBS}.revise_resources', f'{REF}.Backbone.fill'):
        return True
    return any(recv_is(x, m, 'namespaces', 'watched_resources', 'indexed_resources', 'webhook_resources') for m in MUTATING)


def check_revision_notify(ctx: Ctx, rule: str) -> None:
    """Every change of the insights happens under `async with insights.revised` and is followed, inside the block, by notify_all()."""
    repo = ctx.repo
    for name, minimum in (('namespace_observer', 3), ('resource_observer', 2), ('process_discovered_namespace_event', 1), ('process_discovered_resource_event', 2)):
        f, g = cfg_of(ctx, f'{OBS}.{name}')
        muts = g.stmt_nodes(lambda x: _insight_mutation(repo, f, x))
        notes = set(g.stmt_nodes(lambda x: isinstance(x, ast.Call) and recv_is(x, 'notify_all', 'revised')))
        ctx.require_sites(rule, f'{name}: changes of the insights', len(muts), minimum, f.loc())
        for n in muts:
            wf = with_frames(n, '.revised')
            leaked = []
            if wf:
                r = g.reach([n], stop=lambda m: m in notes, edge_ok=normal_edges)
                leaked = [m for m in r if wf[0] not in m.frames and m not in notes]
            ctx.ob(rule, f'{name}: a change of the insights is made while holding `insights.revised` and every normal path notifies the waiters (the '
                   'orchestrator) before the lock is released -- else a removed namespace/CRD keeps its watcher and an added one gets none', bool(wf) and not leaked,
                   loc=f.loc(n.stmt), construct=construct(f, f'atomic:revise+notify:{norm(n.stmt, 40).split("(")[0]}'),
                   detail='not inside `async with insights.revised`' if not wf else f'the block is left at L{min(m.lineno for m in leaked) if leaked else 0} without notify_all()')


def check_discovered_events(ctx: Ctx, rule: str) -> None:
    repo = ctx.repo
    # ---- namespaces: every real event (incl. DELETED) is revised
    f = repo.fn(f'{OBS}.process_discovered_namespace_event')
    ctx.analysed(f)
    ev, nss, ins = param(f, 'raw_event'), param(f, 'namespaces'), param(f, 'insights')
    paths = absint.analyse(repo, f, absint.Config(effect_names={f'{OBS}.revise_namespaces': 'revise'}))
    atoms = {'NONE': rf"^isnone\({ev}\['type'\]\)$"}

    def observe(p):
        es = p.effects('revise')
        ok = all(e.kw.get('raw_events') is not None and e.kw['raw_events'].kind == 'coll' and e.kw['raw_events'].data[0] == 'display'
                 and [x.key for x in e.kw['raw_events'].data[1]] == [ev] and e.kw.get('namespaces') is not None and e.kw['namespaces'].key == nss
                 and e.kw.get('insights') is not None and e.kw['insights'].key == ins for e in es)
        return (len(es), ok)
    table_check(ctx, rule, f, paths, atoms, lambda v: SKIP if v['NONE'] else (1, True), observe,
                what='process_discovered_namespace_event: every streamed event of whatever type (ADDED, MODIFIED, DELETED) revises the namespaces with exactly '
                     'this event and the configured patterns')
    # ---- resources: the group of the changed CRD is re-scanned and revised as that very group
    f = repo.fn(f'{OBS}.process_discovered_resource_event')
    ctx.analysed(f)
    ev = param(f, 'raw_event')
    paths = absint.analyse(repo, f, absint.Config(effect_names={f'{OBS}.revise_resources': 'revise', f'{SCAN}.scan_resources': 'scan', f'{REF}.Backbone.fill': 'fill'}))

    def observe2(p):
        sc, rv, fl = p.effects('scan'), p.effects('revise'), p.effects('fill')
        if len(sc) != 1 or len(rv) != 1:
            return (len(sc), len(rv), 'x')
        gs, grp = sc[0].kw.get('groups'), rv[0].kw.get('group')
        one_group = gs is not None and gs.kind == 'coll' and gs.data[0] == 'display' and len(gs.data[1]) == 1 and grp is not None and gs.data[1][0].key == grp.key
        from_event = grp is not None and grp.key.startswith(f"{ev}['object']") and "['group']" in grp.key
        same = rv[0].kw.get('resources') is not None and rv[0].kw['resources'].key == sc[0].key and all(e.kw.get('resources') is not None and e.kw['resources'].key == sc[0].key for e in fl)
        return (1, 1, 'same group, of the event, scanned resources' if one_group and from_event and same else
                f'scan {gs.key[:40] if gs else None} / revise group={grp.key[:40] if grp else None}' + ('' if same else ' / other resources revised than scanned'))
    table_check(ctx, rule, f, paths, {'NONE': rf"^isnone\({ev}\['type'\]\)$"},
                lambda v: SKIP if v['NONE'] else (1, 1, 'same group, of the event, scanned resources'), observe2,
                what='process_discovered_resource_event: every streamed CRD event re-scans exactly the API group of that CRD and revises the served resources of '
                     'exactly that group with exactly the scanned resources (a partial scan revised as "all groups" would drop every other served resource)')


def check_namespace_observer(ctx: Ctx, rule: str) -> None:
    repo = ctx.repo
    f, g = cfg_of(ctx, f'{OBS}.namespace_observer')
    cw, nss = param(f, 'clusterwide'), param(f, 'namespaces')

    def role(e: ast.AST) -> Optional[str]:
        d = dotted(e) or ''
        return 'CW' if d == cw else 'DIS' if d.endswith('scanning.disabled') else None
    leaf = role_leaf(role)
    A = ['truthy:CW', 'truthy:DIS']

    def guard(n, extra: Optional[tuple] = None) -> tuple[Callable[[dict], bool], set]:
        atoms: set = set()
        parts = []
        for t, o, _ in dominating_conditions(g, n):
            fn = bexpr(f, t, leaf, atoms)
            parts.append((fn, o))
        if extra is not None:
            parts.append((bexpr(f, extra[0], leaf, atoms), extra[1]))
        return (lambda v: all(bool(fn(v)) == o for fn, o in parts)), atoms

    dynamic = lambda v: not v['truthy:CW'] and not v['truthy:DIS']
    for callee, what in ((f'{FETCH}.list_objs', 'lists the namespaces'), (f'{QUEUE}.watcher', 'watches the namespaces')):
        nodes = g.call_nodes(callee)
        ctx.require_sites(rule, f'namespace_observer: {what}', len(nodes), 1, f.loc())
        for n in nodes:
            fn, atoms = guard(n)
            d = tt_diff(fn, dynamic, atoms | set(A))
            ctx.ob(rule, f'namespace_observer {what} iff the operator is neither cluster-wide nor restricted to exact names (scanning disabled)', d is None, loc=f.loc(n.stmt),
                   construct=construct(f, f'guard:{callee.rsplit(".", 1)[-1]}'), detail=d or '')
    # the fall-back population
    ups = g.stmt_nodes(lambda x: isinstance(x, ast.Call) and recv_is(x, 'update', 'namespaces'))
    cases = []
    for n in ups:
        c = [c for c in calls_in(n.stmt) if recv_is(c, 'update', 'namespaces')][0]
        a = org(f, c.args[0]) if c.args else None
        alts = [(a.body, (a.test, True)), (a.orelse, (a.test, False))] if isinstance(a, ast.IfExp) else [(a, None)]
        for val, extra in alts:
            o = org(f, val)
            kind = 'cluster' if isinstance(o, ast.Set) and len(o.elts) == 1 and is_none(o.elts[0]) else \
                'exact' if isinstance(o, ast.Call) and is_call_to(repo, f, o, f'{REF}.select_specific_namespaces') and o.args and dotted(o.args[0]) == nss else '?'
            fn, atoms = guard(n, extra)
            cases.append((kind, fn, atoms, n))
    ctx.require_sites(rule, 'namespace_observer: fall-back population of the namespaces', len(ups), 2, f.loc())
    for kind, fn, atoms, n in cases:
        want = (lambda v: v['truthy:CW']) if kind == 'cluster' else (lambda v: not v['truthy:CW'])
        bad = None
        for combo in itertools.product((False, True), repeat=len(sorted(atoms | set(A)))):
            v = dict(zip(sorted(atoms | set(A)), combo))
            if fn(v) and not (kind != '?' and want(v)):
                bad = ' '.join(f'{k}={int(b)}' for k, b in v.items())
                break
        ctx.ob(rule, 'namespace_observer: the cluster-wide marker {None} is served only by a cluster-wide operator; otherwise only the exact names among the '
               'configured patterns are assumed to exist', bad is None, loc=f.loc(n.stmt), construct=construct(f, f'table:fallback:{kind}'),
               detail=f'`{kind}` namespaces are set when {bad}' if bad else '')
    for v in ({'truthy:CW': True, 'truthy:DIS': False}, {'truthy:CW': True, 'truthy:DIS': True}, {'truthy:CW': False, 'truthy:DIS': True}):
        want_kind = 'cluster' if v['truthy:CW'] else 'exact'
        hit = [k for k, fn, atoms, n in cases if k == want_kind and fn(DefaultFalse(v))]
        ctx.ob(rule, f'namespace_observer: with clusterwide={v["truthy:CW"]}, scanning.disabled={v["truthy:DIS"]} the served namespaces are populated with the {want_kind} ones',
               bool(hit), loc=f.loc(), construct=construct(f, f'table:fallback:CW={int(v["truthy:CW"])},DIS={int(v["truthy:DIS"])}'))
    # readiness is signalled only after the population
    ready = g.stmt_nodes(lambda x: isinstance(x, ast.Call) and recv_is(x, 'set', 'ready_namespaces'))
    muts = g.stmt_nodes(lambda x: _insight_mutation(repo, f, x))
    ctx.require_sites(rule, 'namespace_observer: readiness of the namespaces', len(ready), 1, f.loc())
    ctx.ob(rule, 'namespace_observer: the namespaces are declared ready only after they were populated, and the streaming starts after that', bool(ready) and bool(muts)
           and not g.dominated(ready, muts) and not g.dominated(g.call_nodes(f'{QUEUE}.watcher'), ready), loc=f.loc(ready[0].stmt) if ready else f.loc(),
           construct=construct(f, 'order:populate<ready<watch'))



# ============================================================================================== C19: references
def _self_fields(e: ast.AST, owner: str) -> Optional[list[str]]:
    if isinstance(e, ast.Tuple) and e.elts and all(isinstance(x, ast.Attribute) and dotted(x.value) == owner for x in e.elts):
        return [x.attr for x in e.elts]
    return None


def check_resource_identity(ctx: Ctx, rule: str) -> None:
    repo = ctx.repo
    eq, hs, url = repo.fn(f'{REF}.Resource.__eq__'), repo.fn(f'{REF}.Resource.__hash__'), repo.fn(f'{REF}.Resource.get_url')
    ctx.analysed(eq, hs, url)
    me, other = self_name(eq), eq.params()[1].arg
    mine = [t for n in walk_no_defs(eq.node) for t in [_self_fields(n, me)] if t]
    theirs = [t for n in walk_no_defs(eq.node) for t in [_self_fields(n, other)] if t]
    hashed = [t for n in walk_no_defs(hs.node) for t in [_self_fields(n, self_name(hs))] if t]
    ok = len(mine) == 1 and len(theirs) == 1 and mine[0] == theirs[0]
    ctx.ob(rule, 'Resource.__eq__ compares the same identifying fields of both resources, position by position', ok, loc=eq.loc(),
           construct=construct(eq, 'keys:self-fields = other-fields'), detail=f'{mine} vs {theirs}')
    cmp_ok = False
    for n in walk_no_defs(eq.node):
        if isinstance(n, ast.Compare) and len(n.ops) == 1 and isinstance(n.ops[0], ast.Eq):
            sides = {tuple(_self_fields(org(eq, x) or x, me) or ()) for x in (n.left, n.comparators[0])} | {tuple(_self_fields(org(eq, x) or x, other) or ()) for x in (n.left, n.comparators[0])}
            cmp_ok = cmp_ok or (ok and tuple(mine[0]) in sides)
    ctx.ob(rule, 'Resource.__eq__: two resources are equal iff those field tuples are equal (`==`)', cmp_ok, loc=eq.loc(), construct=construct(eq, 'formula:tuple equality'))
    ctx.ob(rule, 'Resource.__hash__ hashes only fields that __eq__ compares (equal watch keys hash equally: one dictionary entry per key)',
           len(hashed) == 1 and ok and set(hashed[0]) <= set(mine[0]), loc=hs.loc(), construct=construct(hs, 'keys:hash fields within eq fields'), detail=f'{hashed} vs {mine}')
    parts = [n for n in walk_no_defs(url.node) if isinstance(n, ast.List) and len(n.elts) >= 5]
    endpoint = {x.attr for l in parts for x in l.elts if isinstance(x, ast.Attribute) and dotted(x.value) == self_name(url)}
    ctx.ob(rule, f'Resource identity covers every field that forms the API endpoint ({sorted(endpoint)}): resources with different endpoints are different watch keys',
           ok and bool(endpoint) and endpoint <= set(mine[0]), loc=eq.loc(), construct=construct(eq, 'keys:identity covers endpoint fields'), detail=f'identity {mine}, endpoint {sorted(endpoint)}')
    ek = repo.cls(f'{ORC}.EnsembleKey')
    fields = [s.target.id for s in ek.node.body if isinstance(s, ast.AnnAssign) and isinstance(s.target, ast.Name)]
    ctx.ob(rule, 'EnsembleKey is a plain (resource, namespace) tuple: a watch is identified by both', fields == ['resource', 'namespace'] and any(b.endswith('NamedTuple') for b in ek.bases),
           loc=ek.module.relpath(), construct=f'{ek.qualname}:keys:(resource, namespace)', detail=str(fields))


def check_get_url(ctx: Ctx, rule: str) -> None:
    repo = ctx.repo
    f = repo.fn(f'{REF}.Resource.get_url')
    ctx.analysed(f)
    me, ns, name, sub, params = self_name(f), param(f, 'namespace'), param(f, 'name'), param(f, 'subresource'), param(f, 'params')
    paths = absint.analyse(repo, f, absint.Config())
    atoms = {'SUB0': rf'^isnone\({sub}\)$', 'NAME0': rf'^isnone\({name}\)$', 'NSD': rf'^truthy\({me}\.namespaced\)$', 'NS0': rf'^isnone\({ns}\)$'}
    table_check(ctx, rule, f, paths, atoms,
                lambda v: 'raise' if (not v['SUB0'] and v['NAME0']) or (not v['NSD'] and not v['NS0']) or (v['NSD'] and v['NS0'] and not v['NAME0']) else 'return',
                lambda p: p.status, what='Resource.get_url refuses the unaddressable combinations (subresource without a name, a namespace for a cluster-scoped '
                                         'resource, a named object of a namespaced resource without a namespace) and nothing else')
    lists = [n for n in walk_no_defs(f.node) if isinstance(n, ast.List) and len(n.elts) >= 5]
    if len(lists) != 1:
        raise AnalysisError(f'{f.loc()}: expected one list of URL path parts in {f.short}')
    parts = lists[0]

    def role(e: ast.AST) -> Optional[str]:
        d = dotted(e)
        if d == f'{me}.namespaced':
            return 'namespaced'
        if d == ns:
            return 'namespace'
        if d in (f'{me}.group', f'{me}.version'):
            return d.split('.')[1]
        if isinstance(e, ast.Constant) and isinstance(e.value, str):
            return repr(e.value)
        return None
    pos: dict[str, int] = {}
    for i, e in enumerate(parts.elts):
        v = e.body if isinstance(e, ast.IfExp) else e
        d = dotted(v)
        key = {f'{me}.group': 'group', f'{me}.version': 'version', f'{me}.plural': 'plural', name: 'name', sub: 'subresource', ns: 'namespace'}.get(d or '')
        if key is None and isinstance(v, ast.Constant) and v.value == 'namespaces':
            key = 'namespaces'
        if key is None and i == 0:
            key = 'prefix'
        if key is not None:
            pos[key] = i
        if key in ('namespaces', 'namespace'):
            ok = isinstance(e, ast.IfExp) and is_none(e.orelse)
            if ok:
                formula_ob(ctx, rule, f, e.test, role_leaf(role), lambda v: v['truthy:namespaced'] and not v['none:namespace'], ['truthy:namespaced', 'none:namespace'],
                           f'Resource.get_url: the `{key}` path segment is present iff the resource is namespaced and a namespace is given (else the cluster-wide endpoint)',
                           f'formula:segment:{key}', e)
            else:
                ctx.ob(rule, f'Resource.get_url: the `{key}` path segment is conditional', False, loc=f.loc(e), construct=construct(f, f'formula:segment:{key}'), detail=norm(e))
        if key == 'prefix':
            ok = isinstance(e, ast.IfExp) and isinstance(e.body, ast.Constant) and isinstance(e.orelse, ast.Constant)
            if ok:
                core_first = e.body.value == '/api'
                formula_ob(ctx, rule, f, e.test, role_leaf(role), (lambda v: v["eq:'',group"] and v["eq:'v1',version"]) if core_first else (lambda v: not (v["eq:'',group"] and v["eq:'v1',version"])),
                           ["eq:'',group", "eq:'v1',version"], 'Resource.get_url: the legacy `/api` root is used exactly for the core group "" at version v1, `/apis` otherwise',
                           'formula:api root', e)
    want = ['prefix', 'group', 'version', 'namespaces', 'namespace', 'plural', 'name', 'subresource']
    order = [k for k in sorted(pos, key=lambda k: pos[k])]
    ctx.ob(rule, 'Resource.get_url: the path is root/group/version[/namespaces/<namespace>]/plural[/name[/subresource]] in this order', order == want, loc=f.loc(parts),
           construct=construct(f, 'order:path segments'), detail=' / '.join(order))
    # the joined path keeps the order and drops only empty parts; the params become the query
    joins = [c for c in calls_in(f.node) if method_call(c, 'join') is not None and c.args]
    ok = False
    for c in joins:
        a = c.args[0]
        if isinstance(a, (ast.ListComp, ast.GeneratorExp)) and len(a.generators) == 1 and isinstance(org(f, a.generators[0].iter), ast.List) and org(f, a.generators[0].iter) is parts:
            g0 = a.generators[0]
            ok = isinstance(g0.target, ast.Name) and dotted(a.elt) == g0.target.id and all(dotted(i) == g0.target.id for i in g0.ifs)
        elif org(f, a) is parts:
            ok = True
    ctx.ob(rule, 'Resource.get_url: the path is the parts joined in their order, only empty parts left out', ok, loc=f.loc(joins[0]) if joins else f.loc(),
           construct=construct(f, 'flow:join(parts)'))
    enc = [c for c in calls_in(f.node) if (repo.resolve(f.module, c.func) or '').endswith('urlencode') and c.args and dotted(c.args[0]) == params]
    rets = [n for n in walk_no_defs(f.node) if isinstance(n, ast.Return) and n.value is not None]
    seen: set = set()
    todo = [r.value for r in rets]
    reached = set()
    while todo:
        e = todo.pop()
        for n in ast.walk(e):
            if isinstance(n, ast.Call):
                reached.add(id(n))
            if isinstance(n, ast.Name) and n.id not in seen:
                seen.add(n.id)
                todo.extend(defs_of(f, n.id))
    ctx.ob(rule, 'Resource.get_url: the given params (watch=true, resourceVersion=...) are encoded into the query of the returned URL', bool(enc) and all(id(c) in reached for c in enc)
           and bool(joins) and any(id(c) in reached for c in joins), loc=f.loc(), construct=construct(f, 'flow:params->query'))


SELECTOR_FIELDS = ('group', 'version', 'kind', 'plural', 'singular', 'category', 'shortcut', 'any_name', 'fn')


def _conjuncts(f: FuncInfo) -> Optional[list[ast.AST]]:
    """Conjuncts of a predicate written as `return a and b and ...`, possibly preceded by `if <c>: return False` guards."""
    out: list[ast.AST] = []
    for s in absint._body(f):
        if isinstance(s, ast.If) and not s.orelse and len(s.body) == 1 and isinstance(s.body[0], ast.Return) and isinstance(s.body[0].value, ast.Constant) and s.body[0].value.value is False:
            out.append(ast.UnaryOp(ast.Not(), s.test))
        elif isinstance(s, ast.Return) and s.value is not None:
            todo = [s.value]
            while todo:
                e = todo.pop(0)
                if isinstance(e, ast.BoolOp) and isinstance(e.op, ast.And):
                    todo = list(e.values) + todo
                elif not (isinstance(e, ast.Constant) and e.value is True):
                    out.append(e)
            return out
        elif isinstance(s, (ast.Assign, ast.AnnAssign)):
            continue
        else:
            return None
    return None


def check_selector_check(ctx: Ctx, rule: str) -> None:
    repo = ctx.repo
    f = repo.fn(f'{REF}.Selector.check')
    ctx.analysed(f)
    me, res = self_name(f), f.params()[1].arg

    def role(e: ast.AST) -> Optional[str]:
        d = dotted(e)
        if d and d.startswith(me + '.') and d.count('.') == 1:
            return 'sel.' + d.split('.')[1]
        if d and d.startswith(res + '.') and d.count('.') == 1:
            return 'res.' + d.split('.')[1]
        if d and (repo.resolve(f.module, e) or '').endswith('Marker.EVERYTHING'):
            return 'EVERYTHING'
        if isinstance(e, ast.Call) and len(e.args) == 1 and dotted(e.args[0]) == res and not e.keywords:
            if dotted(e.func) == f'{me}.fn':
                return 'fn()'
            r = method_call(e, 'check')
            q = repo.resolve(f.module, r) if r is not None else None
            if q in (f'{REF}.EVENTS', f'{REF}.EVENTS_K8S'):
                return q.rsplit('.', 1)[1]
        return None
    leaf = role_leaf(role)
    conj = _conjuncts(f)
    if conj is None:
        raise AnalysisError(f'{f.loc()}: {f.short} is not a conjunction of criteria')
    by_field: dict[str, list] = {}
    stray = []
    for c in conj:
        fields = {role(n)[4:] for n in ast.walk(c) if isinstance(n, ast.Attribute) and (role(n) or '').startswith('sel.')}
        key = 'version' if 'version' in fields else next(iter(fields)) if len(fields) == 1 else None
        if key is None or key not in SELECTOR_FIELDS:
            stray.append(c)
        else:
            by_field.setdefault(key, []).append(c)
    ctx.ob(rule, 'Selector.check: every conjunct constrains one declared criterion of the selector', not stray, loc=f.loc(stray[0]) if stray else f.loc(),
           construct=construct(f, 'formula:conjuncts'), detail='; '.join(norm(c, 60) for c in stray[:2]))
    not_events = lambda v: not v['truthy:EVENTS'] and not v['truthy:EVENTS_K8S']
    specs: dict[str, Callable[[dict], bool]] = {
        'version': lambda v: (v['none:sel.version'] and (v['truthy:res.preferred'] or not v['none:sel.fn'])) or (not v['none:sel.version'] and v['eq:res.version,sel.version']),
        'category': lambda v: v['none:sel.category'] or v['in:sel.category,res.categories'],
        'shortcut': lambda v: v['none:sel.shortcut'] or v['in:sel.shortcut,res.shortcuts'],
        'any_name': lambda v: v['none:sel.any_name'] or v['eq:res.kind,sel.any_name'] or v['eq:res.plural,sel.any_name'] or v['eq:res.singular,sel.any_name']
        or v['in:sel.any_name,res.shortcuts'] or (v['eq:EVERYTHING,sel.any_name'] and not_events(v)),
        'fn': lambda v: v['none:sel.fn'] or (v['truthy:fn()'] and not_events(v)),
    }
    for x in ('group', 'kind', 'plural', 'singular'):
        specs[x] = (lambda x: lambda v: v[f'none:sel.{x}'] or v[f'eq:res.{x},sel.{x}'])(x)
    texts = {'version': 'an unversioned selector matches only the preferred version (any version for callable selectors), a versioned one exactly its version',
             'any_name': 'a name matches the kind, plural, singular or a short name; EVERYTHING matches all but the events resources',
             'fn': 'a callable selector matches what the callable accepts, events resources excluded',
             'category': 'a category matches a member of the categories', 'shortcut': 'a short name matches a member of the short names'}
    for field in SELECTOR_FIELDS:
        cs = by_field.get(field, [])
        e = cs[0] if len(cs) == 1 else ast.BoolOp(ast.And(), cs) if cs else ast.Constant(True)
        atoms: set = set()
        code = bexpr(f, e, leaf, atoms)
        d = tt_diff(code, specs[field], atoms)
        spec_atoms = spec_support(specs[field])
        if d is None:
            d = tt_diff(code, specs[field], atoms | spec_atoms)
        ctx.count('valuations', 2 ** len(atoms | spec_atoms))
        ctx.ob(rule, f'Selector.check, criterion `{field}`: ' + texts.get(field, f'an unset {field} matches anything, a set one exactly the resource\'s {field}'), d is None,
               loc=f.loc(cs[0]) if cs else f.loc(), construct=construct(f, f'formula:criterion:{field}'), detail=(d or '') if cs else 'the criterion is not evaluated at all')


def check_selector_select(ctx: Ctx, rule: str) -> None:
    repo = ctx.repo
    f = repo.fn(f'{REF}.Selector.select')
    ctx.analysed(f)
    me, rs = self_name(f), f.params()[1].arg
    comps = [n for n in walk_no_defs(f.node) if isinstance(n, (ast.SetComp, ast.ListComp)) and len(n.generators) == 1 and dotted(n.generators[0].iter) == rs]
    ok = False
    for c in comps:
        g0 = c.generators[0]
        ok = ok or (isinstance(g0.target, ast.Name) and dotted(c.elt) == g0.target.id and len(g0.ifs) == 1 and isinstance(g0.ifs[0], ast.Call)
                    and dotted(g0.ifs[0].func) == f'{me}.check' and len(g0.ifs[0].args) == 1 and dotted(g0.ifs[0].args[0]) == g0.target.id)
    ctx.ob(rule, 'Selector.select: the base selection is exactly the given resources that pass check()', ok, loc=f.loc(), construct=construct(f, 'flow:{r for r in resources if check(r)}'))
    paths = absint.analyse(repo, f, absint.Config(inline_props=set()))
    bad = []
    rows = set()
    for p in paths:
        spec_v = p.atom(rf'^truthy\({me}\.is_specific\)$')
        rv = p.retval.key if p.retval is not None else ''
        narrowed = '.group' in rv           # the returned selection is the one filtered by the resources' group
        inner = [v for k, v in p.atoms.items() if k.startswith('truthy(') and '.group' in k]
        rows.add((spec_v, tuple(inner)))
        if spec_v is None:
            bad.append('the preference for the core group does not depend on is_specific')
        elif spec_v is False and (narrowed or inner):
            bad.append('an unspecific selector (category, EVERYTHING, callable) is narrowed to the core group')
        elif spec_v is True and (not inner or narrowed != inner[0]):
            bad.append(f'a specific selector returns `{rv[:50]}` when the core-group subset is {"non-" if inner and inner[0] else ""}empty')
    ctx.count('paths', len(paths))
    ctx.ob(rule, 'Selector.select: only a specific selector prefers the core-group ("") resources, and only when there are any -- otherwise the whole selection '
           'is returned (custom resources stay selected)', not bad and len(rows) >= 3, loc=f.loc(), construct=construct(f, 'table:core group preference'), detail='; '.join(dict.fromkeys(bad)))
    sp = repo.fn(f'{REF}.Selector.is_specific')
    ctx.analysed(sp)
    me2 = self_name(sp)

    def role(e: ast.AST) -> Optional[str]:
        d = dotted(e)
        return d.split('.')[1] if d and d.startswith(me2 + '.') and d.count('.') == 1 else None

    def leaf(e: ast.AST):
        if isinstance(e, ast.Call) and dotted(e.func) == 'isinstance' and len(e.args) == 2 and role(e.args[0]) and (repo.resolve(sp.module, e.args[1]) or '').endswith('.Marker'):
            return (f'marker:{role(e.args[0])}', True)
        return role_leaf(role)(e)
    rets = [n.value for n in walk_no_defs(sp.node) if isinstance(n, ast.Return) and n.value is not None]
    formula_ob(ctx, rule, sp, rets[0] if len(rets) == 1 else None, leaf,
               lambda v: not v['none:kind'] or not v['none:shortcut'] or not v['none:plural'] or not v['none:singular'] or (not v['none:any_name'] and not v['marker:any_name']),
               ['none:kind', 'none:shortcut', 'none:plural', 'none:singular', 'none:any_name', 'marker:any_name'],
               'Selector.is_specific: specific = names one resource (kind, plural, singular, short name or a plain name); categories, EVERYTHING and callables are not '
               '(they may legitimately select many resources and are never "ambiguous")', 'formula:is_specific')


def check_backbone(ctx: Ctx, rule: str) -> None:
    repo = ctx.repo
    f, g = cfg_of(ctx, f'{REF}.Backbone.fill')
    me = self_name(f)
    writes = g.stmt_nodes(lambda x: isinstance(x, ast.Assign) and any(isinstance(t, ast.Subscript) and dotted(t.value) == f'{me}._items' for t in x.targets))
    notes = set(g.stmt_nodes(lambda x: isinstance(x, ast.Call) and recv_is(x, 'notify_all', '_revised')))
    ctx.require_sites(rule, 'Backbone.fill: registration of a found backbone resource', len(writes), 1, f.loc())
    for n in writes:
        t = [t for t in n.stmt.targets if isinstance(t, ast.Subscript)][0]
        spec, val = src(t.slice), n.stmt.value
        conds = dominating_conditions(g, n)

        def absent(e: ast.AST, o: bool) -> bool:
            return isinstance(e, ast.Compare) and len(e.ops) == 1 and isinstance(e.ops[0], ast.In) and o is False and src(e.left) == spec \
                and dotted(e.comparators[0]) in (f'{me}._items', me)

        def matches(e: ast.AST, o: bool) -> bool:
            r = method_call(e, 'check')
            return r is not None and src(r) == spec and o is True and len(e.args) == 1 and src(e.args[0]) == src(val)
        ctx.ob(rule, 'Backbone.fill: a backbone resource is registered only for a selector that checks it, and only once (the first one found stays: running tasks keep using it)',
               any(cond_implies(t_, o, absent) for t_, o, _ in conds) and any(cond_implies(t_, o, matches) for t_, o, _ in conds), loc=f.loc(n.stmt),
               construct=construct(f, 'guard:absent and spec.check(resource)'))
        lps = [fr.stmt for fr in n.frames if fr.kind == 'loop' and isinstance(fr.stmt, ast.For)]
        all_pairs = len(lps) == 2 and {dotted(strip(l.iter)) for l in lps} == {f'{me}.selectors', param(f, 'resources')} and not any(loop_escapes(l) for l in lps)
        ctx.ob(rule, 'Backbone.fill considers EVERY backbone selector against EVERY discovered resource', all_pairs, loc=f.loc(n.stmt), construct=construct(f, 'flow:all selectors x all resources'),
               detail='; '.join(norm(l.iter) for l in lps))
        wf = with_frames(n, '._revised')
        leaked = [m for m in g.reach([n], stop=lambda m: m in notes, edge_ok=normal_edges) if wf and wf[0] not in m.frames and m not in notes]
        ctx.ob(rule, 'Backbone.fill: registration happens under the backbone condition and its waiters (the observers waiting for the namespaces/CRD resources) are notified',
               bool(wf) and not leaked, loc=f.loc(n.stmt), construct=construct(f, 'atomic:fill+notify'))
    bi = repo.fn(f'{REF}.Backbone.__init__')
    ctx.analysed(bi)
    known = {repo.resolve(bi.module, e) for n in walk_no_defs(bi.node) if isinstance(n, ast.Assign) and any(isinstance(t, ast.Attribute) and t.attr == 'selectors' for t in n.targets)
             and isinstance(n.value, (ast.List, ast.Tuple)) for e in n.value.elts}
    needed = {}
    for fn, c in repo.call_sites_of(f'{REF}.Backbone.wait_for', exact=False):
        if not (dotted(method_call(c, 'wait_for')) or '').endswith('backbone'):
            continue
        a = kwarg(c, 'selector', 0)
        if isinstance(a, ast.Name) and any(p_.arg == a.id for p_ in fn.params()):
            # handed in by the callers (the webhook configuration managers): one level up
            for fn2 in repo.all_functions():
                for c2 in ast.walk(fn2.node):
                    if isinstance(c2, ast.Call) and kwarg(c2, a.id) is not None and any(fn.qualname.endswith('.' + (dotted(x) or '').rsplit('.', 1)[-1]) for x in [c2.func] + list(c2.args)):
                        q2 = repo.resolve(fn2.module, kwarg(c2, a.id))
                        if q2 and q2.startswith(REF + '.'):
                            needed[q2] = fn2.loc(c2)
            continue
        q = repo.resolve(fn.module, a) if a is not None else None
        needed[q or norm(a)] = fn.loc(c)
    gs = repo.fn(f'{PEER}.guess_selectors')
    for n in walk_no_defs(gs.node):
        if isinstance(n, ast.Return) and isinstance(n.value, (ast.List, ast.Tuple)):
            for e in n.value.elts:
                needed[repo.resolve(gs.module, e) or norm(e)] = gs.loc(n)
    missing = sorted(k for k in needed if k not in known)
    ctx.ob(rule, f'Backbone: every selector somebody waits for or looks up ({len(needed)}: namespaces, CRDs, peerings, ...) is among the selectors the backbone resolves -- else the '
           'observer of that dimension waits forever and nothing of it is ever served', bool(needed) and not missing, loc=needed[missing[0]] if missing else bi.loc(),
           construct=construct(bi, 'keys:selectors cover the waited ones'), detail=', '.join(m.rsplit('.', 1)[-1] for m in missing))
    w = repo.fn(f'{REF}.Backbone.wait_for')
    ctx.analysed(w)
    me, sel = self_name(w), w.params()[1].arg
    waits = [c for c in calls_in(w.node) if recv_is(c, 'wait_for', '_revised')]
    pred_ok = any(c.args and isinstance(c.args[0], ast.Lambda) and isinstance(c.args[0].body, ast.Compare) and isinstance(c.args[0].body.ops[0], ast.In)
                  and dotted(c.args[0].body.left) == sel and dotted(c.args[0].body.comparators[0]) in (me, f'{me}._items') for c in waits)
    rets = [n.value for n in walk_no_defs(w.node) if isinstance(n, ast.Return) and n.value is not None]
    ret_ok = bool(rets) and all(isinstance(r, ast.Subscript) and dotted(r.value) in (me, f'{me}._items') and dotted(r.slice) == sel for r in rets)
    ctx.ob(rule, 'Backbone.wait_for waits until the asked selector is resolved and returns the resource registered for that very selector', pred_ok and ret_ok, loc=w.loc(),
           construct=construct(w, 'flow:wait(selector in self) -> self[selector]'))


def check_match_namespace(ctx: Ctx, rule: str) -> None:
    repo = ctx.repo
    f = repo.fn(f'{REF}.match_namespace')
    ctx.analysed(f)
    name, pat = f.params()[0].arg, f.params()[1].arg
    loops = [n for n in walk_no_defs(f.node) if isinstance(n, ast.For) and isinstance(n.target, ast.Name)]
    rets = [n for n in f.node.body if isinstance(n, ast.Return)]
    if len(loops) != 1 or not rets or not isinstance(rets[-1].value, ast.Name):
        raise AnalysisError(f'{f.loc()}: expected one loop over the globs and a returned accumulator in {f.short}')
    loop, acc = loops[0], rets[-1].value.id
    init = [n for n in f.node.body if isinstance(n, ast.Assign) and any(isinstance(t, ast.Name) and t.id == acc for t in n.targets)]
    first = [t.id for n in init for t in n.targets if isinstance(t, ast.Name) and t.id != acc]
    ok_init = len(init) == 1 and len(first) == 1 and isinstance(init[0].value, ast.Call) and (repo.resolve(f.module, init[0].value.func) or '').endswith('fnmatch') \
        and dotted(init[0].value.args[0]) == name and isinstance(init[0].value.args[1], ast.Subscript) and src(init[0].value.args[1].slice) == '0'
    ctx.ob(rule, 'match_namespace: the verdict starts with the match of the NAME against the first glob, which is also remembered as the initial match', ok_init, loc=f.loc(init[0]) if init else f.loc(),
           construct=construct(f, 'flow:initial match'))
    rest = isinstance(loop.iter, ast.Subscript) and isinstance(loop.iter.slice, ast.Slice) and src(loop.iter.slice.lower) == '1' and loop.iter.slice.upper is None \
        and isinstance(init[0].value.args[1], ast.Subscript) and src(loop.iter.value) == src(init[0].value.args[1].value) if ok_init else False
    ctx.ob(rule, 'match_namespace: all the remaining globs are applied, left to right', bool(rest) and not loop_escapes(loop), loc=f.loc(loop), construct=construct(f, 'flow:globs[1:]'))
    if ok_init:
        env = {loop.target.id: absint.sym('glob'), acc: absint.sym('M'), first[0]: absint.sym('F'), name: absint.sym('name')}
        it = absint.Interp(repo, f, absint.Config())
        p0 = absint.Path()
        p0.env.update(env)
        rows = []
        for p in it.run_block(loop.body, [p0]):
            for q, b in it.truth_value(p.env[acc], p):
                rows.append((q, b))
        res = {id(q): b for q, b in rows}
        atoms = {'NEG': r"^truthy\(glob\.startswith\('!'\)\)$", 'M': r'^truthy\(M\)$', 'F': r'^truthy\(F\)$', 'G': r'^truthy\(fnmatch\.fnmatch\(name, glob'}
        table_check(ctx, rule, f, [q for q, _ in rows], atoms, lambda v: (v['M'] and not v['G']) if v['NEG'] else (v['M'] or (v['F'] and v['G'])), lambda q: res[id(q)],
                    what='match_namespace, one further glob: an exclusion `!glob` un-matches a matched name; an inclusion re-matches only a name that passed the first glob')
    # regular expressions are matched as a whole; a leading exclusion implies a catch-all
    rx = [c for c in calls_in(f.node) if isinstance(c.func, ast.Attribute) and dotted(c.func.value) == pat and c.func.attr in ('fullmatch', 'match', 'search', 'findall')]
    ctx.ob(rule, 'match_namespace: a compiled regular expression must match the WHOLE namespace name', bool(rx) and all(c.func.attr == 'fullmatch' and c.args and dotted(c.args[0]) == name for c in rx),
           loc=f.loc(rx[0]) if rx else f.loc(), construct=construct(f, 'config:fullmatch'))
    ins = [n for n in walk_no_defs(f.node) if isinstance(n, ast.If) and any(method_call(c, 'insert') is not None and len(c.args) == 2 and isinstance(c.args[1], ast.Constant) and c.args[1].value == '*'
                                                                          and src(c.args[0]) == '0' for c in calls_in(ast.Module(n.body, [])))]

    def leaf(e: ast.AST):
        if isinstance(e, ast.Call) and method_call(e, 'startswith') is not None and e.args and isinstance(e.args[0], ast.Constant) and e.args[0].value == '!' \
                and isinstance(method_call(e, 'startswith'), ast.Subscript) and src(method_call(e, 'startswith').slice) == '0':
            return ('first-is-exclusion', True)
        return ('globs', True)
    formula_ob(ctx, rule, f, ins[0].test if len(ins) == 1 else None, leaf, lambda v: not v['globs'] or v['first-is-exclusion'], ['globs', 'first-is-exclusion'],
               'match_namespace: a catch-all `*` is implied in front exactly when the pattern starts with an exclusion', 'formula:implied catch-all')
    # the fallback of the observer: only patterns without any of the special characters are taken as namespace names
    s = repo.fn(f'{REF}.select_specific_namespaces')
    ctx.analysed(s)
    chars = set()
    for n in walk_no_defs(s.node):
        if isinstance(n, ast.Compare) and len(n.ops) == 1 and isinstance(n.ops[0], ast.In) and isinstance(n.left, ast.Constant) and isinstance(n.left.value, str):
            chars.add(n.left.value)
    filters = [i for n in walk_no_defs(s.node) for i in comp_filters(n)]
    neg = False
    for i in filters:
        atoms: set = set()
        code = bexpr(s, i, lambda e: ('special', True) if isinstance(e, ast.Compare) and isinstance(e.ops[0], ast.In) and isinstance(e.left, ast.Constant) else None, atoms)
        if atoms == {'special'}:
            neg = code({'special': False}) and not code({'special': True})
    ctx.ob(rule, 'select_specific_namespaces: a pattern is assumed to be an existing namespace only if it contains none of the pattern syntax of match_namespace (! * ? ,)',
           chars >= {'!', '*', '?', ','} and neg, loc=s.loc(), construct=construct(s, 'formula:no special characters'), detail=str(sorted(chars)))



# ============================================================================================== C19 / C13: orchestration
def union_leaves(f: FuncInfo, e: Optional[ast.AST], depth: int = 0) -> list[tuple[str, str]]:
    """Leaves of a set union; locals are followed only through pure unions (a filtered comprehension stays a named leaf)."""
    e = strip(e)
    if e is None or depth > 6:
        return [('?', src(e))]
    if isinstance(e, ast.BinOp) and isinstance(e.op, ast.BitOr):
        return union_leaves(f, e.left, depth + 1) + union_leaves(f, e.right, depth + 1)
    if isinstance(e, ast.Call) and method_call(e, 'union') is not None:
        return [l for x in [method_call(e, 'union')] + list(e.args) for l in union_leaves(f, x, depth + 1)]
    if isinstance(e, (ast.Set, ast.List, ast.Tuple)):
        return [('elt', src(x)) for x in e.elts]
    if isinstance(e, ast.Call) and dotted(e.func) in ('set', 'frozenset', 'list') and len(e.args) == 1:
        return union_leaves(f, e.args[0], depth + 1)
    if isinstance(e, ast.Name):
        o = origin(f, e, 1)
        if o is not e and isinstance(strip(o), (ast.BinOp, ast.Set, ast.Attribute, ast.Name)):
            return union_leaves(f, o, depth + 1)
        return [('all', e.id)]
    if isinstance(e, ast.Attribute) and dotted(e):
        return [('all', dotted(e))]
    return [('?', src(e, 60))]


def _ensemble_maps(repo) -> tuple[set, set, set]:
    cls = repo.cls(f'{ORC}.Ensemble')
    keyed, tasks, flags = set(), set(), set()
    for s in cls.node.body:
        if isinstance(s, ast.AnnAssign) and isinstance(s.target, ast.Name) and isinstance(s.annotation, ast.Subscript) and dotted(s.annotation.value) == 'dict':
            el = s.annotation.slice.elts if isinstance(s.annotation.slice, ast.Tuple) else []
            if len(el) == 2 and (dotted(el[0]) or '').endswith('EnsembleKey'):
                keyed.add(s.target.id)
                (tasks if 'Task' in src(el[1]) else flags if 'Toggle' in src(el[1]) else set()).add(s.target.id)
    if len(keyed) < 4 or not tasks or not flags:
        raise AnalysisError(f'{cls.module.relpath()}: the key-indexed maps of Ensemble were not recognised ({sorted(keyed)})')
    return keyed, tasks, flags


def _self_maps(f: FuncInfo, node: ast.AST) -> set:
    me = self_name(f)
    return {n.attr for n in ast.walk(node) if isinstance(n, ast.Attribute) and dotted(n.value) == me}


def check_ensemble(ctx: Ctx, rule: str) -> None:
    repo = ctx.repo
    keyed, tasks, flags = _ensemble_maps(repo)
    f = repo.fn(f'{ORC}.Ensemble.get_keys')
    ctx.analysed(f)
    rets = [n.value for n in walk_no_defs(f.node) if isinstance(n, ast.Return) and n.value is not None]
    used = set().union(*[_self_maps(f, r) for r in rets]) if rets else set()
    filt = [i for r in rets for n in ast.walk(r) for i in comp_filters(n)]
    ctx.ob(rule, f'Ensemble.get_keys: the known keys are the union of ALL key-indexed maps {sorted(keyed)} (a key present in any map can be found redundant and be terminated)',
           used >= keyed and not filt and len(rets) == 1, loc=f.loc(), construct=construct(f, 'keys:all maps'), detail=f'covers {sorted(used & keyed)}')
    for name, maps, what in (('get_tasks', tasks, 'tasks'), ('get_flags', flags, 'pause toggles')):
        f = repo.fn(f'{ORC}.Ensemble.{name}')
        ctx.analysed(f)
        keys = f.params()[1].arg
        rets = [n.value for n in walk_no_defs(f.node) if isinstance(n, ast.Return) and n.value is not None]
        comp = org(f, rets[0]) if len(rets) == 1 else None
        ok = isinstance(comp, (ast.SetComp, ast.ListComp, ast.GeneratorExp)) or (isinstance(comp, ast.Call) and comp.args and isinstance(comp.args[0], (ast.GeneratorExp, ast.ListComp, ast.SetComp)))
        comp = comp.args[0] if ok and isinstance(comp, ast.Call) else comp
        used = _self_maps(f, comp) if ok else set()
        detail = f'covers {sorted(used & maps)}'
        good = ok and (used & keyed) == maps
        if good:
            inner = comp.generators[-1]
            tgt = inner.target.elts if isinstance(inner.target, ast.Tuple) and len(inner.target.elts) == 2 else None
            kv, vv = (tgt[0].id, tgt[1].id) if tgt and all(isinstance(t, ast.Name) for t in tgt) else (None, None)
            ifs = [i for g_ in comp.generators for i in g_.ifs]
            cond = ifs[0] if len(ifs) == 1 else ast.BoolOp(ast.And(), ifs) if ifs else ast.Constant(True)
            atoms: set = set()
            code = bexpr(f, cond, role_leaf(lambda e: 'key' if dotted(e) == kv else 'keys' if dotted(e) == keys else None), atoms)
            d = tt_diff(code, lambda v: v['in:key,keys'], atoms | {'in:key,keys'})
            good = d is None and dotted(comp.elt) == vv and '.items' in src(inner.iter)
            detail = d or detail
        ctx.ob(rule, f'Ensemble.{name}: returns the {what} of exactly the given keys from ALL of {sorted(maps)} (every task of a redundant key is stopped, none of a wanted key)',
               bool(good), loc=f.loc(), construct=construct(f, 'keys:all maps, key in keys'), detail=detail)
    f, g = cfg_of(ctx, f'{ORC}.Ensemble.del_keys')
    keys = f.params()[1].arg
    dels = g.stmt_nodes(lambda x: isinstance(x, ast.Delete) and any(isinstance(t, ast.Subscript) for t in x.targets))
    ctx.require_sites(rule, 'Ensemble.del_keys: deletion of an entry', len(dels), 1, f.loc())
    covered: set = set()
    for n in dels:
        t = [t for t in n.stmt.targets if isinstance(t, ast.Subscript)][0]
        loops = [fr.stmt for fr in n.frames if fr.kind == 'loop' and isinstance(fr.stmt, ast.For)]
        dvar, kvar = dotted(t.value), dotted(t.slice)
        outer = [l for l in loops if dotted(l.target) == dvar]
        inner = [l for l in loops if dotted(l.target) == kvar]
        maps = _self_maps(f, outer[0].iter) if outer else ({t.value.attr} if isinstance(t.value, ast.Attribute) else set())
        covered |= maps
        snap = bool(inner) and isinstance(inner[0].iter, ast.Call) and dotted(inner[0].iter.func) in ('set', 'list', 'tuple', 'frozenset', 'sorted') \
            and inner[0].iter.args and (dotted(inner[0].iter.args[0]) == dvar or src(inner[0].iter.args[0]) in (f'{dvar}.keys()',))
        conds = [(t_, o) for t_, o, _ in dominating_conditions(g, n) if not isinstance(t_, ast.Constant)]
        only_member = len(conds) >= 1 and all(cond_implies(t_, o, lambda e, oo: isinstance(e, ast.Compare) and isinstance(e.ops[0], ast.In) and oo is True
                                                           and dotted(e.left) == kvar and dotted(e.comparators[0]) == keys) for t_, o in conds)
        ctx.ob(rule, 'Ensemble.del_keys: an entry is deleted iff its key is among the given keys, iterating over a snapshot of the map (deleting from the map being '
               'iterated raises and kills the orchestrator)', snap and only_member, loc=f.loc(n.stmt), construct=construct(f, f'guard:del:{"+".join(sorted(maps))}'),
               detail=('' if snap else 'iterates the live map; ') + ('' if only_member else 'the deletion is not guarded by exactly `key in keys`'))
    ctx.ob(rule, f'Ensemble.del_keys: the given keys are removed from ALL key-indexed maps {sorted(keyed)} (a left-over entry blocks the re-spawn: `dkey not in ...` stays false)',
           covered >= keyed, loc=f.loc(), construct=construct(f, 'keys:all maps deleted'), detail=f'covers {sorted(covered & keyed)}')


def check_terminate(ctx: Ctx, rule: str) -> None:
    repo = ctx.repo
    f, g = cfg_of(ctx, f'{ORC}.terminate_redundancies')
    rr, rn = param(f, 'remaining_resources'), param(f, 'remaining_namespaces')
    dels = [c for c in calls_in(f.node) if is_call_to(repo, f, c, f'{ORC}.Ensemble.del_keys')]
    ctx.require_sites(rule, 'terminate_redundancies: removal of the redundant keys', len(dels), 1, f.loc())
    for c in dels:
        karg = kwarg(c, 'keys', 0)
        comp = org(f, karg)
        ok = isinstance(comp, (ast.SetComp, ast.ListComp)) and len(comp.generators) == 1 and isinstance(comp.generators[0].target, ast.Name) \
            and isinstance(strip(comp.generators[0].iter), ast.Call) and is_call_to(repo, f, strip(comp.generators[0].iter), f'{ORC}.Ensemble.get_keys') \
            and dotted(comp.elt) == comp.generators[0].target.id
        if not ok:
            ctx.ob(rule, 'terminate_redundancies: the redundant keys are selected from all known keys of the ensemble', False, loc=f.loc(c), construct=construct(f, 'formula:redundant'),
                   detail=norm(comp))
            continue
        var = comp.generators[0].target.id
        ifs = comp.generators[0].ifs
        cond = ifs[0] if len(ifs) == 1 else ast.BoolOp(ast.And(), ifs) if ifs else ast.Constant(True)

        def role(e: ast.AST) -> Optional[str]:
            return {f'{var}.namespace': 'ns', f'{var}.resource': 'res', rr: 'RR', rn: 'RN'}.get(dotted(e) or '')
        formula_ob(ctx, rule, f, cond, role_leaf(role), lambda v: not v['in:ns,RN'] or not v['in:res,RR'], ['in:ns,RN', 'in:res,RR'],
                   'terminate_redundancies: a key is redundant iff its namespace is no longer served OR its resource is no longer served (a watch for anything else '
                   'than a served pair is stopped; a served pair keeps its watch)', 'formula:redundant', comp)
        users = {}
        for callee in ('get_tasks', 'get_flags'):
            cs = [x for x in calls_in(f.node) if is_call_to(repo, f, x, f'{ORC}.Ensemble.{callee}')]
            users[callee] = bool(cs) and all(src(kwarg(x, 'keys', 0)) == src(karg) for x in cs)
        drops = [x for x in calls_in(f.node) if method_call(x, 'drop_toggles') is not None]
        flags_ok = bool(drops) and all(x.args and isinstance(org(f, x.args[0]), ast.Call) and is_call_to(repo, f, org(f, x.args[0]), f'{ORC}.Ensemble.get_flags')
                                       and (dotted(method_call(x, 'drop_toggles')) or '').endswith('operator_paused') for x in drops)
        gf = g.call_nodes(f'{ORC}.Ensemble.get_flags') + g.call_nodes(f'{ORC}.Ensemble.get_tasks')
        dn = g.call_nodes(f'{ORC}.Ensemble.del_keys')
        before = bool(gf) and all(n not in g.reach(dn) for n in gf)
        ctx.ob(rule, 'terminate_redundancies: the tasks that are stopped, the pause toggles that are dropped from the operator\'s pause set, and the entries that are deleted '
               'all belong to the same redundant keys, and are looked up before the entries are deleted', users.get('get_tasks') and users.get('get_flags') and flags_ok and before,
               loc=f.loc(c), construct=construct(f, 'flow:same redundant keys'), detail=f'{users}, toggles dropped from the pause set: {flags_ok}, looked up first: {before}')


def check_adjust_tasks(ctx: Ctx, rule: str) -> None:
    repo = ctx.repo
    f = repo.fn(f'{ORC}.adjust_tasks')
    ctx.analysed(f)
    ins = param(f, 'insights')

    def one(callee: str) -> ast.Call:
        cs = [c for c in calls_in(f.node) if is_call_to(repo, f, c, f'{ORC}.{callee}')]
        if len(cs) != 1:
            raise AnalysisError(f'{f.loc()}: expected one call of {callee} in adjust_tasks')
        return cs[0]
    term, peers, watch = one('terminate_redundancies'), one('spawn_missing_peerings'), one('spawn_missing_watchers')
    L = lambda c, k: sorted(set(union_leaves(f, kwarg(c, k))))
    w_res, w_ns, idx = L(watch, 'watched_resources'), L(watch, 'watched_namespaces'), L(watch, 'indexed_resources')
    p_res, p_ns = L(peers, 'resources'), L(peers, 'namespaces')
    ctx.ob(rule, 'adjust_tasks: watchers are wanted for insights.watched_resources x insights.namespaces (indexed ones per insights.indexed_resources)',
           w_res == [('all', f'{ins}.watched_resources')] and w_ns == [('all', f'{ins}.namespaces')] and idx == [('all', f'{ins}.indexed_resources')], loc=f.loc(watch),
           construct=construct(f, 'flow:wanted watchers'), detail=f'{w_res} x {w_ns}; indexed {idx}')
    ctx.ob(rule, 'adjust_tasks: peering tasks are wanted for the served namespaces', p_ns == [('all', f'{ins}.namespaces')] and len(p_res) == 1 and p_res[0][0] == 'all', loc=f.loc(peers),
           construct=construct(f, 'flow:wanted peerings'), detail=f'{p_res} x {p_ns}')
    r_res, r_ns = L(term, 'remaining_resources'), L(term, 'remaining_namespaces')
    ctx.ob(rule, 'adjust_tasks: the resources that REMAIN are exactly the resources for which tasks are WANTED (watched + peering): nothing wanted is terminated, nothing '
           'unwanted survives', r_res == sorted(set(w_res + p_res)), loc=f.loc(term), construct=construct(f, 'flow:remaining resources = wanted'), detail=f'remaining {r_res}; wanted {sorted(set(w_res + p_res))}')
    ctx.ob(rule, 'adjust_tasks: the namespaces that REMAIN are exactly the served namespaces plus the cluster-wide marker None (the key of every cluster-scoped resource)',
           r_ns == sorted(set(w_ns + p_ns + [('elt', 'None')])), loc=f.loc(term), construct=construct(f, 'flow:remaining namespaces = wanted + None'), detail=f'remaining {r_ns}')


def check_peering_presence(ctx: Ctx, rule: str) -> None:
    """adjust_tasks: which peering resources exist, and the pause while a mandatory peering CRD is absent (C13)."""
    repo = ctx.repo
    f = repo.fn(f'{ORC}.adjust_tasks')
    ctx.analysed(f)
    ins, st = param(f, 'insights'), param(f, 'settings')
    peers = [c for c in calls_in(f.node) if is_call_to(repo, f, c, f'{ORC}.spawn_missing_peerings')]
    ctx.require_sites(rule, 'adjust_tasks: spawn_missing_peerings', len(peers), 1, f.loc())
    pname = kwarg(peers[0], 'resources') if peers else None
    comp = org(f, pname)
    ok = False
    if isinstance(comp, (ast.SetComp, ast.ListComp)) and len(comp.generators) == 1 and isinstance(comp.generators[0].target, ast.Name):
        g0, v = comp.generators[0], comp.generators[0].target.id
        sel = org(f, g0.iter)
        from_guess = isinstance(sel, ast.Call) and is_call_to(repo, f, sel, f'{PEER}.guess_selectors') and dotted(kwarg(sel, 'settings', 0)) == st
        elt_ok = isinstance(comp.elt, ast.Subscript) and dotted(comp.elt.value) == f'{ins}.backbone' and dotted(comp.elt.slice) == v
        atoms: set = set()
        cond = g0.ifs[0] if len(g0.ifs) == 1 else ast.BoolOp(ast.And(), g0.ifs) if g0.ifs else ast.Constant(True)
        code = bexpr(f, cond, role_leaf(lambda e: 's' if dotted(e) == v else 'backbone' if dotted(e) == f'{ins}.backbone' else None), atoms)
        ok = from_guess and elt_ok and tt_diff(code, lambda v_: v_['in:s,backbone'], atoms | {'in:s,backbone'}) is None
    ctx.ob(rule, 'adjust_tasks: the peering resources are the backbone resources of ALL selectors of the configured peering mode that exist in the cluster', ok, loc=f.loc(comp) if comp is not None else f.loc(),
           construct=construct(f, 'flow:peering resources'), detail=norm(comp))
    turns = [c for c in calls_in(f.node) if method_call(c, 'turn_to') is not None and (dotted(method_call(c, 'turn_to')) or '').endswith('.peering_missing')]
    ctx.require_sites(rule, 'adjust_tasks: the "peering CRD is missing" pause toggle', len(turns), 1, f.loc())
    for c in turns:
        def role(e: ast.AST) -> Optional[str]:
            d = dotted(e) or ''
            return 'mandatory' if d == f'{st}.peering.mandatory' else 'found' if isinstance(pname, ast.Name) and d == pname.id else None
        formula_ob(ctx, rule, f, c.args[0] if c.args else None, role_leaf(role), lambda v: v['truthy:mandatory'] and not v['truthy:found'], ['truthy:mandatory', 'truthy:found'],
                   'adjust_tasks: the operator is paused for a missing peering CRD iff peering is mandatory AND no peering resource exists (and un-paused once it appears)',
                   'formula:peering missing', c)


def _spawn_paths(ctx: Ctx, fname: str, res_param: str, ns_param: str):
    repo = ctx.repo
    f = repo.fn(f'{ORC}.{fname}')
    ctx.analysed(f)
    loops = [n for n in walk_no_defs(f.node) if isinstance(n, ast.For) and any(is_call_to(repo, f, c, f'{ORC}.EnsembleKey') for c in calls_in(n))]
    if len(loops) != 1 or not (isinstance(loops[0].target, ast.Tuple) and len(loops[0].target.elts) == 2 and all(isinstance(t, ast.Name) for t in loops[0].target.elts)):
        raise AnalysisError(f'{f.loc()}: expected one loop `for resource, namespace in ...` that forms the ensemble keys in {fname}')
    loop = loops[0]
    order_ok = isinstance(loop.iter, ast.Call) and (repo.resolve(f.module, loop.iter.func) or '') == 'itertools.product' and not loop.iter.keywords \
        and [dotted(a) for a in loop.iter.args] == [param(f, res_param), param(f, ns_param)]

    def eff(it, p, call, names):
        if f'{ORC}.EnsembleKey' in names:
            return 'key'
        if f'{QUEUE}.watcher' in names:
            return 'spawn:watcher'
        if f'{PEER}.keepalive' in names:
            return 'spawn:keepalive'
        if (repo.resolve(f.module, call.func) or '') == 'functools.partial' and call.args and (repo.resolve(f.module, call.args[0]) or '') == f'{PEER}.process_peering_event':
            return 'spawn:processor'
        if method_call(call, 'make_toggle') is not None and (dotted(method_call(call, 'make_toggle')) or '').endswith('.operator_paused'):
            return 'toggle'
        return None
    env = {loop.target.elts[0].id: absint.sym('R'), loop.target.elts[1].id: absint.sym('N')}
    paths = absint.analyse(repo, f, absint.Config(effect=eff), stmts=loop.body, env=env)
    ctx.count('paths', len(paths))
    return f, loop, order_ok, paths


def _key_agreement(p: absint.Path) -> list[str]:
    """Disagreements between the ensemble key and what the spawned coroutines of one iteration are given."""
    bad = []
    nsd = p.atom(r'^truthy\(R\.namespaced\)$')
    stores = [e for e in p.trace if e.label.startswith('setitem:') and e.kw['index'].kind == 'new' and e.kw['index'].data[0].endswith('EnsembleKey')]
    spawns = p.effects('spawn:')
    if not stores and not spawns:
        return bad
    if nsd is None:
        return ['the namespace of the key does not depend on whether the resource is namespaced']
    want_ns = 'N' if nsd else 'None'
    for e in stores:
        kw = e.kw['index'].data[1]
        r, n = kw.get('resource') or kw.get('#0'), kw.get('namespace') or kw.get('#1')
        if r is None or n is None or r.key != 'R' or n.key != want_ns:
            bad.append(f'{e.label[8:]}[key] has (resource={r.key if r else None}, namespace={n.key if n else None}) for a {"namespaced" if nsd else "cluster-scoped"} resource; want (R, {want_ns})')
    for e in spawns:
        r, n = e.kw.get('resource'), e.kw.get('namespace')
        if r is None or n is None or r.key != 'R' or n.key != want_ns:
            bad.append(f'{e.label[6:]} gets (resource={r.key if r else None}, namespace={n.key if n else None}); its key is (R, {want_ns})')
    return bad


def check_spawn_keys(ctx: Ctx, rule: str, which: tuple = ('spawn_missing_watchers', 'spawn_missing_peerings')) -> None:
    for fname, rp, np_ in (('spawn_missing_watchers', 'watched_resources', 'watched_namespaces'), ('spawn_missing_peerings', 'resources', 'namespaces')):
        if fname not in which:
            continue
        f, loop, order_ok, paths = _spawn_paths(ctx, fname, rp, np_)
        ctx.ob(rule, f'{fname}: the wanted keys are the product resources x namespaces, unpacked as (resource, namespace) in that order', order_ok, loc=f.loc(loop),
               construct=construct(f, 'flow:product(resources, namespaces)'), detail=norm(loop.iter))
        bad = [b for p in paths for b in _key_agreement(p)]
        spawning = [p for p in paths if p.effects('spawn:')]
        rows = {p.atom(r'^truthy\(R\.namespaced\)$') for p in spawning}
        ctx.ob(rule, f'{fname} ({len(paths)} paths of one iteration): the key is (resource, namespace) for a namespaced resource and (resource, None) for a cluster-scoped '
               'one, and every coroutine spawned under a key watches/serves exactly that resource in exactly that namespace', not bad and rows == {True, False}, loc=f.loc(loop),
               construct=construct(f, 'table:key = what is watched'), detail='; '.join(dict.fromkeys(bad)))


def check_peering_wiring(ctx: Ctx, rule: str) -> None:
    check_spawn_keys(ctx, rule, which=('spawn_missing_peerings',))
    f, loop, order_ok, paths = _spawn_paths(ctx, 'spawn_missing_peerings', 'resources', 'namespaces')
    st, ident = param(f, 'settings'), param(f, 'identity')
    bad = []
    n = 0
    for p in paths:
        procs, keeps, togs = p.effects('spawn:processor'), p.effects('spawn:keepalive'), p.effects('toggle')
        if not procs and not keeps:
            continue
        n += 1
        if len(procs) != 1 or len(keeps) != 1 or len(togs) != 1:
            bad.append(f'{len(keeps)} keep-alives, {len(procs)} observers, {len(togs)} pause toggles per new key')
            continue
        for e in procs + keeps:
            if not (e.kw.get('identity') is not None and e.kw['identity'].key == ident and e.kw.get('settings') is not None and e.kw['settings'].key == st):
                bad.append(f'{e.label[6:]} does not get the operator\'s own identity/settings')
        t = togs[0]
        stored = [e for e in p.trace if e.label == 'setitem:ensemble.conflicts_found' or (e.label.startswith('setitem:') and e.label.endswith('.conflicts_found'))]
        cf = procs[0].kw.get('conflicts_found')
        if cf is None or cf.key != t.key:
            bad.append('the observer does not get the pause toggle made for this peering')
        if not (len(stored) == 1 and stored[0].kw['value'].key == t.key and stored[0].kw['index'].kind == 'new'):
            bad.append('the pause toggle is not remembered under the key of the peering (it could never be dropped when the peering goes away)')
        pre = t.kw.get('#0') or t.kw.get('val')
        pre_src = pre.key if pre is not None else None
        if pre_src != f'{st}.peering.mandatory':
            bad.append(f'the toggle is pre-activated by `{pre_src}`, not by settings.peering.mandatory')
    ctx.ob(rule, f'spawn_missing_peerings ({n} spawning paths): per new peering key exactly one keep-alive and one observer are spawned with the operator\'s own identity and '
           'settings; the observer gets a fresh pause toggle (pre-activated iff peering is mandatory) that is remembered under the same key', not bad and n >= 2, loc=f.loc(loop),
           construct=construct(f, 'table:peering wiring'), detail='; '.join(dict.fromkeys(bad)))



# ============================================================================================== C19: API clients
def _stores(f: FuncInfo, scope: ast.AST, name: str) -> list[ast.AST]:
    """Statements inside ``scope`` that (re)bind a local name."""
    out = []
    for n in walk_no_defs(scope):
        if isinstance(n, ast.Assign) and any(isinstance(x, ast.Name) and x.id == name for t in n.targets for x in ast.walk(t) if isinstance(getattr(x, 'ctx', None), ast.Store)):
            out.append(n)
        elif isinstance(n, (ast.AugAssign, ast.AnnAssign)) and isinstance(n.target, ast.Name) and n.target.id == name:
            out.append(n)
        elif isinstance(n, ast.NamedExpr) and n.target.id == name:
            out.append(n)
    return out


def _index_in(body: list, node: ast.AST) -> int:
    for i, s in enumerate(body):
        if any(x is node for x in ast.walk(s)):
            return i
    return -1


def check_iter_jsonlines(ctx: Ctx, rule: str) -> None:
    repo = ctx.repo
    f = repo.fn(f'{API}.iter_jsonlines')
    ctx.analysed(f)
    content = f.params()[0].arg
    outers = [n for n in walk_no_defs(f.node) if isinstance(n, ast.AsyncFor) and isinstance(n.target, ast.Name) and (dotted(n.iter.func.value) if isinstance(n.iter, ast.Call)
              and isinstance(n.iter.func, ast.Attribute) else None) == content]
    if len(outers) != 1:
        raise AnalysisError(f'{f.loc()}: expected one loop over the chunks of the response content in {f.short}')
    outer, data = outers[0], outers[0].target.id
    accs = [n for n in walk_no_defs(outer) if isinstance(n, ast.AugAssign) and isinstance(n.op, ast.Add) and isinstance(n.target, ast.Name) and dotted(n.value) == data]
    accs += [n for n in walk_no_defs(outer) if isinstance(n, ast.Assign) and isinstance(n.value, ast.BinOp) and isinstance(n.value.op, ast.Add) and dotted(n.value.right) == data
             and len(n.targets) == 1 and dotted(n.targets[0]) == dotted(n.value.left)]
    if len(accs) != 1:
        ctx.ob(rule, 'iter_jsonlines: every received chunk is appended to the buffer', False, loc=f.loc(outer), construct=construct(f, 'flow:buffer += chunk'), detail=f'{len(accs)} accumulation sites')
        return
    buf = accs[0].target.id if isinstance(accs[0], ast.AugAssign) else accs[0].targets[0].id
    finds = [c for c in calls_in(outer) if method_call(c, 'find') is not None and dotted(method_call(c, 'find')) == buf and len(c.args) == 2 and isinstance(c.args[1], ast.Name)]
    whiles = [n for n in walk_no_defs(outer) if isinstance(n, ast.While)]
    if len(whiles) != 1 or not finds:
        ctx.ob(rule, 'iter_jsonlines: the buffer is split by a loop that searches the next separator FROM the start of the unconsumed part (buffer.find(separator, start))', False,
               loc=f.loc(outer), construct=construct(f, 'flow:line splitting'), detail=f'{len(whiles)} splitting loops, {len(finds)} searches with a start position')
        return
    wh, st = whiles[0], finds[0].args[1].id
    sep = src(finds[0].args[0])
    idxs = {t.id for n in walk_no_defs(outer) if isinstance(n, ast.Assign) and any(n.value is c for c in finds) for t in n.targets if isinstance(t, ast.Name)}
    idx = next(iter(idxs)) if len(idxs) == 1 else None
    bad = []
    # (a) the buffer only grows by chunks and shrinks by the consumed prefix
    cut = []
    for n in _stores(f, outer, buf):
        if n in accs:
            continue
        v = n.value if isinstance(n, ast.Assign) else None
        if isinstance(v, ast.Subscript) and dotted(v.value) == buf and isinstance(v.slice, ast.Slice) and dotted(v.slice.lower) == st and v.slice.upper is None and v.slice.step is None:
            cut.append(n)
        else:
            bad.append(f'the buffer is overwritten by `{norm(n, 50)}` (bytes not yet split into lines are lost or merged)')
    if _index_in(outer.body, accs[0]) != 0 or not top_level(outer, accs[0]):
        bad.append('the chunk is not appended first thing, unconditionally')
    init = [n for n in f.node.body if isinstance(n, ast.Assign) and any(dotted(t) == buf for t in n.targets)]
    if not (len(init) == 1 and isinstance(init[0].value, ast.Constant) and init[0].value.value in (b'', '')):
        bad.append('the buffer does not start empty')
    # (b) the splitting loop
    test_ok = isinstance(wh.test, ast.Compare) and len(wh.test.ops) == 1 and dotted(wh.test.left) == idx and isinstance(wh.test.comparators[0], (ast.Constant, ast.UnaryOp)) and (
        (isinstance(wh.test.ops[0], ast.GtE) and src(wh.test.comparators[0]) == '0') or (isinstance(wh.test.ops[0], (ast.Gt, ast.NotEq)) and src(wh.test.comparators[0]) == '-1'))
    if not test_ok:
        bad.append(f'the loop condition `{norm(wh.test)}` is not "a separator was found" (index >= 0): a separator at position 0 must be consumed too')
    ys = [n for n in walk_no_defs(wh) if isinstance(n, ast.Yield)]
    for y in ys:
        v = org(f, y.value)
        if not (isinstance(v, ast.Subscript) and dotted(v.value) == buf and isinstance(v.slice, ast.Slice) and dotted(v.slice.lower) == st and dotted(v.slice.upper) == idx):
            bad.append(f'a line is yielded as `{norm(v, 40)}`, not as buffer[start:index]')
    if len(ys) != 1:
        bad.append(f'{len(ys)} yields in the splitting loop')
    st_up = [n for n in _stores(f, wh, st)]
    ix_up = [n for n in _stores(f, wh, idx)] if idx else []
    ok_st = len(st_up) == 1 and isinstance(st_up[0], ast.Assign) and isinstance(st_up[0].value, ast.BinOp) and isinstance(st_up[0].value.op, ast.Add) \
        and {src(st_up[0].value.left), src(st_up[0].value.right)} == {idx, '1'} and top_level(wh, st_up[0])
    if not ok_st:
        bad.append('the start of the next line is not `index + 1` (exactly one separator is skipped per line), unconditionally')
    ok_ix = len(ix_up) == 1 and isinstance(ix_up[0], ast.Assign) and isinstance(ix_up[0].value, ast.Call) and method_call(ix_up[0].value, 'find') is not None \
        and dotted(method_call(ix_up[0].value, 'find')) == buf and len(ix_up[0].value.args) == 2 and src(ix_up[0].value.args[0]) == sep and dotted(ix_up[0].value.args[1]) == st \
        and top_level(wh, ix_up[0])
    if not ok_ix:
        bad.append('the next separator is not searched from the new start, unconditionally')
    if ok_st and ok_ix and ys:
        order = [_index_in(wh.body, ys[0]), _index_in(wh.body, st_up[0]), _index_in(wh.body, ix_up[0])]
        if order != sorted(order) or len(set(order)) != 3:
            bad.append('inside the splitting loop the order is not: yield the line, advance the start, search the next separator')
    # (c) per chunk: the search starts at 0; the consumed prefix is cut after the loop
    wpos = _index_in(outer.body, wh)
    pre = [n for n in _stores(f, outer, st) if n not in st_up]
    if not (len(pre) == 1 and isinstance(pre[0], ast.Assign) and src(pre[0].value) == '0' and 0 <= _index_in(outer.body, pre[0]) < wpos):
        bad.append('the search does not restart at position 0 of the (already cut) buffer for every chunk')
    first = [n for n in walk_no_defs(outer) if isinstance(n, ast.Assign) and any(n.value is c for c in finds) and n not in ix_up]
    if not (len(first) == 1 and _index_in(outer.body, accs[0]) < _index_in(outer.body, first[0]) < wpos and src(first[0].value.args[0]) == sep):
        bad.append('the first separator of a chunk is not searched after the chunk was appended')
    if not (len(cut) == 1 and _index_in(outer.body, cut[0]) > wpos):
        bad.append('the consumed prefix is not cut off the buffer (buffer = buffer[start:]) after the lines of the chunk were yielded')
    elif not top_level(outer, cut[0]):
        conds = [s for s in outer.body if isinstance(s, ast.If) and any(x is cut[0] for x in ast.walk(s))]
        if not (conds and isinstance(conds[0].test, (ast.Compare, ast.Name)) and {n.id for n in ast.walk(conds[0].test) if isinstance(n, ast.Name)} == {st} and not conds[0].orelse):
            bad.append('the cut of the consumed prefix depends on something else than "anything was consumed"')
    # (d) the unterminated tail
    after = f.node.body[_index_in(f.node.body, outer) + 1:]
    tails = [y for s in after for y in walk_no_defs(s) if isinstance(y, ast.Yield) and dotted(y.value) == buf]
    if len(tails) != 1:
        bad.append('what is left in the buffer when the stream ends (a last line without a separator) is not yielded')
    ctx.ob(rule, 'iter_jsonlines (no line of the watch-stream is lost, merged or split): chunks are appended to the buffer; each separator found yields buffer[start:index] '
           'and moves the start past it; the consumed prefix is cut once per chunk; the unterminated tail is yielded at the end', not bad, loc=f.loc(outer),
           construct=construct(f, 'flow:line splitting'), detail='; '.join(bad[:3]))
    guards = [(t, o) for s in wh.body if isinstance(s, ast.If) and ys and any(x is ys[0] for x in ast.walk(s)) for t, o in [(s.test, True)]]
    ctx.ob(rule, 'iter_jsonlines: only EMPTY lines are skipped', all(org(f, t) is not None and (dotted(t) is not None or src(org(f, t)) == src(org(f, ys[0].value))) for t, o in guards) and len(guards) <= 1,
           loc=f.loc(wh), construct=construct(f, 'guard:only empty lines skipped'), detail='; '.join(norm(t) for t, _ in guards))


def check_stream(ctx: Ctx, rule: str) -> None:
    from ..rules import nullness_assumption
    repo = ctx.repo
    f, g = cfg_of(ctx, f'{API}.stream')
    stopper = param(f, 'stopper')
    reqs = g.call_nodes(f'{API}.request')
    ctx.require_sites(rule, 'stream: the request', len(reqs), 1, f.loc())
    rsp = None
    for n in reqs:
        if isinstance(n.stmt, ast.Assign) and isinstance(n.stmt.targets[0], ast.Name):
            rsp = n.stmt.targets[0].id
    nested = [fn for fn in repo.all_functions() if fn.outer is f]
    closers = {fn.name for fn in nested if any(method_call(c, 'close') is not None and dotted(method_call(c, 'close')) == rsp for c in calls_in(fn.node))}
    loops = [n for n in g.nodes if n.kind == 'loop' and isinstance(n.stmt, (ast.AsyncFor, ast.For)) and any(is_call_to(repo, f, c, f'{API}.iter_jsonlines') for c in calls_in(n.stmt.iter))]
    ctx.require_sites(rule, 'stream: iteration over the lines of the response', len(loops), 1, f.loc())
    adds = g.stmt_nodes(lambda x: isinstance(x, ast.Call) and recv_is(x, 'add_done_callback', stopper) and x.args and dotted(x.args[0]) in closers)
    rems = g.stmt_nodes(lambda x: isinstance(x, ast.Call) and recv_is(x, 'remove_done_callback', stopper) and x.args and dotted(x.args[0]) in closers)
    nonnull = g.pruned(nullness_assumption(stopper))
    both = lambda a, b: nonnull(a, b) and normal_edges(a, b)
    unarmed = [l for l in loops if l in g.reach(reqs, stop=lambda n: n in set(adds), edge_ok=both)]
    ctx.ob(rule, 'stream: before the lines are read, the stopper (the pause waiter) is armed to CLOSE THE RESPONSE when it fires -- a pause ends the running watch',
           bool(adds) and bool(closers) and not unarmed, loc=f.loc(adds[0].stmt) if adds else f.loc(), construct=construct(f, 'dom:stopper closes the response'))
    esc = g.escaping_exits(adds, rems, edge_ok=nonnull) if adds else []
    ctx.ob(rule, 'stream: the close-callback is removed from the stopper on every exit (the long-lived pause waiter does not accumulate callbacks of dead responses)',
           bool(adds) and not esc, loc=f.loc(), construct=construct(f, 'pair:add/remove close-callback'), detail=', '.join(e.label for e in esc))
    others = {dotted(c.args[0]) for n in g.nodes if n.stmt is not None and n.kind == 'stmt' for c in calls_in(n.stmt) if recv_is(c, 'add_done_callback', stopper) and c.args and dotted(c.args[0]) not in closers}
    for cb in sorted(x for x in others if x):
        a2 = g.stmt_nodes(lambda x: isinstance(x, ast.Call) and recv_is(x, 'add_done_callback', stopper) and x.args and dotted(x.args[0]) == cb)
        r2 = g.stmt_nodes(lambda x: isinstance(x, ast.Call) and recv_is(x, 'remove_done_callback', stopper) and x.args and dotted(x.args[0]) == cb)
        esc2 = g.escaping_exits(a2, r2, edge_ok=nonnull)
        stale = [l for l in loops if l in g.reach(a2, stop=lambda n: n in set(r2), edge_ok=nonnull)]
        ctx.ob(rule, f'stream: the request-phase callback `{cb}` (it cancels the CURRENT task) is removed from the stopper on every exit and before any line is read -- a later pause '
               'must close the response, not cancel whatever task happens to run', bool(r2) and not esc2 and not stale, loc=f.loc(a2[0].stmt), construct=construct(f, f'pair:add/remove {cb}'),
               detail=', '.join(e.label for e in esc2) or ('still armed while the lines are read' if stale else ''))
    tests = set(g.stmt_nodes(lambda x: isinstance(x, ast.Call) and recv_is(x, 'done', stopper))) & g.reach(reqs, edge_ok=normal_edges)
    untested = [l for l in loops if l in g.reach(reqs, stop=lambda n: n in tests, edge_ok=both)]
    ctx.ob(rule, 'stream: after the response headers arrived the stopper is consulted again before any line is read', bool(tests) and not untested, loc=f.loc(), construct=construct(f, 'dom:done-test after the request'))
    for lp in loops:
        body = lp.stmt.body
        ys = [y for s in body for y in walk_no_defs(s) if isinstance(y, ast.Yield)]
        var = lp.stmt.target.id if isinstance(lp.stmt.target, ast.Name) else None
        ok = len(ys) == 1 and top_level(lp.stmt, ys[0]) and not loop_escapes(lp.stmt) and isinstance(ys[0].value, ast.Call) and (repo.resolve(f.module, ys[0].value.func) or '') == 'json.loads' \
            and var is not None and any(isinstance(x, ast.Name) and x.id == var for x in ast.walk(ys[0].value))
        it = [c for c in calls_in(lp.stmt.iter) if is_call_to(repo, f, c, f'{API}.iter_jsonlines')][0]
        ok = ok and it.args and dotted(it.args[0]) == f'{rsp}.content'
        ctx.ob(rule, 'stream: EVERY line of the response content is parsed and yielded, unconditionally (no event of the watch-stream is skipped here)', bool(ok), loc=f.loc(lp.stmt),
               construct=construct(f, 'flow:every line yielded'))

    def eff(it, p, call, names):
        if method_call(call, 'close') is not None and dotted(method_call(call, 'close')) == rsp:
            return 'close'
        if f'{API}.iter_jsonlines' in names:
            return 'lines'
        return None
    paths = absint.analyse(repo, f, absint.Config(effect=eff, raising={f'{API}.request': ['asyncio.CancelledError']}))
    ctx.count('paths', len(paths))
    atoms = {'NONE': rf'^isnone\({stopper}\)$', 'DONE': rf'^truthy\({stopper}\.done\(\)\)$'}

    def observe(p):
        cancelled = any(e.label.startswith('raised:') for e in p.trace)
        if cancelled:
            return ('cancelled', 'propagates' if p.status == 'raise' else 'ends quietly')
        return ('ok', 'closed, nothing read' if p.effects('close') and not p.effects('lines') and p.status == 'return' else 'reads the lines' if p.effects('lines') and not p.effects('close') else 'other')

    def spec(v):
        fired = (not v['NONE']) and v['DONE']
        return [('ok', 'closed, nothing read' if fired else 'reads the lines'), ('cancelled', 'ends quietly' if fired else 'propagates')]
    bad = []
    rows = set()
    for p in paths:
        for v in absint.completions(p, atoms, lambda k, _p=p: absint.entails(repo, f, _p, k)):
            if v['NONE'] and v['DONE']:
                continue
            o = observe(p)
            rows.add((v['NONE'], v['DONE'], o[0]))
            if o not in spec(v):
                bad.append(f'stopper {"absent" if v["NONE"] else "fired" if v["DONE"] else "pending"}, request {o[0]}: {o[1]}')
    ctx.ob(rule, f'stream ({len(paths)} paths): a stopper that has fired by the time the request returns => the response is closed and nothing is read; a cancellation of the '
           'request ends the stream quietly only if the stopper fired, otherwise it propagates', not bad and len(rows) >= 6, loc=f.loc(), construct=construct(f, 'table:stopper x request'),
           detail='; '.join(dict.fromkeys(bad)))


def check_list_objs(ctx: Ctx, rule: str) -> None:
    repo = ctx.repo
    f = repo.fn(f'{FETCH}.list_objs')
    ctx.analysed(f)
    gets = [n.targets[0].id for n in walk_no_defs(f.node) if isinstance(n, ast.Assign) and isinstance(n.targets[0], ast.Name) and isinstance(strip(n.value), ast.Call)
            and is_call_to(repo, f, strip(n.value), f'{API}.get')]
    if len(gets) != 1:
        raise AnalysisError(f'{f.loc()}: expected one api.get in list_objs')
    rsp = gets[0]
    loops = [n for n in walk_no_defs(f.node) if isinstance(n, ast.For) and isinstance(n.target, ast.Name) and any(isinstance(x, ast.Constant) and x.value == 'items' for x in ast.walk(n.iter))
             and any(isinstance(x, ast.Name) and x.id == rsp for x in ast.walk(n.iter))]
    ctx.require_sites(rule, 'list_objs: loop over the items of the list response', len(loops), 1, f.loc())
    rets = [n.value for n in walk_no_defs(f.node) if isinstance(n, ast.Return) and n.value is not None]
    for loop in loops:
        item = loop.target.id
        unsliced = not isinstance(loop.iter, ast.Subscript) or not isinstance(loop.iter.slice, ast.Slice)
        apps = [c for c in calls_in(loop) if method_call(c, 'append') is not None and c.args and dotted(c.args[0]) == item]
        ok = len(apps) == 1 and top_level(loop, apps[0]) and not loop_escapes(loop) and unsliced
        acc = dotted(method_call(apps[0], 'append')) if apps else None
        ret_ok = bool(rets) and all(isinstance(r, ast.Tuple) and r.elts and dotted(r.elts[0]) == acc for r in rets)
        ctx.ob(rule, 'list_objs: EVERY item of the list response is collected, unconditionally, and the collection is what is returned (no object of the initial listing is '
               'missing from the stream)', ok and ret_ok, loc=f.loc(loop), construct=construct(f, 'flow:all items returned'))
        for field in ('kind', 'apiVersion'):
            sets = [c for c in calls_in(loop) if method_call(c, 'setdefault') is not None and dotted(method_call(c, 'setdefault')) == item and len(c.args) == 2
                    and isinstance(c.args[0], ast.Constant) and c.args[0].value == field]
            val_ok = bool(sets) and all(any(isinstance(x, ast.Subscript) and dotted(x.value) == rsp and isinstance(x.slice, ast.Constant) and x.slice.value == field
                                            for x in ast.walk(c.args[1])) for c in sets)
            if field == 'kind':
                val_ok = val_ok and all(any(isinstance(x, ast.Constant) and x.value == 'List' for x in ast.walk(c.args[1])) for c in sets)
            guarded = bool(sets) and all(any(isinstance(s, ast.If) and any(x is c for x in ast.walk(s)) and isinstance(s.test, ast.Compare) and isinstance(s.test.ops[0], ast.In)
                                             and isinstance(s.test.left, ast.Constant) and s.test.left.value == field and dotted(s.test.comparators[0]) == rsp for s in loop.body) for c in sets)
            ctx.ob(rule, f'list_objs: an item without `{field}` gets the one of the list response' + (' (minus the "List" suffix)' if field == 'kind' else '')
                   + ', an item that has it keeps its own', val_ok and guarded, loc=f.loc(sets[0]) if sets else f.loc(loop), construct=construct(f, f'flow:item.{field} default'))


HANDOVER = [
    (f'{QUEUE}.watcher', f'{WATCH}.infinite_watch', ('resource', 'namespace', 'settings')),
    (f'{WATCH}.infinite_watch', f'{WATCH}.continuous_watch', ('resource', 'namespace', 'settings')),
    (f'{WATCH}.continuous_watch', f'{FETCH}.list_objs', ('resource', 'namespace', 'settings')),
    (f'{WATCH}.continuous_watch', f'{WATCH}.watch_objs', ('resource', 'namespace', 'settings')),
]


def check_handover(ctx: Ctx, rule: str) -> None:
    repo = ctx.repo
    for caller, callee, names in HANDOVER:
        f = repo.fn(caller)
        ctx.analysed(f)
        cs = [c for c in calls_in(f.node) if is_call_to(repo, f, c, callee)]
        ctx.require_sites(rule, f'{f.name}: call of {callee.rsplit(".", 1)[-1]}', len(cs), 1, f.loc())
        for c in cs:
            wrong = [k for k in names if dotted(kwarg(c, k)) != param(f, k)]
            ctx.ob(rule, f'{f.name} -> {callee.rsplit(".", 1)[-1]}: the stream of a key lists/watches exactly the resource and namespace of that key', not wrong, loc=f.loc(c),
                   construct=construct(f, f'config:{callee.rsplit(".", 1)[-1]}(resource=, namespace=)'), detail=', '.join(f'{k}={norm(kwarg(c, k))}' for k in wrong))
    for ref, sender in ((f'{FETCH}.list_objs', f'{API}.get'), (f'{WATCH}.watch_objs', f'{API}.stream')):
        f = repo.fn(ref)
        ctx.analysed(f)
        urls = [c for c in calls_in(f.node) if method_call(c, 'get_url') is not None]
        sends = [c for c in calls_in(f.node) if is_call_to(repo, f, c, sender)]
        ok = len(urls) == 1 and dotted(method_call(urls[0], 'get_url')) == param(f, 'resource') and dotted(kwarg(urls[0], 'namespace')) == param(f, 'namespace') \
            and len(sends) == 1 and org(f, kwarg(sends[0], 'url', 0)) is urls[0] and kwarg(urls[0], 'name') is None and kwarg(urls[0], 'subresource') is None
        ctx.ob(rule, f'{f.name}: the request goes to the collection URL of the given resource in the given namespace (cluster-wide for None)', ok, loc=f.loc(urls[0]) if urls else f.loc(),
               construct=construct(f, 'config:get_url(namespace=)'))
        if ref.endswith('watch_objs'):
            pv = kwarg(urls[0], 'params') if urls else None
            sets = [n for n in f.node.body if isinstance(n, ast.Assign) and len(n.targets) == 1 and isinstance(n.targets[0], ast.Subscript) and dotted(n.targets[0].value) == dotted(pv)
                    and isinstance(n.targets[0].slice, ast.Constant)] if pv is not None and dotted(pv) else []
            fixed = {n.targets[0].slice.value: (n.value.value if isinstance(n.value, ast.Constant) else None) for n in sets}
            lit = org(f, pv)
            if isinstance(lit, ast.Dict):
                fixed.update({k.value: (v.value if isinstance(v, ast.Constant) else None) for k, v in zip(lit.keys, lit.values) if isinstance(k, ast.Constant)})
            ctx.ob(rule, 'watch_objs: the request is unconditionally a WATCH (watch=true) with bookmarks allowed (allowWatchBookmarks=true keeps the resumable version fresh)',
                   fixed.get('watch') == 'true' and fixed.get('allowWatchBookmarks') == 'true', loc=f.loc(), construct=construct(f, 'config:watch params'), detail=str(fixed))


def check_scanning(ctx: Ctx, rule: str) -> None:
    repo = ctx.repo
    sc = repo.fn(f'{SCAN}.scan_resources')
    readers = (f'{SCAN}._read_old_api', f'{SCAN}._read_new_apis')
    ctx.analysed(sc)
    called = {r: [c for c in ast.walk(sc.node) if isinstance(c, ast.Call) and is_call_to(repo, sc, c, r)] for r in readers}
    ctx.ob(rule, 'scan_resources reads both the core API (/api) and the API groups (/apis), each with the requested groups', all(len(v) == 1 and dotted(kwarg(v[0], 'groups')) == param(sc, 'groups') for v in called.values()),
           loc=sc.loc(), construct=construct(sc, 'flow:both readers'))
    n_loops = 0
    for ref in (f'{SCAN}.scan_resources',) + readers:
        f = repo.fn(ref)
        ctx.analysed(f)
        rets = [n.value for n in walk_no_defs(f.node) if isinstance(n, ast.Return) and n.value is not None]
        for lp in [n for n in walk_no_defs(f.node) if isinstance(n, ast.For) and isinstance(n.target, ast.Name) and isinstance(n.iter, ast.Call)
                   and (repo.resolve(f.module, n.iter.func) or '') == 'asyncio.as_completed']:
            n_loops += 1
            ups = [c for c in calls_in(lp) if method_call(c, 'update') is not None and c.args and isinstance(c.args[0], ast.Await) and dotted(c.args[0].value) == lp.target.id]
            acc = dotted(method_call(ups[0], 'update')) if ups else None
            ok = len(ups) == 1 and top_level(lp, ups[0]) and not loop_escapes(lp) and bool(rets) and all(dotted(r) == acc for r in rets)
            ctx.ob(rule, f'{f.name}: the resources of EVERY completed sub-scan are merged into the returned set (a discovered resource is not dropped)', ok, loc=f.loc(lp),
                   construct=construct(f, 'flow:merge all sub-scans'))
    ctx.require_sites(rule, 'scanning: merge loops over the sub-scans', n_loops, 3)
    old, new = repo.fn(readers[0]), repo.fn(readers[1])
    for f, what, spec, atoms_ in ((old, 'the core API is read iff no groups are requested or the core group "" is among them', lambda v: v['none:groups'] or v["in:'',groups"], ['none:groups', "in:'',groups"]),):
        gp = param(f, 'groups')
        ifs = [n for n in f.node.body if isinstance(n, ast.If) and any(is_call_to(repo, f, c, f'{API}.get') for c in calls_in(ast.Module(n.body, [])))]
        formula_ob(ctx, rule, f, ifs[0].test if len(ifs) == 1 else None, role_leaf(lambda e: 'groups' if dotted(e) == gp else repr(e.value) if isinstance(e, ast.Constant) and isinstance(e.value, str) else None),
                   spec, atoms_, f'{f.name}: {what}', 'formula:group gate')
    gp = param(new, 'groups')
    filt = []
    for n in walk_no_defs(new.node):
        if isinstance(n, (ast.ListComp, ast.SetComp, ast.GeneratorExp)) and any(isinstance(x, ast.Constant) and x.value == 'groups' for x in ast.walk(n.generators[0].iter)):
            filt.append(n)
    ok = False
    detail = ''
    for n in filt[:1]:
        v = n.generators[0].target.id if isinstance(n.generators[0].target, ast.Name) else None
        cond = n.generators[0].ifs[0] if len(n.generators[0].ifs) == 1 else ast.Constant(True) if not n.generators[0].ifs else ast.BoolOp(ast.And(), n.generators[0].ifs)
        atoms: set = set()
        code = bexpr(new, cond, role_leaf(lambda e: 'groups' if dotted(e) == gp else 'name' if isinstance(e, ast.Subscript) and dotted(e.value) == v and src(e.slice) == "'name'" else None), atoms)
        detail = tt_diff(code, lambda v_: v_['none:groups'] or v_['in:name,groups'], atoms | {'none:groups', 'in:name,groups'}) or ''
        ok = detail == ''
    ctx.ob(rule, '_read_new_apis: an API group is scanned iff no groups are requested or its name is among them', ok and len(filt) == 1, loc=new.loc(filt[0]) if filt else new.loc(),
           construct=construct(new, 'formula:group filter'), detail=detail)
    rv = repo.fn(f'{SCAN}._read_version')
    ctx.analysed(rv)
    paths = absint.analyse(repo, rv, absint.Config(raising={f'{API}.get': [f'{ERR}.APINotFoundError']}))
    gone = [p for p in paths if any(e.label.startswith('raised:') for e in p.trace)]
    ctx.ob(rule, '_read_version: a vanished group/version (404 after the last CRD of a group was deleted) is an EMPTY scan, not an error -- so that the re-scan can drop the '
           'resources of that group', bool(gone) and all(p.status == 'return' and p.retval is not None and p.retval.kind == 'coll' and p.retval.data == ('display', ()) for p in gone),
           loc=rv.loc(), construct=construct(rv, 'table:404 => empty'))
    comps = [n for n in walk_no_defs(rv.node) if isinstance(n, (ast.SetComp, ast.ListComp)) and any(is_call_to(repo, rv, c, f'{REF}.Resource') for c in calls_in(n.elt))]
    ok = False
    for n in comps[:1]:
        v = n.generators[0].target.id if isinstance(n.generators[0].target, ast.Name) else None
        ifs = n.generators[0].ifs
        ok = len(ifs) == 1 and isinstance(ifs[0], ast.Compare) and isinstance(ifs[0].ops[0], ast.NotIn) and isinstance(ifs[0].left, ast.Constant) and ifs[0].left.value == '/' \
            and isinstance(ifs[0].comparators[0], ast.Subscript) and dotted(ifs[0].comparators[0].value) == v and src(ifs[0].comparators[0].slice) == "'name'"
        ctor = [c for c in calls_in(n.elt) if is_call_to(repo, rv, c, f'{REF}.Resource')][0]
        same = all(dotted(kwarg(ctor, k)) == param(rv, k) for k in ('group', 'version', 'preferred')) and src(kwarg(ctor, 'plural')) == f"{v}['name']" \
            and src(kwarg(ctor, 'namespaced')) == f"{v}['namespaced']"
        ok = ok and same
    ctx.ob(rule, '_read_version: every listed resource except the sub-resources ("x/status") becomes a Resource of the scanned group/version with its plural name, scope and '
           'preferred flag', ok and len(comps) == 1, loc=rv.loc(comps[0]) if comps else rv.loc(), construct=construct(rv, 'flow:resources of a version'))
    core = [c for c in ast.walk(old.node) if isinstance(c, ast.Call) and is_call_to(repo, old, c, f'{SCAN}._read_version')]
    ctx.ob(rule, '_read_old_api: the versions of the core API are scanned as group "" and as preferred (unversioned selectors such as `pods` match them)', len(core) == 1
           and isinstance(kwarg(core[0], 'preferred'), ast.Constant) and kwarg(core[0], 'preferred').value is True and isinstance(kwarg(core[0], 'group'), ast.Constant) and kwarg(core[0], 'group').value == '',
           loc=old.loc(core[0]) if core else old.loc(), construct=construct(old, 'config:core group preferred'))
    prefs = [kwarg(c, 'preferred') for c in ast.walk(new.node) if isinstance(c, ast.Call) and is_call_to(repo, new, c, f'{SCAN}._read_version')]
    ok = len(prefs) == 1 and isinstance(prefs[0], ast.Compare) and isinstance(prefs[0].ops[0], ast.Eq) and 'preferredVersion' in src(prefs[0]) \
        and sum(1 for x in ast.walk(prefs[0]) if isinstance(x, ast.Constant) and x.value == 'version') >= 2
    ctx.ob(rule, '_read_new_apis: a version is preferred iff it is the preferredVersion of its group (unversioned selectors serve exactly one version of a resource)', ok, loc=new.loc(),
           construct=construct(new, 'formula:preferred'), detail=norm(prefs[0]) if prefs else '')




QUIET_FAULTS = ['aiohttp.ClientConnectionError', 'aiohttp.ServerDisconnectedError', 'aiohttp.ClientOSError', 'aiohttp.ClientPayloadError', 'asyncio.TimeoutError', 'TimeoutError']
LOUD_FAULTS = [f'{ERR}.APIServerError', f'{ERR}.APIForbiddenError', f'{ERR}.APINotFoundError', f'{ERR}.APIUnauthorizedError', f'{ERR}.APIError',
               f'{WATCH}.WatchingError', 'RuntimeError', 'ValueError', 'Exception', 'asyncio.CancelledError']


def _fate(repo, f: FuncInfo, site: ast.AST, cls: str) -> str:
    """What happens to an exception of class ``cls`` raised at ``site``: 'quiet' (caught, not re-raised), 'reraised', or 'propagates'."""
    p = f.module.parent.get(site)
    child = site
    while p is not None and p is not f.node:
        if isinstance(p, ast.Try) and any(child is s or any(child is x for x in ast.walk(s)) for s in p.body):
            for h in p.handlers:
                classes = ['BaseException'] if h.type is None else [repo.resolve(f.module, e) or src(e) for e in (h.type.elts if isinstance(h.type, ast.Tuple) else [h.type])]
                if any(repo.is_subclass(cls, c) for c in classes):
                    return 'reraised' if any(isinstance(x, ast.Raise) for s in h.body for x in walk_no_defs(s)) else 'quiet'
        child = p
        p = f.module.parent.get(p)
    return 'propagates'


def check_stream_faults(ctx: Ctx, rule: str) -> None:
    repo = ctx.repo
    f = repo.fn(f'{WATCH}.watch_objs')
    ctx.analysed(f)
    sites = [c for c in ast.walk(f.node) if isinstance(c, ast.Call) and is_call_to(repo, f, c, f'{API}.stream')]
    ctx.require_sites(rule, 'watch_objs: the streaming request', len(sites), 1, f.loc())
    for c in sites:
        for cls in QUIET_FAULTS:
            fate = _fate(repo, f, c, cls)
            ctx.ob(rule, f'watch_objs: a {cls.rsplit(".", 1)[-1]} while streaming ends this watch request quietly (continuous_watch resumes from the latest version seen; the watcher '
                   'does not die of a disconnect)', fate == 'quiet', loc=f.loc(c), construct=construct(f, f'dispatch:{cls}'), detail=fate)
        for cls in LOUD_FAULTS:
            fate = _fate(repo, f, c, cls)
            ctx.ob(rule, f'watch_objs: a {cls.rsplit(".", 1)[-1]} is not silenced here (it is no disconnect: the stream must not silently continue as if nothing happened)',
                   fate != 'quiet', loc=f.loc(c), construct=construct(f, f'dispatch:{cls}'), detail=fate)
    iw = repo.fn(f'{WATCH}.infinite_watch')
    ctx.analysed(iw)
    loops = [n for n in walk_no_defs(iw.node) if isinstance(n, (ast.AsyncFor, ast.For)) and any(is_call_to(repo, iw, c, f'{WATCH}.continuous_watch') for c in calls_in(org(iw, n.iter) or n.iter))]
    ctx.require_sites(rule, 'infinite_watch: consumption of the continuous stream', len(loops), 1, iw.loc())
    for lp in loops:
        fate429 = _fate(repo, iw, lp, f'{ERR}.APITooManyRequestsError')
        ctx.ob(rule, 'infinite_watch: a 429 that escalated after all retries does not end the watcher: the stream is simply started again (fresh listing)', fate429 == 'quiet', loc=iw.loc(lp),
               construct=construct(iw, 'dispatch:429'), detail=fate429)
        for cls in LOUD_FAULTS + QUIET_FAULTS[:1]:
            fate = _fate(repo, iw, lp, cls)
            ctx.ob(rule, f'infinite_watch: a {cls.rsplit(".", 1)[-1]} out of the stream is not swallowed (an unknown ERROR event / a fatal API error is never silently skipped)',
                   fate != 'quiet', loc=iw.loc(lp), construct=construct(iw, f'dispatch:{cls}'), detail=fate)
        ys = [y for s in lp.body for y in walk_no_defs(s) if isinstance(y, ast.Yield)]
        ok = len(ys) == 1 and top_level(lp, ys[0]) and dotted(ys[0].value) == dotted(lp.target) and not loop_escapes(lp)
        ctx.ob(rule, 'infinite_watch passes EVERY event of the continuous stream on, unchanged and unconditionally', ok, loc=iw.loc(lp), construct=construct(iw, 'flow:every event yielded'))
    whiles = [n for n in walk_no_defs(iw.node) if isinstance(n, ast.While) and any(any(x is lp for x in ast.walk(n)) for lp in loops)]
    it_param = [a.arg for a in iw.params() if a.arg.startswith('_')]
    ok = False
    if len(whiles) == 1:
        atoms: set = set()

        def leaf(e: ast.AST):
            if isinstance(e, ast.Compare) and isinstance(e.ops[0], ast.Is) and is_none(e.comparators[0]) and dotted(e.left) in it_param:
                return ('unlimited', True)
            return ('other', True)
        code = bexpr(iw, whiles[0].test, leaf, atoms)
        forever = (isinstance(whiles[0].test, ast.Constant) and whiles[0].test.value is True) or all(code({'unlimited': True, 'other': b}) for b in (False, True))
        ok = forever and not [x for s in whiles[0].body for x in walk_no_defs(s) if isinstance(x, (ast.Break, ast.Return))]
    ctx.ob(rule, 'infinite_watch: outside of tests (no iteration limit) the stream is re-created forever -- after a 410, a disconnect during the listing, a pause or a 429 the '
           'resource is listed and watched again; only an exception ends it', ok, loc=iw.loc(whiles[0]) if whiles else iw.loc(), construct=construct(iw, 'loop:forever'))


# ============================================================================================== C12: the credentials vault
def _attr_of_self(f: FuncInfo, e: Optional[ast.AST], attr: str) -> bool:
    return e is not None and dotted(e) == f'{self_name(f)}.{attr}'


def check_vault_select(ctx: Ctx, rule: str) -> None:
    repo = ctx.repo
    f = repo.fn(f'{CRED}.Vault.select')
    ctx.analysed(f)
    me = self_name(f)
    paths = absint.analyse(repo, f, absint.Config())
    table_check(ctx, rule, f, paths, {'CUR': rf'^truthy\({me}\._current\)$'}, lambda v: 'return' if v['CUR'] else f'{CRED}.LoginError',
                lambda p: p.exc if p.status == 'raise' else p.status, what='Vault.select: with no current credentials the request fails with LoginError, otherwise some are returned')
    mentions = {n.attr for n in ast.walk(f.node) if isinstance(n, ast.Attribute) and dotted(n.value) == me}
    loops = [n for n in walk_no_defs(f.node) if isinstance(n, ast.For) and isinstance(n.iter, ast.Call) and method_call(n.iter, 'items') is not None and _attr_of_self(f, method_call(n.iter, 'items'), '_current')]
    ctx.ob(rule, 'Vault.select draws only from the CURRENT credentials (never from the invalidated ones), all of them', len(loops) == 1 and '_invalid' not in mentions and not loop_escapes(loops[0]) if loops else False,
           loc=f.loc(), construct=construct(f, 'confine:only _current'), detail=str(sorted(mentions)))
    ok = False
    detail = ''
    if len(loops) == 1 and isinstance(loops[0].target, ast.Tuple) and len(loops[0].target.elts) == 2:
        kv, iv = (dotted(t) for t in loops[0].target.elts)
        groups = [c for c in calls_in(loops[0]) if method_call(c, 'append') is not None and isinstance(method_call(c, 'append'), ast.Subscript)]
        if len(groups) == 1 and top_level(loops[0], groups[0]):
            sub = method_call(groups[0], 'append')
            table, by = dotted(sub.value), dotted(sub.slice)
            pair = groups[0].args[0] if groups[0].args else None
            pair_ok = isinstance(pair, ast.Tuple) and [dotted(e) for e in pair.elts] == [kv, iv]
            tops = [n for n in walk_no_defs(f.node) if isinstance(n, ast.Assign) and isinstance(n.value, ast.Call) and dotted(n.value.func) in ('max', 'min') and table in src(n.value)]
            top = tops[0].targets[0].id if len(tops) == 1 and isinstance(tops[0].targets[0], ast.Name) else None
            picks = [c for c in calls_in(f.node) if (repo.resolve(f.module, c.func) or '').startswith('random.') and c.args and isinstance(c.args[0], ast.Subscript)
                     and dotted(c.args[0].value) == table and dotted(c.args[0].slice) == top]
            rets = [n.value for n in walk_no_defs(f.node) if isinstance(n, ast.Return) and n.value is not None]
            flows = False
            if len(picks) == 1 and len(rets) == 1:
                st = repo.stmt_of(f.module, picks[0])
                if st in f.node.body and isinstance(st, ast.Return):
                    flows = True
                elif st in f.node.body and isinstance(st, ast.Assign) and len(st.targets) == 1:
                    bound = [dotted(e) for e in (st.targets[0].elts if isinstance(st.targets[0], ast.Tuple) else [st.targets[0]])]
                    returned = [dotted(e) for e in (rets[0].elts if isinstance(rets[0], ast.Tuple) else [rets[0]])]
                    later = [x for x in f.node.body[f.node.body.index(st) + 1:] for n_ in walk_no_defs(x) if isinstance(n_, ast.Name) and isinstance(n_.ctx, ast.Store) and n_.id in bound]
                    flows = bound == returned and not later and f.node.body.index(st) > f.node.body.index(loops[0])
            ok = by == f'{iv}.info.priority' and pair_ok and len(tops) == 1 and dotted(tops[0].value.func) == 'max' and flows
            detail = f'grouped by {by}, top = {norm(tops[0].value) if tops else None}'
    ctx.ob(rule, 'Vault.select: the credentials are grouped by their priority and one of the HIGHEST priority group is returned (lower-priority credentials are a fallback only)',
           ok, loc=f.loc(), construct=construct(f, 'formula:max priority'), detail=detail)


def check_vault_items(ctx: Ctx, rule: str) -> None:
    repo = ctx.repo
    f, g = cfg_of(ctx, f'{CRED}.Vault._items')
    me = self_name(f)
    sel = g.call_nodes(f'{CRED}.Vault.select')
    exp = g.call_nodes(f'{CRED}.Vault._expire')
    rdy = g.stmt_nodes(lambda x: isinstance(x, ast.Call) and recv_is(x, 'wait_for', '_guard') and x.args and isinstance(x.args[0], ast.Lambda) and dotted(x.args[0].body) == f'{me}._ready')
    ys = g.stmt_nodes(lambda x: isinstance(x, ast.Yield))
    ctx.require_sites(rule, 'Vault._items: selection of the credentials to offer', len(sel), 1, f.loc())
    ctx.require_sites(rule, 'Vault._items: the offer (yield)', len(ys), 1, f.loc())
    locked = all(with_frames(n, '._guard') for n in sel + exp + rdy)
    ctx.ob(rule, 'Vault._items: under the vault lock, in this order: wait until the vault is ready (a running re-authentication has finished), discard the expired credentials, '
           'then select -- so that neither expired nor not-yet-replaced credentials are offered', bool(sel) and bool(exp) and bool(rdy) and locked and not g.dominated(exp, rdy) and not g.dominated(sel, exp),
           loc=f.loc(sel[0].stmt) if sel else f.loc(), construct=construct(f, 'order:ready<expire<select'))
    ctx.ob(rule, 'Vault._items: the credentials are offered OUTSIDE the vault lock (the consumer must be able to invalidate them; all blocked requests proceed)',
           bool(ys) and not any(with_frames(y, '._guard') for y in ys), loc=f.loc(ys[0].stmt) if ys else f.loc(), construct=construct(f, 'atomic:yield outside the lock'))
    for y in ys:
        yv = [x for x in walk_no_defs(y.stmt) if isinstance(x, ast.Yield)][0].value
        tg = [n.stmt.targets[0] for n in sel if isinstance(n.stmt, ast.Assign)]
        same = isinstance(yv, ast.Tuple) and bool(tg) and isinstance(tg[0], ast.Tuple) and [dotted(e) for e in yv.elts] == [dotted(e) for e in tg[0].elts]
        ctx.ob(rule, 'Vault._items offers exactly the (key, item) pair that was selected', same, loc=f.loc(y.stmt), construct=construct(f, 'flow:yield the selected'))
        if not same:
            continue
        kv, iv = (dotted(e) for e in yv.elts)
        brks = [n for n in g.reach([y]) if n.kind == 'break']
        early = [n for n in g.nodes if n.kind == 'break' and n not in brks]

        def still_key(e: ast.AST, o: bool) -> bool:
            return isinstance(e, ast.Compare) and len(e.ops) == 1 and isinstance(e.ops[0], ast.In) and o is True and dotted(e.left) == kv and dotted(e.comparators[0]) == f'{me}._current'

        def still_same(e: ast.AST, o: bool) -> bool:
            if isinstance(e, ast.Compare) and len(e.ops) == 1 and isinstance(e.ops[0], ast.Is) and o is True:
                a, b = e.left, e.comparators[0]
                for x, z in ((a, b), (b, a)):
                    if isinstance(x, ast.Subscript) and dotted(x.value) == f'{me}._current' and dotted(x.slice) == kv and dotted(z) == iv:
                        return True
            return False
        ok = bool(brks) and not early
        for b in brks:
            conds = dominating_conditions(g, b)
            ok = ok and any(cond_implies(t, o, still_key) for t, o, _ in conds) and any(cond_implies(t, o, still_same) for t, o, _ in conds) and bool(with_frames(b, '._guard'))
        ctx.ob(rule, 'Vault._items: the iteration ends only if the offered item is STILL the current one of its key (same object: it was not invalidated by the consumer); '
               'otherwise the next credentials are offered -- the failed request is re-run with fresh credentials', ok, loc=f.loc(brks[0].stmt) if brks else f.loc(),
               construct=construct(f, 'guard:break iff still current (is)'))


def check_vault_expiry(ctx: Ctx, rule: str) -> None:
    repo = ctx.repo
    f, g = cfg_of(ctx, f'{CRED}.Vault._expire')
    me = self_name(f)
    dels = g.stmt_nodes(lambda x: isinstance(x, ast.Delete) and any(isinstance(t, ast.Subscript) and dotted(t.value) == f'{me}._current' for t in x.targets))
    ctx.require_sites(rule, 'Vault._expire: removal of an expired item', len(dels), 1, f.loc())
    nows = {n.targets[0].id for n in walk_no_defs(f.node) if isinstance(n, ast.Assign) and isinstance(n.targets[0], ast.Name) and isinstance(n.value, ast.Call)
            and (repo.resolve(f.module, n.value.func) or '').endswith('datetime.now')}
    for n in dels:
        loops = [fr.stmt for fr in n.frames if fr.kind == 'loop' and isinstance(fr.stmt, ast.For)]
        snap = bool(loops) and isinstance(loops[-1].iter, ast.Call) and dotted(loops[-1].iter.func) in ('list', 'tuple', 'sorted') and whole_of(loops[-1].iter, f'{me}._current')
        item = dotted(loops[-1].target.elts[1]) if loops and isinstance(loops[-1].target, ast.Tuple) and len(loops[-1].target.elts) == 2 else None
        exps = {x.targets[0].id for x in walk_no_defs(loops[-1]) if isinstance(x, ast.Assign) and isinstance(x.targets[0], ast.Name) and dotted(x.value) == f'{item}.info.expiration'} if loops else set()

        def not_none(e: ast.AST, o: bool) -> bool:
            return isinstance(e, ast.Compare) and isinstance(e.ops[0], ast.Is) and is_none(e.comparators[0]) and dotted(e.left) in exps and o is False

        def due(e: ast.AST, o: bool) -> bool:
            if isinstance(e, ast.Compare) and len(e.ops) == 1 and o is True:
                l, r, op = dotted(e.left), dotted(e.comparators[0]), e.ops[0]
                return (l in nows and r in exps and isinstance(op, ast.GtE)) or (l in exps and r in nows and isinstance(op, ast.LtE))
            return False
        conds = dominating_conditions(g, n)
        inner = [(t, o) for t, o, b in conds if loops and any(fr.stmt is loops[-1] for fr in b.frames) and not (isinstance(t, ast.Constant))]
        ok = snap and any(cond_implies(t, o, not_none) for t, o in inner) and any(cond_implies(t, o, due) for t, o in inner) and len(inner) == 2
        ctx.ob(rule, 'Vault._expire: every current item whose expiration time has come (now >= expiration; no expiration = never) is removed from the current credentials -- '
               'expired credentials are never selected', ok, loc=f.loc(n.stmt), construct=construct(f, 'guard:remove iff now >= expiration'),
               detail='; '.join(f'{norm(t, 50)} is {o}' for t, o in inner))
        naive = [x for x in walk_no_defs(loops[-1]) if isinstance(x, ast.Call) and method_call(x, 'replace') is not None and kwarg(x, 'tzinfo') is not None] if loops else []
        ctx.ob(rule, 'Vault._expire: a timezone-naive expiration is read as UTC before it is compared with the (timezone-aware) clock', bool(naive), loc=f.loc(n.stmt),
               construct=construct(f, 'config:naive expiration = UTC'))
    ue = repo.fn(f'{CRED}.Vault._update_expiration')
    ctx.analysed(ue)
    w = [n for n in walk_no_defs(ue.node) if isinstance(n, ast.Assign) and any(_attr_of_self(ue, t, '_next_expiration') for t in n.targets)]
    mins = [c for n in w for c in calls_in(n.value) if dotted(c.func) in ('min', 'max')]
    ctx.ob(rule, 'Vault._update_expiration: the next check is due at the EARLIEST expiration of the current credentials', len(w) == 1 and len(mins) == 1 and dotted(mins[0].func) == 'min'
           and '_current' in src(ue.node, 2000), loc=ue.loc(), construct=construct(ue, 'formula:min expiration'))
    # whoever changes the current credentials re-computes the next expiration afterwards
    n_sites = 0
    for fn in repo.functions_in(CRED):
        if fn.cls is None or fn.cls.qualname != f'{CRED}.Vault' or fn.name in ('__init__', '_update_expiration'):
            continue
        gg = cfg_of(ctx, fn)[1]
        me2 = self_name(fn)
        muts = gg.stmt_nodes(lambda x: (isinstance(x, (ast.Assign, ast.Delete)) and any(isinstance(t, ast.Subscript) and dotted(t.value) == f'{me2}._current' for t in x.targets)))
        if not muts:
            continue
        n_sites += len(muts)
        ups = gg.call_nodes(f'{CRED}.Vault._update_expiration')
        esc = gg.escaping_exits(muts, ups, classes=('normal',), edge_ok=normal_edges)
        ctx.ob(rule, f'Vault.{fn.name}: after the current credentials changed, the time of the next expiration is re-computed (else an expiring item is noticed too late or never)',
               bool(ups) and not esc, loc=fn.loc(muts[0].stmt), construct=construct(fn, 'allexits:_update_expiration'))
    ctx.require_sites(rule, 'Vault: changes of the current credentials', n_sites, 3)


def check_vault_reauth(ctx: Ctx, rule: str) -> None:
    repo = ctx.repo
    f = repo.fn(f'{CRED}.Vault.invalidate')
    ctx.analysed(f)
    me, key, info, exc = self_name(f), param(f, 'key'), param(f, 'info'), param(f, 'exc')

    def eff(it, p, call, names):
        if f'{CRED}.Vault._flush_caches' in names:
            return 'flush'
        if recv_is(call, 'notify_all', '_guard'):
            return 'notify'
        if recv_is(call, 'wait_for', '_guard'):
            return 'wait'
        return None
    paths = absint.analyse(repo, f, absint.Config(effect=eff))
    ctx.count('paths', len(paths))
    atoms = {'IN': rf'^in\({key}, {me}\._current\)$', 'SAME': rf'^eq\(({info}, {me}\._current\[{key}\]\.info|{me}\._current\[{key}\]\.info, {info})\)$',
             'CUR': rf'^truthy\({me}\._current\)$', 'EXC0': rf'^isnone\({exc}\)$'}

    def observe(p):
        out = []
        for e in p.trace:
            if e.label in ('flush', 'notify', 'wait'):
                out.append(e.label)
            elif e.label == f'setitem:{me}._invalid':
                out.append('remember')
            elif e.label == f'delitem:{me}._current':
                out.append('remove' if e.kw['index'].key == key else 'remove-another')
            elif e.label == f'write:{me}._ready':
                out.append('unready' if e.kw['value'].key == 'False' else 'ready')
        return (tuple(out), p.exc if p.status == 'raise' else 'ok')

    def spec(v):
        out = ('flush', 'remember', 'remove') if v['IN'] and v['SAME'] else ()
        if not v['CUR']:
            out += ('unready', 'notify', 'wait')
        return (out, f'{CRED}.LoginError' if not v['CUR'] and not v['EXC0'] else 'ok')
    table_check(ctx, rule, f, paths, atoms, spec, observe,
                what='Vault.invalidate: the reported credentials are discarded (caches flushed, remembered as invalid, removed) iff they are STILL the current ones of their key; '
                     'if nothing current is left the vault is marked not ready, the authenticator is notified and the caller waits for new credentials; if there are still none '
                     'the original error surfaces as LoginError')
    ident = [n for n in walk_no_defs(f.node) if isinstance(n, ast.Compare) and len(n.ops) == 1 and isinstance(n.ops[0], (ast.Is, ast.Eq)) and dotted(n.comparators[0]) == info or
             (isinstance(n, ast.Compare) and len(n.ops) == 1 and isinstance(n.ops[0], (ast.Is, ast.Eq)) and dotted(n.left) == info)]
    ctx.ob(rule, 'Vault.invalidate recognises "still the current ones" by IDENTITY of the reported credentials (several requests hit by one 401 report the same object; '
           'equal credentials obtained by the re-authentication are a new object and stay)', len(ident) == 1 and isinstance(ident[0].ops[0], ast.Is), loc=f.loc(ident[0]) if ident else f.loc(),
           construct=construct(f, 'formula:identity of the reported credentials'))
    # the same trigger when everything has expired
    x = repo.fn(f'{CRED}.Vault._expire')
    ctx.analysed(x)
    mx = self_name(x)
    flags = set()
    for n in walk_no_defs(x.node):
        if isinstance(n, ast.Delete) and any(isinstance(t, ast.Subscript) and dotted(t.value) == f'{mx}._current' for t in n.targets):
            par = x.module.parent.get(n)
            body = getattr(par, 'body', [])
            flags |= {s.targets[0].id for s in body if isinstance(s, ast.Assign) and isinstance(s.targets[0], ast.Name) and isinstance(s.value, ast.Constant) and s.value.value is True}
    trig = [n for n in walk_no_defs(x.node) if isinstance(n, ast.If) and any(isinstance(s, ast.Assign) and any(_attr_of_self(x, t, '_ready') for t in s.targets)
                                                                                and isinstance(s.value, ast.Constant) and s.value.value is False for s in n.body)]
    ok = len(trig) == 1 and len(flags) == 1
    if ok:
        fl = next(iter(flags))
        atoms_: set = set()
        code = bexpr(x, trig[0].test, lambda e: ('expired', True) if dotted(e) == fl else ('current', True) if dotted(e) == f'{mx}._current' else None, atoms_)
        d = tt_diff(code, lambda v: v['expired'] and not v['current'], atoms_ | {'expired', 'current'})
        body = trig[0].body
        seq = [('unready' if isinstance(s, ast.Assign) else 'notify' if any(recv_is(c, 'notify_all', '_guard') for c in calls_in(s)) else 'wait' if any(recv_is(c, 'wait_for', '_guard') for c in calls_in(s)) else '?')
               for s in body]
        ok = d is None and seq == ['unready', 'notify', 'wait']
    ctx.ob(rule, 'Vault._expire: when the expiry removed the LAST current credentials, the vault is marked not ready, the authenticator is notified and the caller waits for new '
           'credentials (instead of failing with "ran out of credentials")', ok, loc=x.loc(trig[0]) if trig else x.loc(), construct=construct(x, 'table:re-authentication after expiry'))
    # populate: new credentials, then ready, then wake everybody up
    pf = repo.fn(f'{CRED}.Vault.populate')
    ctx.analysed(pf)
    mp = self_name(pf)

    def eff2(it, p, call, names):
        if f'{CRED}.Vault._update_converted' in names:
            return 'update'
        if recv_is(call, 'notify_all', '_guard'):
            return 'notify'
        return None
    pp = absint.analyse(repo, pf, absint.Config(effect=eff2))
    seqs = {tuple('ready' if e.label == f'write:{mp}._ready' and e.kw['value'].key == 'True' else e.label for e in p.trace if e.label in ('update', 'notify') or e.label.startswith('write:')) for p in pp}
    g2 = cfg_of(ctx, pf)[1]
    locked = all(with_frames(n, '._guard') for n in g2.stmt_nodes(lambda x_: isinstance(x_, ast.Call) and (recv_is(x_, 'notify_all', '_guard') or is_call_to(repo, pf, x_, f'{CRED}.Vault._update_converted'))))
    ctx.ob(rule, 'Vault.populate: under the lock the new credentials are stored, THEN the vault is marked ready and ALL waiting requests are woken up (they proceed with the fresh '
           'credentials)', seqs == {('update', 'ready', 'notify')} and locked, loc=pf.loc(), construct=construct(pf, 'order:update<ready<notify_all'), detail=str(sorted(seqs)))
    vi = repo.fn(f'{CRED}.Vault.__init__')
    ctx.analysed(vi)
    mi = self_name(vi)
    r0 = [n.value for n in walk_no_defs(vi.node) if isinstance(n, (ast.Assign, ast.AnnAssign)) and any(dotted(t) == f'{mi}._ready' for t in (n.targets if isinstance(n, ast.Assign) else [n.target]))]
    ok0 = len(r0) == 1 and isinstance(r0[0], ast.UnaryOp) and isinstance(r0[0].op, ast.Not) and isinstance(r0[0].operand, ast.Call) and dotted(r0[0].operand.func) == f'{mi}.is_empty'
    ie = repo.fn(f'{CRED}.Vault.is_empty')
    ctx.analysed(ie)
    rets = [org(ie, n.value) for n in walk_no_defs(ie.node) if isinstance(n, ast.Return) and n.value is not None]
    okf = False
    if len(rets) == 1 and isinstance(rets[0], ast.Call) and dotted(rets[0].func) == 'all' and rets[0].args and isinstance(rets[0].args[0], (ast.GeneratorExp, ast.ListComp)):
        gen = rets[0].args[0]
        v = gen.generators[0].target.id if isinstance(gen.generators[0].target, ast.Name) else None
        atoms_e: set = set()

        def leaf_e(e: ast.AST):
            if isinstance(e, ast.Compare) and len(e.ops) == 1 and isinstance(e.ops[0], (ast.GtE, ast.LtE)):
                l, r = dotted(e.left), dotted(e.comparators[0])
                if (r == v and isinstance(e.ops[0], ast.GtE)) or (l == v and isinstance(e.ops[0], ast.LtE)):
                    return ('due', True)
            return role_leaf(lambda x: 'dt' if dotted(x) == v else None)(e)
        code = bexpr(ie, gen.elt, leaf_e, atoms_e)
        okf = tt_diff(code, lambda val: not val['none:dt'] and val['due'], atoms_e | {'none:dt', 'due'}) is None and not gen.generators[0].ifs
    ctx.ob(rule, 'Vault: a new vault is ready iff it holds credentials that are not all expired (empty = every item has an expiration that has come); an empty one waits for the '
           'first authentication instead of failing', ok0 and okf, loc=vi.loc(), construct=construct(vi, 'formula:initially ready = not empty'))
    src_ok = [c for c in calls_in(pf.node) if is_call_to(repo, pf, c, f'{CRED}.Vault._update_converted')]
    ctx.ob(rule, 'Vault.populate stores exactly the credentials it was given', len(src_ok) == 1 and src_ok[0].args and dotted(src_ok[0].args[0]) == pf.params()[1].arg, loc=pf.loc(),
           construct=construct(pf, 'flow:populate(src)'))


def check_vault_cleanup(ctx: Ctx, rule: str) -> None:
    """Session closed on invalidation/expiry: the caches of an item are flushed before the item leaves the vault."""
    repo = ctx.repo
    n_sites = 0
    for name in ('invalidate', '_expire'):
        f, g = cfg_of(ctx, f'{CRED}.Vault.{name}')
        me = self_name(f)
        dels = g.stmt_nodes(lambda x: isinstance(x, ast.Delete) and any(isinstance(t, ast.Subscript) and dotted(t.value) == f'{me}._current' for t in x.targets))
        for d in dels:
            n_sites += 1
            t = [t for t in d.stmt.targets if isinstance(t, ast.Subscript)][0]
            kv = dotted(t.slice)
            loops = [fr.stmt for fr in d.frames if fr.kind == 'loop' and isinstance(fr.stmt, ast.For)]
            item_names = {f'{me}._current[{kv}]'}
            if loops and isinstance(loops[-1].target, ast.Tuple) and len(loops[-1].target.elts) == 2 and dotted(loops[-1].target.elts[0]) == kv:
                item_names.add(dotted(loops[-1].target.elts[1]))
            fl = g.stmt_nodes(lambda x: isinstance(x, ast.Call) and is_call_to(repo, f, x, f'{CRED}.Vault._flush_caches') and x.args and src(x.args[0]) in item_names)
            awaited = all(isinstance(f.module.parent.get(c), ast.Await) for n in fl for c in calls_in(n.stmt) if is_call_to(repo, f, c, f'{CRED}.Vault._flush_caches'))
            ctx.ob(rule, f'Vault.{name}: before an item leaves the current credentials, ITS cached objects (the aiohttp session built from it) are closed -- a session of '
                   'invalidated/expired credentials is not left open or reused', bool(fl) and awaited and not g.dominated([d], fl), loc=f.loc(d.stmt), construct=construct(f, 'order:flush<remove'))
    ctx.require_sites(rule, 'Vault: removals of an item from the current credentials', n_sites, 2)
    fc = repo.fn(f'{CRED}.Vault._flush_caches')
    ctx.analysed(fc)
    item = fc.params()[1].arg
    loops = [n for n in walk_no_defs(fc.node) if isinstance(n, ast.For) and whole_of(n.iter, f'{item}.caches')]
    closes = [c for lp in loops for c in calls_in(lp) if isinstance(c.func, ast.Call) and dotted(c.func.func) == 'getattr' and len(c.func.args) == 2
              and isinstance(c.func.args[1], ast.Constant) and c.func.args[1].value == 'close' or (isinstance(c.func, ast.Attribute) and c.func.attr == 'close')]
    awaited = [c for c in closes if isinstance(fc.module.parent.get(c), ast.Await)]
    resets = [n for n in fc.node.body if isinstance(n, ast.Assign) and any(dotted(t) == f'{item}.caches' for t in n.targets) and is_none(n.value)]
    ctx.ob(rule, 'Vault._flush_caches: every cached object that has `close` is closed (awaited when it is a coroutine function), then the caches are dropped', len(loops) == 1 and len(closes) >= 2
           and len(awaited) >= 1 and len(awaited) < len(closes) and bool(resets) and not loop_escapes(loops[0]), loc=fc.loc(), construct=construct(fc, 'flow:close every cached object'))
    ac = repo.fn(f'{AUTH}.APIContext.close')
    ctx.analysed(ac)
    ma = self_name(ac)
    sess = [c for c in calls_in(ac.node) if method_call(c, 'close') is not None and dotted(method_call(c, 'close')) == f'{ma}.session' and isinstance(ac.module.parent.get(c), ast.Await)]
    resp = [c for c in calls_in(ac.node) if is_call_to(repo, ac, c, f'{AUTH}.APIContext.close_open_responses')]
    ctx.ob(rule, 'APIContext.close: the open responses of the session (running watch-streams) are closed and the aiohttp session itself is closed (awaited), unconditionally',
           len(sess) == 1 and len(resp) == 1 and all(any(s.value is x or getattr(s.value, 'value', None) is x for s in ac.node.body if isinstance(s, ast.Expr)) for x in sess + resp), loc=ac.loc(),
           construct=construct(ac, 'flow:close responses and session'))
    cor = repo.fn(f'{AUTH}.APIContext.close_open_responses')
    ctx.analysed(cor)
    mc = self_name(cor)
    lp = [n for n in walk_no_defs(cor.node) if isinstance(n, ast.For) and dotted(n.iter) == f'{mc}.responses' and isinstance(n.target, ast.Name)]
    ok = len(lp) == 1 and any(method_call(c, 'close') is not None and dotted(method_call(c, 'close')) == lp[0].target.id for c in calls_in(lp[0])) and not loop_escapes(lp[0])
    ctx.ob(rule, 'APIContext.close_open_responses closes every tracked response that is still open', ok, loc=cor.loc(), construct=construct(cor, 'flow:close all responses'))
    ar = repo.fn(f'{AUTH}.APIContext.add_response')
    ctx.analysed(ar)
    mr, rp = self_name(ar), ar.params()[1].arg
    g3 = cfg_of(ctx, ar)[1]
    apps = g3.stmt_nodes(lambda x: isinstance(x, ast.Call) and method_call(x, 'append') is not None and dotted(method_call(x, 'append')) == f'{mr}.responses' and x.args and dotted(x.args[0]) == rp)
    conds = [(t, o) for n in apps for t, o, _ in dominating_conditions(g3, n)]
    ctx.ob(rule, 'APIContext.add_response remembers every response that is still open (so that it can be closed with the session)', len(apps) == 1 and all(
        cond_implies(t, o, lambda e, oo: dotted(e) == f'{rp}.closed' and oo is False) for t, o in conds) and len(conds) <= 1, loc=ar.loc(), construct=construct(ar, 'flow:responses.append(open response)'))
    vc = repo.fn(f'{CRED}.Vault.close')
    ctx.analysed(vc)
    mv = self_name(vc)
    lp = [n for n in walk_no_defs(vc.node) if isinstance(n, ast.For) and whole_of(n.iter, f'{mv}._current')]
    ok = len(lp) == 1 and any(is_call_to(repo, vc, c, f'{CRED}.Vault._flush_caches') and isinstance(vc.module.parent.get(c), ast.Await) for c in calls_in(lp[0])) and not loop_escapes(lp[0])
    ctx.ob(rule, 'Vault.close flushes the caches of every current item when the operator ends', ok, loc=vc.loc(), construct=construct(vc, 'flow:flush all on close'))


def check_vault_extended(ctx: Ctx, rule: str) -> None:
    repo = ctx.repo
    f, g = cfg_of(ctx, f'{CRED}.Vault.extended')
    factory, purpose = param(f, 'factory'), param(f, 'purpose')
    loops = [n for n in walk_no_defs(f.node) if isinstance(n, ast.AsyncFor) and any(is_call_to(repo, f, c, f'{CRED}.Vault._items') for c in calls_in(n.iter))]
    if len(loops) != 1 or not isinstance(loops[0].target, ast.Tuple) or len(loops[0].target.elts) != 2:
        raise AnalysisError(f'{f.loc()}: expected `async for key, item in self._items()` in Vault.extended')
    kv, iv = (dotted(e) for e in loops[0].target.elts)
    builds = g.stmt_nodes(lambda x: isinstance(x, ast.Call) and dotted(x.func) == factory)
    ctx.require_sites(rule, 'Vault.extended: construction of the cached object (the API context with its session)', len(builds), 1, f.loc())
    for n in builds:
        c = [c for c in calls_in(n.stmt) if dotted(c.func) == factory][0]
        stored = isinstance(n.stmt, ast.Assign) and isinstance(n.stmt.targets[0], ast.Subscript) and dotted(n.stmt.targets[0].value) == f'{iv}.caches' and dotted(n.stmt.targets[0].slice) == purpose
        from_info = len(c.args) == 1 and dotted(c.args[0]) == f'{iv}.info'

        def absent(e: ast.AST, o: bool) -> bool:
            return isinstance(e, ast.Compare) and len(e.ops) == 1 and isinstance(e.ops[0], ast.In) and o is False and dotted(e.left) == purpose and dotted(e.comparators[0]) == f'{iv}.caches'
        once = any(cond_implies(t, o, absent) for t, o, _ in dominating_conditions(g, n))
        ctx.ob(rule, 'Vault.extended: the object (session) is built from the connection info of THIS item, only when the item has none for the purpose yet, and is stored in the item\'s '
               'caches -- which is what gets closed when the item is invalidated', stored and from_info and once and bool(with_frames(n, '._guard')), loc=f.loc(n.stmt),
               construct=construct(f, 'flow:caches[purpose] = factory(item.info) once'))
    ys = [y for y in walk_no_defs(loops[0]) if isinstance(y, ast.Yield)]
    ok = len(ys) == 1 and isinstance(ys[0].value, ast.Tuple) and len(ys[0].value.elts) == 3 and dotted(ys[0].value.elts[0]) == kv and dotted(ys[0].value.elts[1]) == f'{iv}.info'
    third = strip(ys[0].value.elts[2]) if ok else None
    ok = ok and isinstance(third, ast.Subscript) and dotted(third.value) == f'{iv}.caches' and dotted(third.slice) == purpose and top_level(loops[0], ys[0])
    ctx.ob(rule, 'Vault.extended offers (key, info, cached object) of one and the same item; the object is the CACHED one (what invalidate() is later called with identifies '
           'the item whose session is closed)', bool(ok), loc=f.loc(ys[0]) if ys else f.loc(), construct=construct(f, 'flow:yield (key, item.info, item.caches[purpose])'))


def check_request_handover(ctx: Ctx, rule: str) -> None:
    repo = ctx.repo
    f = repo.fn(f'{API}.request')
    ctx.analysed(f)
    raw = [c for c in calls_in(f.node) if any(n.startswith('aiohttp.ClientSession.') for n in repo.callee_names(f, c)) and method_call(c, 'request') is not None]
    ctx.require_sites(rule, 'api.request: the raw session request', len(raw), 1, f.loc())
    for c in raw:
        want = {'method': 'method', 'url': 'url', 'json': 'payload', 'headers': 'headers', 'timeout': 'timeout'}
        wrong = [k for k, v in want.items() if dotted(kwarg(c, k)) != param(f, v)]
        ctx.ob(rule, 'api.request hands method, URL, payload (as JSON body), headers and timeout to the session as given (a retried attempt repeats the very same request)',
               not wrong and (dotted(method_call(c, 'request')) or '').endswith('.session'), loc=f.loc(c), construct=construct(f, 'config:session.request(...)'),
               detail=', '.join(f'{k}={norm(kwarg(c, k))}' for k in wrong))
    ctxp = param(f, 'context')
    rel = [n for n in f.node.body if isinstance(n, ast.If) and any(isinstance(s, ast.Assign) and any(dotted(t) == param(f, 'url') for t in s.targets) for s in n.body)]
    ok = len(rel) == 1 and isinstance(rel[0].test, ast.Compare) and isinstance(rel[0].test.ops[0], ast.NotIn) and isinstance(rel[0].test.left, ast.Constant) and rel[0].test.left.value == '://' \
        and dotted(rel[0].test.comparators[0]) == param(f, 'url') and f'{ctxp}.server' in src(rel[0].body[0].value, 300) and param(f, 'url') in {n.id for n in ast.walk(rel[0].body[0].value) if isinstance(n, ast.Name)}
    ctx.ob(rule, 'api.request: a relative URL is resolved against the server of the credentials the attempt runs with (after a re-authentication: the new server)', ok,
           loc=f.loc(rel[0]) if rel else f.loc(), construct=construct(f, 'flow:url relative to context.server'))
    # the decorator: with an explicit context nothing is re-authenticated, but responses are tracked in both arms
    deco = repo.fn(f'{AUTH}.authenticated')
    inner = [fn for fn in repo.all_functions() if fn.outer is deco]
    if len(inner) != 1:
        raise AnalysisError(f'{deco.loc()}: expected exactly one wrapper inside auth.authenticated')
    w = inner[0]
    ctx.analysed(w)
    fparam = deco.params()[0].arg
    calls = [c for c in calls_in(w.node) if isinstance(c.func, ast.Name) and c.func.id == fparam]
    tracked = 0
    for c in calls:
        st = repo.stmt_of(w.module, c)
        tgt = st.targets[0].id if isinstance(st, ast.Assign) and isinstance(st.targets[0], ast.Name) else None
        blk = [b for b in ast.walk(w.node) if isinstance(getattr(b, 'body', None), list) and st in b.body]
        sib = blk[0].body[blk[0].body.index(st) + 1:] if blk else []
        adds = [x for s in sib for x in walk_no_defs(s) if isinstance(x, ast.Call) and method_call(x, 'add_response') is not None and x.args and dotted(x.args[0]) == tgt]
        rets = [s for s in sib if isinstance(s, ast.Return) and dotted(s.value) == tgt]
        if adds and rets:
            tracked += 1
    ctx.ob(rule, 'authenticated: in both arms (explicit context / vault credentials) the response is registered with the context that produced it and returned -- the open '
           'responses of invalidated credentials can be closed with their session', len(calls) == 2 and tracked == 2, loc=w.loc(), construct=construct(w, 'flow:add_response in both arms'),
           detail=f'{tracked} of {len(calls)} call sites')



# ============================================================================================== C13: peering helpers
def _plain_number(e: ast.AST, name: str) -> bool:
    """`name`, `int(name)` or `float(name)` -- the value as given, nothing substituted."""
    while isinstance(e, ast.Call) and dotted(e.func) in ('int', 'float') and len(e.args) == 1 and not e.keywords:
        e = e.args[0]
    return dotted(e) == name


def check_peer_record(ctx: Ctx, rule: str) -> None:
    """What one operator writes into the peering object (Peer.as_dict) is what the others read back (Peer.__init__)."""
    repo = ctx.repo
    init, ad = repo.fn(f'{PEER}.Peer.__init__'), repo.fn(f'{PEER}.Peer.as_dict')
    ctx.analysed(init, ad)
    me, ma = self_name(init), self_name(ad)
    rets = [n.value for n in walk_no_defs(ad.node) if isinstance(n, ast.Return) and n.value is not None]
    d = org(ad, rets[0]) if len(rets) == 1 else None
    if not isinstance(d, ast.Dict) or not all(isinstance(k, ast.Constant) for k in d.keys):
        raise AnalysisError(f'{ad.loc()}: Peer.as_dict does not return a literal record')
    written = {k.value: v for k, v in zip(d.keys, d.values)}
    kwonly = {a.arg for a in init.node.args.kwonlyargs + init.node.args.args} - {me, 'identity'}
    ctx.ob(rule, f'Peer: the published record carries every field the readers interpret ({sorted(kwonly)}) under the very names Peer.__init__ accepts', set(written) == kwonly, loc=ad.loc(d),
           construct=construct(ad, 'keys:as_dict = __init__ fields'), detail=f'written {sorted(written)}, read {sorted(kwonly)}')
    sets = {n.targets[0].attr: n.value for n in walk_no_defs(init.node) if isinstance(n, ast.Assign) and len(n.targets) == 1 and isinstance(n.targets[0], ast.Attribute) and dotted(n.targets[0].value) == me}
    lt_r, lt_w = sets.get('lifetime'), written.get('lifetime')
    unit_r = isinstance(lt_r, ast.Call) and (repo.resolve(init.module, lt_r.func) or '').endswith('timedelta') and [k.arg for k in lt_r.keywords] == ['seconds'] and not lt_r.args \
        and _plain_number(lt_r.keywords[0].value, 'lifetime')
    unit_w = lt_w is not None and any(method_call(c, 'total_seconds') is not None and dotted(method_call(c, 'total_seconds')) == f'{ma}.lifetime' for c in calls_in(lt_w))
    ctx.ob(rule, 'Peer: the lifetime is published in whole SECONDS of the full duration (total_seconds) and read back as seconds -- the deadline the other operators compute is the one '
           'the owner meant', unit_r and unit_w, loc=init.loc(lt_r) if lt_r is not None else init.loc(), construct=construct(init, 'keys:lifetime unit'), detail=f'read {norm(lt_r)}; written {norm(lt_w)}')
    ls_r, ls_w = sets.get('lastseen'), written.get('lastseen')
    parse = ls_r is not None and any((repo.resolve(init.module, c.func) or '') in ('iso8601.parse_date', 'datetime.datetime.fromisoformat') and c.args and dotted(c.args[0]) == 'lastseen' for c in calls_in(ls_r))
    fmt = ls_w is not None and any(method_call(c, 'isoformat') is not None and dotted(method_call(c, 'isoformat')) == f'{ma}.lastseen' for c in calls_in(ls_w))
    ctx.ob(rule, 'Peer: lastseen is published in ISO-8601 and parsed as such', parse and fmt, loc=init.loc(ls_r) if ls_r is not None else init.loc(), construct=construct(init, 'keys:lastseen format'))
    pr_r, pr_w = sets.get('priority'), written.get('priority')
    ctx.ob(rule, 'Peer: the priority and the identity are taken as given (the priority a peer publishes is the one the others compare with their own)',
           dotted(pr_r) == 'priority' and dotted(sets.get('identity')) == 'identity' and pr_w is not None and f'{ma}.priority' in src(pr_w), loc=init.loc(), construct=construct(init, 'keys:priority/identity'))


def check_touch_clean(ctx: Ctx, rule: str) -> None:
    repo = ctx.repo
    t = repo.fn(f'{PEER}.touch')
    ctx.analysed(t)
    st, lt = param(t, 'settings'), param(t, 'lifetime')
    ctors = [c for c in calls_in(t.node) if any(n.endswith('peering.Peer') for n in repo.callee_names(t, c))]
    ctx.require_sites(rule, 'touch: construction of the own record', len(ctors), 1, t.loc())
    for c in ctors:
        ctx.ob(rule, 'touch: the own record carries the operator\'s configured priority and its own identity', dotted(org(t, kwarg(c, 'priority'))) == f'{st}.peering.priority'
               and dotted(kwarg(c, 'identity')) == param(t, 'identity'), loc=t.loc(c), construct=construct(t, 'config:Peer(priority=settings.peering.priority)'), detail=norm(kwarg(c, 'priority')))
        lv = org(t, kwarg(c, 'lifetime'))
        ok = False
        if isinstance(lv, ast.IfExp):
            atoms: set = set()
            test = bexpr(t, lv.test, role_leaf(lambda e: 'lifetime' if dotted(e) == lt else None), atoms)
            if atoms == {'none:lifetime'}:
                dflt, given = (lv.body, lv.orelse) if test({'none:lifetime': True}) else (lv.orelse, lv.body)
                ok = dotted(dflt) == f'{st}.peering.lifetime' and dotted(given) == lt and test({'none:lifetime': True}) != test({'none:lifetime': False})
        ctx.ob(rule, 'touch: without an explicit lifetime the record lives for the configured settings.peering.lifetime (a given one, including 0, is used as it is)', ok, loc=t.loc(c),
               construct=construct(t, 'formula:default lifetime'), detail=norm(lv))
    for ref, what in ((f'{PEER}.touch', 'touch'), (f'{PEER}.clean', 'clean')):
        f = repo.fn(ref)
        ctx.analysed(f)
        sent = [c for c in calls_in(f.node) if is_call_to(repo, f, c, 'patching.patch_obj')]
        ctx.require_sites(rule, f'{what}: the patch request', len(sent), 1, f.loc())
        for c in sent:
            pv = kwarg(c, 'patch')
            grown = [n for n in walk_no_defs(f.node) if isinstance(n, ast.AugAssign) and isinstance(n.op, ast.BitOr) and dotted(n.target) == dotted(pv)
                     and isinstance(n.value, ast.Dict) and any(isinstance(k, ast.Constant) and k.value == 'status' for k in n.value.keys)]
            ok = dotted(org(f, kwarg(c, 'name'))) == f'{param(f, "settings")}.peering.name' and dotted(kwarg(c, 'resource')) == param(f, 'resource') \
                and dotted(kwarg(c, 'namespace')) == param(f, 'namespace') and len(grown) == 1 and isinstance(f.module.parent.get(c), ast.Await)
            ctx.ob(rule, f'{what}: the status payload is sent (awaited) to the configured peering object (settings.peering.name) of the given peering resource and namespace', ok,
                   loc=f.loc(c), construct=construct(f, 'config:patch_obj(name, resource, namespace, patch)'))
    cl = repo.fn(f'{PEER}.clean')
    comps = [n for n in walk_no_defs(cl.node) if isinstance(n, ast.DictComp)]
    ok = len(comps) == 1 and len(comps[0].generators) == 1 and dotted(comps[0].generators[0].iter) == param(cl, 'peers') and not comps[0].generators[0].ifs \
        and isinstance(comps[0].generators[0].target, ast.Name) and dotted(comps[0].key) == f'{comps[0].generators[0].target.id}.identity' and is_none(comps[0].value)
    ctx.ob(rule, 'clean: the record of EVERY given (dead) peer is removed (set to None under its identity)', ok, loc=cl.loc(comps[0]) if comps else cl.loc(), construct=construct(cl, 'flow:{peer.identity: None for all}'))
    # callers address the same peering object and write/clean as themselves
    for caller in (f'{PEER}.keepalive', f'{PEER}.process_peering_event'):
        f = repo.fn(caller)
        ctx.analysed(f)
        for c in [c for c in ast.walk(f.node) if isinstance(c, ast.Call) and is_call_to(repo, f, c, f'{PEER}.touch', f'{PEER}.clean')]:
            names = ('resource', 'namespace', 'settings') + (('identity',) if is_call_to(repo, f, c, f'{PEER}.touch') else ())
            wrong = [k for k in names if dotted(kwarg(c, k)) != param(f, k)]
            ctx.ob(rule, f'{f.name}: {norm(c.func)}() addresses the peering object this task was started for, as this operator', not wrong, loc=f.loc(c),
                   construct=construct(f, f'config:{norm(c.func)}(resource=, namespace=, identity=)'), detail=', '.join(wrong))
    pe = repo.fn(f'{PEER}.process_peering_event')
    sleeps = [c for c in calls_in(pe.node) if is_call_to(repo, pe, c, 'aiotime.sleep')]
    for c in sleeps:
        comp = org(pe, c.args[0] if c.args else kwarg(c, 'delays'))
        ok = False
        if isinstance(comp, ast.ListComp) and len(comp.generators) == 1 and isinstance(comp.generators[0].target, ast.Name):
            v = comp.generators[0].target.id
            e = comp.elt
            ts = isinstance(e, ast.Call) and method_call(e, 'total_seconds') is not None
            diff = method_call(e, 'total_seconds') if ts else None
            now = org(pe, diff.right) if isinstance(diff, ast.BinOp) else None
            ok = ts and isinstance(diff, ast.BinOp) and isinstance(diff.op, ast.Sub) and dotted(diff.left) == f'{v}.deadline' and isinstance(now, ast.Call) \
                and (repo.resolve(pe.module, now.func) or '').endswith('datetime.now')
        ctx.ob(rule, 'process_peering_event: the time to sleep per blocking peer is (its deadline - now) in seconds (positive while the peer is alive: no busy loop, no oversleeping)', bool(ok),
               loc=pe.loc(c), construct=construct(pe, 'formula:delay = deadline - now'), detail=norm(comp))


def check_own_id(ctx: Ctx, rule: str) -> None:
    repo = ctx.repo
    f = repo.fn(f'{PEER}.detect_own_id')
    ctx.analysed(f)
    manual = param(f, 'manual')
    rets = [n for n in walk_no_defs(f.node) if isinstance(n, ast.Return) and n.value is not None]

    def kinds_of(e: ast.AST, seen: Optional[set] = None) -> set:
        seen = set() if seen is None else seen
        out = set()
        for n in ast.walk(e):
            if isinstance(n, ast.Call):
                r = repo.resolve(f.module, n.func) or ''
                out |= {'time'} if r.endswith('datetime.now') else {'random'} if r.startswith('random.') else {'user'} if r == 'getpass.getuser' else {'host'} if 'hostname' in r else \
                    {'pod'} if r in ('os.environ.get', 'os.getenv') else set()
            if isinstance(n, ast.Name) and n.id not in seen:
                seen.add(n.id)
                for d in defs_of(f, n.id):
                    out |= kinds_of(d, seen)
        return out
    pods = [r for r in rets if kinds_of(r.value) == {'pod'}]
    g = cfg_of(ctx, f)[1]
    ok = False
    for r in pods:
        n = [x for x in g.nodes if x.kind == 'return' and x.stmt is r]
        conds = dominating_conditions(g, n[0]) if n else []
        ok = any(cond_implies(t, o, lambda e, oo: isinstance(e, ast.Compare) and isinstance(e.ops[0], ast.Is) and is_none(e.comparators[0]) and kinds_of(e.left) == {'pod'} and oo is False) for t, o, _ in conds)
    ctx.ob(rule, 'detect_own_id: a configured POD_ID (whenever it is set) is the identity', len(pods) == 1 and ok, loc=f.loc(pods[0]) if pods else f.loc(), construct=construct(f, 'guard:POD_ID is not None'))
    gen = [r for r in rets if r not in pods]
    ok = False
    detail = ''
    for r in gen:
        v = r.value.args[0] if isinstance(r.value, ast.Call) and len(r.value.args) == 1 else r.value
        v = org(f, v)
        if isinstance(v, ast.IfExp):
            atoms: set = set()
            test = bexpr(f, v.test, lambda e: ('manual', True) if dotted(e) == manual else None, atoms)
            auto, man = (v.orelse, v.body) if test({'manual': True}) else (v.body, v.orelse)
            ka, km = kinds_of(auto), kinds_of(man)
            detail = f'automatic: {sorted(ka)}, manual: {sorted(km)}'
            ok = atoms == {'manual'} and ka >= {'user', 'host', 'time', 'random'} and km >= {'user', 'host'} and not (km & {'time', 'random'})
    ctx.ob(rule, 'detect_own_id: an automatically generated identity combines user, host, the start time and a random part (two operators started by the same user on the same host '
           'are still two peers); only a manual identity is the stable user@host', len(gen) == 1 and ok, loc=f.loc(gen[0]) if gen else f.loc(), construct=construct(f, 'flow:identity inputs'), detail=detail)


def check_guess_selectors(ctx: Ctx, rule: str) -> None:
    repo = ctx.repo
    f = repo.fn(f'{PEER}.guess_selectors')
    ctx.analysed(f)
    st = param(f, 'settings')
    paths = absint.analyse(repo, f, absint.Config())
    atoms = {'ALONE': rf'^truthy\({st}\.peering\.standalone\)$', 'CLUSTER': rf'^truthy\({st}\.peering\.clusterwide\)$', 'NAMESPACED': rf'^truthy\({st}\.peering\.namespaced\)$'}

    def observe(p):
        if p.status == 'raise':
            return 'raise'
        if p.retval is None or p.retval.kind != 'coll' or p.retval.data[0] != 'display':
            return f'? {p.retval.key[:40] if p.retval else None}'
        names = sorted(e.key.rsplit('.', 1)[-1] for e in p.retval.data[1])
        return ' '.join(names)

    def spec(v):
        if v['ALONE']:
            return ''
        if v['CLUSTER']:
            return 'CLUSTER_PEERINGS_K CLUSTER_PEERINGS_Z'
        return 'NAMESPACED_PEERINGS_K NAMESPACED_PEERINGS_Z' if v['NAMESPACED'] else 'raise'
    table_check(ctx, rule, f, paths, atoms, spec, observe,
                what='guess_selectors: standalone => no peering at all; cluster-wide peering => the cluster-scoped peering resources (both API groups); namespaced peering => the '
                     'namespaced ones; anything else is refused')
    for cname, word in (('CLUSTER_PEERINGS_K', 'clusterkopfpeerings'), ('CLUSTER_PEERINGS_Z', 'clusterkopfpeerings'), ('NAMESPACED_PEERINGS_K', 'kopfpeerings'), ('NAMESPACED_PEERINGS_Z', 'kopfpeerings')):
        v = repo.const(f'{REF}.{cname}')
        plural = v.args[-1].value if isinstance(v, ast.Call) and v.args and isinstance(v.args[-1], ast.Constant) else None
        ctx.ob(rule, f'references.{cname} selects the `{word}` resource', plural == word, loc=repo.module(REF).relpath(), construct=f'{REF}.{cname}:config:plural', detail=str(plural))


EXTRA = {
    'C19': [(check_is_deleted, 'R19.20'), (check_revise_namespaces, 'R19.21'), (check_update_resources, 'R19.22'), (check_revise_resources, 'R19.23'),
            (check_disable_filters, 'R19.24'), (check_revision_notify, 'R19.25'), (check_discovered_events, 'R19.26'), (check_namespace_observer, 'R19.27'),
            (check_resource_identity, 'R19.28'), (check_get_url, 'R19.29'), (check_selector_check, 'R19.30'), (check_selector_select, 'R19.31'),
            (check_backbone, 'R19.32'), (check_match_namespace, 'R19.33'), (check_ensemble, 'R19.34'), (check_terminate, 'R19.35'),
            (check_adjust_tasks, 'R19.36'), (check_spawn_keys, 'R19.37'), (check_iter_jsonlines, 'R19.38'), (check_stream, 'R19.39'),
            (check_list_objs, 'R19.40'), (check_handover, 'R19.41'), (check_scanning, 'R19.42'), (check_stream_faults, 'R19.43')],
    'C12': [(check_vault_select, 'R12.20'), (check_vault_items, 'R12.21'), (check_vault_expiry, 'R12.22'), (check_vault_reauth, 'R12.23'),
            (check_vault_cleanup, 'R12.24'), (check_vault_extended, 'R12.25'), (check_request_handover, 'R12.26')],
    'C13': [(check_peer_record, 'R13.20'), (check_touch_clean, 'R13.21'), (check_own_id, 'R13.22'), (check_guess_selectors, 'R13.23'),
            (check_peering_wiring, 'R13.24'), (check_peering_presence, 'R13.25')],
}
