"""C18 -- admission responses faithfully reflect handler outcomes and requested mutations (DESIGN.md §4, R18.1-R18.4)."""
from __future__ import annotations

import ast
import re
from typing import Any, Optional

from .. import absint
from ..core import Ctx, PropSpec
from ..rules import calls_in, cfg_of, cond_implies, construct, dominating_conditions, is_call_to, kwarg, method_call, norm, origin
from ..srcmodel import AnalysisError, FuncInfo, dotted, src, walk_no_defs
from .C15 import ALL_PREDICATES, CAUSES, HANDLERS, REG, _e, check_conjunction, check_subresource, lazy_table, nm

ADM = 'kopf._core.engines.admission'
EXEC = 'kopf._core.actions.execution'
COMPS = (ast.GeneratorExp, ast.ListComp, ast.SetComp)


# ====================================================================== R18.1 FORMULA + DISPATCH: build_response
def _quantifier(f: FuncInfo, e: ast.AST) -> Optional[tuple[str, ast.AST, bool]]:
    """(quantifier, comprehension, element negated) of `all(c)`, `not any(c)`, `any(c)`, `not all(c)`, through named locals."""
    neg = False
    for _ in range(6):
        e = origin(f, e)
        if isinstance(e, ast.UnaryOp) and isinstance(e.op, ast.Not):
            neg, e = not neg, e.operand
        else:
            break
    if isinstance(e, ast.Call) and isinstance(e.func, ast.Name) and e.func.id in ('all', 'any') and len(e.args) == 1 and not e.keywords \
            and isinstance(e.args[0], COMPS) and len(e.args[0].generators) == 1:
        q = e.func.id
        if neg:
            q = 'any' if q == 'all' else 'all'      # not any(p) == all(not p);  not all(p) == any(not p)
        return q, e.args[0], neg
    return None


def _bind_outcome(f: FuncInfo, comp: ast.AST, outcomes: str) -> Optional[dict]:
    """Environment binding the comprehension variable that ranges over *all* values of the outcomes mapping to OUTCOME."""
    g = comp.generators[0]  # type: ignore[attr-defined]
    if g.is_async:
        return None
    recv_items, recv_values = method_call(g.iter, 'items'), method_call(g.iter, 'values')
    if recv_items is not None and dotted(recv_items) == outcomes and isinstance(g.target, ast.Tuple) and len(g.target.elts) == 2 \
            and all(isinstance(t, ast.Name) for t in g.target.elts) and not g.iter.args:  # type: ignore[attr-defined]
        return {g.target.elts[0].id: absint.sym('KEY'), g.target.elts[1].id: absint.sym('OUTCOME')}  # type: ignore[attr-defined]
    if recv_values is not None and dotted(recv_values) == outcomes and isinstance(g.target, ast.Name) and not g.iter.args:  # type: ignore[attr-defined]
        return {g.target.id: absint.sym('OUTCOME')}
    return None


def _truth_of(repo, f: FuncInfo, expr: ast.AST, env: dict) -> list[tuple[absint.Path, bool]]:
    it = absint.Interp(repo, f, absint.Config())
    p = absint.Path()
    for a in f.params():
        p.env[a.arg] = absint.sym(a.arg)
    p.env.update(env)
    return it.truth(expr, p)


def _values_of(repo, f: FuncInfo, expr: ast.AST, env: dict) -> list[tuple[absint.Path, absint.V]]:
    it = absint.Interp(repo, f, absint.Config())
    p = absint.Path()
    for a in f.params():
        p.env[a.arg] = absint.sym(a.arg)
    p.env.update(env)
    return it.fork_value(expr, p)


def check_r18_1(ctx: Ctx) -> None:
    repo = ctx.repo
    rule = 'R18.1'
    f, g = cfg_of(ctx, f'{ADM}.build_response')
    if not any(a.arg == 'outcomes' for a in f.params()):
        raise AnalysisError(f'{f.loc()}: build_response has no `outcomes` parameter')
    outcomes = 'outcomes'

    # ---- allowed == for all outcomes: exception is None
    sites = [(x, kwarg(x, 'allowed')) for x in calls_in(f.node) if kwarg(x, 'allowed') is not None]
    for n in walk_no_defs(f.node):
        if isinstance(n, ast.Assign) and any(isinstance(t, ast.Subscript) and isinstance(t.slice, ast.Constant) and t.slice.value == 'allowed' for t in n.targets):
            sites.append((n, n.value))
        if isinstance(n, ast.Dict):
            sites.extend((n, v) for k, v in zip(n.keys, n.values) if isinstance(k, ast.Constant) and k.value == 'allowed')
    ctx.require_sites(rule, 'build_response: the `allowed` field of the response', len(sites), 1, f.loc())
    for site, val in sites:
        e = origin(f, val)
        q = _quantifier(f, e)
        env = _bind_outcome(f, q[1], outcomes) if q else None
        shape_ok = q is not None and q[0] == 'all' and env is not None and not q[1].generators[0].ifs  # type: ignore[union-attr]
        ctx.ob(rule, 'build_response: `allowed` is a universal statement over every outcome (all(...) over outcomes.items()/values(), no filter)',
               shape_ok, loc=f.loc(site), construct=construct(f, 'formula:allowed-is-universal'), detail=norm(e))
        if not shape_ok:
            continue
        negated = q[2]  # type: ignore[index]
        res = _truth_of(repo, f, q[1].elt, env)  # type: ignore[union-attr,arg-type]
        lazy_table(ctx, rule, f, res, {'NOEXC': r'^isnone\(OUTCOME\.exception\)$'}, lambda v: v['NOEXC'] != negated,
                   role='formula:allowed-element', what='build_response: an outcome counts as admitting iff its exception is None '
                   '(allowed <=> no selected handler raised)')

    # ---- the reported status: the most specific error
    stat = [x for x in calls_in(f.node) if any(n.endswith('reviews.ResponseStatus') for n in repo.callee_names(f, x))]
    ctx.require_sites(rule, 'build_response: construction of the response status', len(stat), 1, f.loc())
    for x in stat:
        msg, code = kwarg(x, 'message'), kwarg(x, 'code')
        subs = [n for e in (msg, code) if e is not None for n in ast.walk(e) if isinstance(n, ast.Subscript) and isinstance(n.value, ast.Name)]
        lists = {n.value.id for n in subs}  # type: ignore[attr-defined]
        first = all(isinstance(n.slice, ast.Constant) and n.slice.value == 0 for n in subs)
        ok = msg is not None and code is not None and len(lists) == 1 and first and bool(subs)
        ctx.ob(rule, 'build_response: message and code are taken from one and the same error, the first of the prioritised list', ok, loc=f.loc(x),
               construct=construct(f, 'flow:status<-errors[0]'), detail=f'message={norm(msg)}; code={norm(code)}')
        if not ok:
            continue
        errs = next(iter(lists))
        _check_errors_list(ctx, rule, f, g, errs, outcomes, x)
        # code only from an AdmissionError, else 500
        vals = _values_of(repo, f, code, {errs: absint.sym('ERRORS')})  # type: ignore[arg-type]
        bad = []
        n500 = 0
        for p, v in vals:
            adm = p.atom(rf'^isinstance\(ERRORS\[0\], {_e(ADM)}\.AdmissionError\)$')
            if v.kind == 'const' and v.data == 500:
                n500 += 1
            elif v.key == 'ERRORS[0].code' and adm is True:
                pass
            else:
                bad.append(f'{v.key} under AdmissionError={adm}')
        ctx.ob(rule, 'build_response: the status code is the error\'s own code only for an AdmissionError (and when set); otherwise 500', not bad and n500 >= 1
               and len(vals) >= 2, loc=f.loc(x), construct=construct(f, 'formula:code-only-from-AdmissionError'), detail='; '.join(bad[:3]))
        # the status is attached iff there are errors
        node = [n for n in g.nodes if n.stmt is not None and n.kind != 'branch' and any(c is x for c in calls_in(n.stmt))
                and not isinstance(n.stmt, (ast.If, ast.For, ast.While, ast.Try, ast.With))]
        guarded = bool(node) and all(any(cond_implies(t, o, lambda e, oo: dotted(e) == errs and oo is True) for t, o, _ in dominating_conditions(g, n)) for n in node)
        ctx.ob(rule, 'build_response: a status is reported only when some handler raised (`if errors`)', guarded, loc=f.loc(x),
               construct=construct(f, 'guard:status under errors'))


def _check_errors_list(ctx: Ctx, rule: str, f: FuncInfo, g, errs: str, outcomes: str, status_call: ast.Call) -> None:
    repo = ctx.repo
    # (a) the list holds every exception of the outcomes
    defs = [n.value for n in walk_no_defs(f.node) if isinstance(n, (ast.Assign, ast.AnnAssign)) and n.value is not None
            and any(isinstance(t, ast.Name) and t.id == errs for t in (n.targets if isinstance(n, ast.Assign) else [n.target]))]
    comp = defs[0] if len(defs) == 1 else None
    if isinstance(comp, ast.Call) and dotted(comp.func) in ('list', 'sorted') and comp.args:
        comp = comp.args[0]
    env = _bind_outcome(f, comp, outcomes) if isinstance(comp, COMPS) and len(comp.generators) == 1 else None
    elt_ok = env is not None and isinstance(comp.elt, ast.Attribute) and comp.elt.attr == 'exception' \
        and isinstance(comp.elt.value, ast.Name) and env.get(comp.elt.value.id, absint.sym('?')).key == 'OUTCOME'  # type: ignore[union-attr]
    ctx.ob(rule, f'build_response: `{errs}` collects the exceptions of the outcomes (one comprehension over outcomes.values()/items())', elt_ok,
           loc=f.loc(comp) if comp is not None else f.loc(), construct=construct(f, 'flow:errors<-outcomes'), detail=norm(comp))
    if elt_ok:
        ifs = comp.generators[0].ifs  # type: ignore[union-attr]
        test = ifs[0] if len(ifs) == 1 else (ast.BoolOp(ast.And(), list(ifs)) if ifs else ast.Constant(True))
        res = _truth_of(repo, f, test, env)  # type: ignore[arg-type]
        lazy_table(ctx, rule, f, res, {'NOEXC': r'^isnone\(OUTCOME\.exception\)$'}, lambda v: not v['NOEXC'], role='formula:errors-filter',
                   what='build_response: an outcome contributes an error iff its exception is not None (no error is dropped from the prioritisation)')

    # (b) prioritised: ascending sort by a key that ranks AdmissionError < PermanentError < TemporaryError < anything else
    sorts = []
    for n in g.nodes:
        if n.stmt is None or n.kind == 'branch' or isinstance(n.stmt, (ast.If, ast.For, ast.While, ast.Try, ast.With)):
            continue
        for x in calls_in(n.stmt):
            if (method_call(x, 'sort') is not None and dotted(method_call(x, 'sort')) == errs) or \
                    (dotted(x.func) == 'sorted' and x.args and isinstance(n.stmt, ast.Assign) and dotted(n.stmt.targets[0]) == errs):
                sorts.append((n, x))
    ctx.require_sites(rule, 'build_response: prioritisation (sort) of the errors', len(sorts), 1, f.loc())
    stat_nodes = [n for n in g.nodes if n.stmt is not None and n.kind != 'branch' and not isinstance(n.stmt, (ast.If, ast.For, ast.While, ast.Try, ast.With))
                  and any(c is status_call for c in calls_in(n.stmt))]
    for n, x in sorts:
        rev = kwarg(x, 'reverse')
        asc = rev is None or (isinstance(rev, ast.Constant) and rev.value is False)
        before = bool(stat_nodes) and not g.dominated(stat_nodes, [n])
        ctx.ob(rule, 'build_response: the errors are sorted ascending by priority before the first one is reported', asc and before, loc=f.loc(x),
               construct=construct(f, 'order:sort<status'), detail=f'reverse={norm(rev)}')
        key = kwarg(x, 'key')
        key = origin(f, key) if key is not None else None
        if isinstance(key, ast.Name):       # a named (inner or module-level) function instead of a lambda: read its guard-clause body as one expression
            defs = [n for n in ast.walk(f.module.tree) if isinstance(n, ast.FunctionDef) and n.name == key.id]
            if len(defs) == 1 and len(defs[0].args.args) == 1 and not defs[0].decorator_list:
                def body_expr(stmts):
                    stmts = [st for st in stmts if not (isinstance(st, ast.Expr) and isinstance(st.value, ast.Constant))]
                    if not stmts:
                        return None
                    st = stmts[0]
                    if isinstance(st, ast.Return):
                        return st.value
                    if isinstance(st, ast.If):
                        a, b = body_expr(st.body), body_expr(list(st.orelse) or stmts[1:])
                        return None if a is None or b is None else ast.copy_location(ast.IfExp(test=st.test, body=a, orelse=b), st)
                    return None
                be = body_expr(defs[0].body)
                if be is not None:
                    key = ast.copy_location(ast.Lambda(args=defs[0].args, body=be), defs[0])
        if not isinstance(key, ast.Lambda) or len(key.args.args) != 1:
            ctx.ob(rule, 'build_response: the priority is a one-argument key function over the error', False, loc=f.loc(x),
                   construct=construct(f, 'dispatch:priority-key'), detail=norm(key))
            continue
        arg = key.args.args[0].arg
        vals = _values_of(repo, f, key.body, {arg: absint.sym('ERR')})
        kinds = {'AdmissionError': f'{ADM}.AdmissionError', 'PermanentError': f'{EXEC}.PermanentError', 'TemporaryError': f'{EXEC}.TemporaryError',
                 'other': 'Exception'}
        rank: dict[str, Any] = {}
        for kname, k in kinds.items():
            hits = []
            for p, v in vals:
                consistent = True
                for ak, av in p.atoms.items():
                    m = re.fullmatch(r'isinstance\(ERR, (.*)\)', ak)
                    if m is None:
                        consistent = False      # the priority depends on something else than the class of the error
                        break
                    if av != repo.is_subclass(k, m.group(1)):
                        consistent = False
                        break
                if consistent:
                    hits.append(v)
            rank[kname] = hits[0].data if len(hits) == 1 and hits[0].kind == 'const' and isinstance(hits[0].data, (int, float)) else None
        ctx.count('paths', len(vals))
        ok = all(r is not None for r in rank.values()) and rank['AdmissionError'] < rank['PermanentError'] < rank['TemporaryError'] < rank['other']
        ctx.ob(rule, 'build_response: error priority by class, subclass first: AdmissionError before PermanentError before TemporaryError before any other',
               ok, loc=f.loc(key), construct=construct(f, 'dispatch:priority-key'), detail=f'ranks by class: {rank}')
    # the class hierarchy the chain relies on
    ctx.ob(rule, 'AdmissionError is a PermanentError (so it must be tested first); TemporaryError is not a PermanentError',
           repo.is_subclass(f'{ADM}.AdmissionError', f'{EXEC}.PermanentError') and not repo.is_subclass(f'{EXEC}.TemporaryError', f'{EXEC}.PermanentError'),
           loc=f.loc(), construct=f'{ADM}:hierarchy:AdmissionError<PermanentError')


# ====================================================================== R18.2 CONFIG: serve_admission_request
def check_r18_2(ctx: Ctx) -> None:
    repo = ctx.repo
    rule = 'R18.2'
    f = repo.fn(f'{ADM}.serve_admission_request')
    ctx.analysed(f)
    ex = [x for x in calls_in(f.node) if is_call_to(repo, f, x, f'{EXEC}.execute_handlers_once')]
    ctx.require_sites(rule, 'serve_admission_request: handler execution', len(ex), 1, f.loc())
    causes_ = [x for x in calls_in(f.node) if f'{CAUSES}.WebhookCause' in repo.callee_names(f, x)]
    ctx.require_sites(rule, 'serve_admission_request: construction of the webhook cause', len(causes_), 1, f.loc())

    def res(e: Optional[ast.AST]) -> str:
        e = origin(f, e) if e is not None else None
        return (repo.resolve(f.module, e) or '') if e is not None else ''
    for x in ex:
        de = res(kwarg(x, 'default_errors'))
        ctx.ob(rule, 'serve_admission_request: handlers run with default_errors=ErrorsMode.PERMANENT (every raised exception becomes an outcome with an '
               'exception, i.e. a denial; nothing is ignored or retried)', de == f'{EXEC}.ErrorsMode.PERMANENT', loc=f.loc(x),
               construct=construct(f, 'config:default_errors'), detail=f'found {de or norm(kwarg(x, "default_errors"))}')
        lc = res(kwarg(x, 'lifecycle'))
        ctx.ob(rule, 'serve_admission_request: all selected handlers run in this one request (lifecycle=all_at_once)',
               lc == 'kopf._core.actions.lifecycles.all_at_once', loc=f.loc(x), construct=construct(f, 'config:lifecycle'),
               detail=f'found {lc or norm(kwarg(x, "lifecycle"))}')
        hs = origin(f, kwarg(x, 'handlers')) if kwarg(x, 'handlers') is not None else None
        ok = isinstance(hs, ast.Call) and method_call(hs, 'get_handlers') is not None and (dotted(method_call(hs, 'get_handlers')) or '').endswith('._webhooks') \
            and any(n.startswith(REG) for n in repo.callee_names(f, hs))
        ctx.ob(rule, 'serve_admission_request: the executed handlers are exactly those selected by the webhooks registry for this cause', ok,
               loc=f.loc(x), construct=construct(f, 'flow:handlers<-_webhooks.get_handlers'), detail=norm(hs))
        c = origin(f, kwarg(x, 'cause')) if kwarg(x, 'cause') is not None else None
        ctx.ob(rule, 'serve_admission_request: the handlers are executed for the reconstructed webhook cause', any(c is y for y in causes_),
               loc=f.loc(x), construct=construct(f, 'flow:cause'))
    br = [x for x in calls_in(f.node) if is_call_to(repo, f, x, f'{ADM}.build_response')]
    ctx.require_sites(rule, 'serve_admission_request: response construction', len(br), 1, f.loc())
    for x in br:
        oc = origin(f, kwarg(x, 'outcomes')) if kwarg(x, 'outcomes') is not None else None
        oc = oc.value if isinstance(oc, ast.Await) else oc
        ctx.ob(rule, 'serve_admission_request: the response is built from the outcomes of this very execution', any(oc is y for y in ex), loc=f.loc(x),
               construct=construct(f, 'flow:outcomes->build_response'), detail=norm(oc))
        jp = origin(f, kwarg(x, 'jsonpatch')) if kwarg(x, 'jsonpatch') is not None else None
        recv = method_call(jp, 'as_json_patch') if jp is not None else None
        cause_patch = [dotted(kwarg(y, 'patch')) for y in causes_ if kwarg(y, 'patch') is not None]
        ctx.ob(rule, 'serve_admission_request: the returned JSON patch is computed from the patch object the handlers were given', recv is not None
               and dotted(recv) in cause_patch and not jp.args and not jp.keywords, loc=f.loc(x),  # type: ignore[union-attr]
               construct=construct(f, 'flow:patch->as_json_patch'), detail=norm(jp))
        wn = kwarg(x, 'warnings')
        cause_warn = [dotted(kwarg(y, 'warnings')) for y in causes_ if kwarg(y, 'warnings') is not None]
        ctx.ob(rule, 'serve_admission_request: the returned warnings are the list the handlers appended to', wn is not None and dotted(wn) in cause_warn,
               loc=f.loc(x), construct=construct(f, 'flow:warnings'))
    rets = [n for n in walk_no_defs(f.node) if isinstance(n, ast.Return) and n.value is not None]
    ok = bool(rets) and all(any(origin(f, r.value) is y for y in br) for r in rets)
    ctx.ob(rule, 'serve_admission_request: what is returned is the built response', ok, loc=f.loc(rets[0]) if rets else f.loc(),
           construct=construct(f, 'flow:return build_response'))
    # the patch the handlers get is bound to the reviewed object
    for y in causes_:
        p = origin(f, kwarg(y, 'patch')) if kwarg(y, 'patch') is not None else None
        b = kwarg(p, 'body') if isinstance(p, ast.Call) else None
        ok = isinstance(p, ast.Call) and any(n.endswith('patches.Patch') for n in repo.callee_names(f, p)) and b is not None \
            and dotted(b) == dotted(kwarg(y, 'body'))
        ctx.ob(rule, 'serve_admission_request: the patch is created against the reviewed body (the reference of the JSON patch)', ok, loc=f.loc(y),
               construct=construct(f, 'config:Patch(body=body)'), detail=norm(p))


# ====================================================================== R18.3 FORMULA: selection of webhook handlers
def check_r18_3(ctx: Ctx) -> None:
    repo = ctx.repo
    rule = 'R18.3'
    f = repo.fn(f'{REG}.WebhooksRegistry.iter_handlers')
    ctx.analysed(f)
    loops = [n for n in walk_no_defs(f.node) if isinstance(n, ast.For)]
    if len(loops) != 1 or not isinstance(loops[0].target, ast.Name):
        raise AnalysisError(f'{f.loc()}: expected one loop over the handlers in {nm(f)}')
    loop = loops[0]
    cause = 'cause'
    if not any(a.arg == cause for a in f.params()):
        raise AnalysisError(f'{f.loc()}: {nm(f)} has no `cause` parameter')
    paths = absint.analyse(repo, f, absint.Config(), stmts=loop.body, env={loop.target.id: absint.sym('handler')})
    mut = _e(f'{CAUSES}.WebhookType.MUTATING')
    atoms = {
        'X': r'^in\(handler\.id, excluded\)$',
        'CRN': r'^isnone\(cause\.reason\)$',
        'CRE': r'^eq\((cause\.reason, handler\.reason|handler\.reason, cause\.reason)\)$',
        'CWN': r'^isnone\(cause\.webhook\)$',
        'CWE': r'^eq\((cause\.webhook, handler\.id|handler\.id, cause\.webhook)\)$',
        'OPS': r'^truthy\(handler\.operations\)$',
        'CON': r'^isnone\(cause\.operation\)$',
        'STAR': r"^in\('\*', handler\.operations\)$",
        'OPIN': r'^in\(cause\.operation, handler\.operations\)$',
        'MUT': rf'^eq\(handler\.reason, {mut}\)$',
        'DEL': r"^eq\(cause\.operation, 'DELETE'\)$",
        'ONLYDEL': r"^eq\(\['DELETE'\], set\(.*handler\.operations.*\)\)$|^eq\(set\(.*handler\.operations.*\), \['DELETE'\]\)$",
        'MATCH': rf'^truthy\({_e(REG)}\.match\(',
    }
    canon = {'DEL': "eq(cause.operation, 'DELETE')", 'CON': 'isnone(cause.operation)'}

    def spec(v):
        if v['X']:
            return 0
        if not (v['CRN'] or v['CRE']):
            return 0                                    # hinted webhook type
        if not (v['CWN'] or v['CWE']):
            return 0                                    # hinted webhook id
        if v['OPS'] and not v['CON'] and not v['STAR'] and not v['OPIN']:
            return 0                                    # the reviewed operation is not among the declared ones
        if v['MUT'] and v['DEL'] and not v['ONLYDEL']:
            return 0                                    # mutating handlers not on DELETE unless they opted in
        return 1 if v['MATCH'] else 0
    lazy_table(ctx, rule, f, [(p, len(p.effects('yield'))) for p in paths], atoms, spec, canon=canon,
               what='WebhooksRegistry.iter_handlers (one handler): selected iff not excluded, hinted type and id agree, the operation is among the '
                    'declared operations (or unspecified / "*"), not a mutating handler on DELETE unless declared for DELETE only, and match()')
    ys = {id(e.node): e for p in paths for e in p.effects('yield')}
    ctx.ob(rule, 'WebhooksRegistry.iter_handlers: what is yielded is the examined handler itself', bool(ys) and all(e.key == 'handler' for e in ys.values()),
           loc=f.loc(loop), construct=construct(f, 'flow:yield handler'))
    mcalls = [x for x in calls_in(loop) if is_call_to(repo, f, x, f'{REG}.match')]
    for x in mcalls:
        ok = dotted(kwarg(x, 'handler', 0)) == loop.target.id and dotted(kwarg(x, 'cause', 1)) == cause
        ctx.ob(rule, 'WebhooksRegistry.iter_handlers: match() is asked about this handler and this cause', ok, loc=f.loc(x),
               construct=construct(f, 'config:match(handler, cause)'))

    # match() includes the subresource conjunct and the usual filters
    check_conjunction(ctx, rule, 'match', ALL_PREDICATES)
    check_subresource(ctx, rule)

    # the facts the formula relies on: decorators and the reconstructed cause
    for dec, reason in (('validate', 'VALIDATING'), ('mutate', 'MUTATING')):
        d = repo.fn(f'kopf.on.{dec}')
        ctx.analysed(d)
        ctors = [(g, x) for g in repo.all_functions() if g is d or g.qualname.startswith(d.qualname + '.') for x in calls_in(g.node)
                 if f'{HANDLERS}.WebhookHandler' in repo.callee_names(g, x)]
        ctx.require_sites(rule, f'on.{dec}: construction of the WebhookHandler', len(ctors), 1, d.loc())
        for g, x in ctors:
            r = repo.resolve(g.module, kwarg(x, 'reason')) if kwarg(x, 'reason') is not None else None
            ctx.ob(rule, f'on.{dec} registers a {reason.lower()} handler (reason=WebhookType.{reason})', r == f'{CAUSES}.WebhookType.{reason}', loc=g.loc(x),
                   construct=f'kopf.on.{dec}:config:reason', detail=f'found {r}')
            for k in ('operations', 'subresource'):
                ctx.ob(rule, f'on.{dec} stores the declared {k}= in the handler', dotted(kwarg(x, k)) == k, loc=g.loc(x),
                       construct=f'kopf.on.{dec}:config:{k}', detail=f'found {norm(kwarg(x, k))}')
    s = repo.fn(f'{ADM}.serve_admission_request')
    for y in [x for x in calls_in(s.node) if f'{CAUSES}.WebhookCause' in repo.callee_names(s, x)]:
        for kw, const in (('operation', 'operation'), ('subresource', 'subResource')):
            e = origin(s, kwarg(y, kw)) if kwarg(y, kw) is not None else None
            consts = {n.value for n in ast.walk(e) if isinstance(n, ast.Constant)} if e is not None else set()
            roots = {dotted(n) for n in ast.walk(e) if isinstance(n, ast.Name)} if e is not None else set()
            ctx.ob(rule, f'serve_admission_request: the cause\'s {kw} is the reviewed request\'s `{const}`', {'request', const} <= consts and 'request' in roots,
                   loc=s.loc(y), construct=construct(s, f'config:cause.{kw}'), detail=norm(e))
        for kw in ('webhook', 'reason'):
            ctx.ob(rule, f'serve_admission_request: the {kw} hint of the webhook server is passed into the cause unchanged', dotted(kwarg(y, kw)) == kw,
                   loc=s.loc(y), construct=construct(s, f'config:cause.{kw}'))


# ====================================================================== R18.4 SIBLING / error discipline: merge-patch application is total
def check_r18_4(ctx: Ctx) -> None:
    repo = ctx.repo
    rule = 'R18.4'
    f = repo.fn('kopf._cogs.structs.patches.Patch._apply_patch')
    ctx.analysed(f)
    ps = [a.arg for a in f.params()]
    if ps[1:] != ['body', 'path', 'value']:
        raise AnalysisError(f'{f.loc()}: unexpected signature of {nm(f)}: {ps}')

    def eff(it, p, call, names):
        for n in names:
            if n.endswith('structs.dicts.ensure'):
                return 'ensure'
            if n.endswith('structs.dicts.remove'):
                return 'remove'
            if n.endswith('structs.dicts.resolve'):
                return 'resolve'
            if n.endswith('patches.Patch._apply_patch'):
                return 'recurse'
        return None
    paths = absint.analyse(repo, f, absint.Config(effect=eff))
    target_keys = {e.key for p in paths for e in p.effects('resolve')
                   if 'body' in (e.kw.get('#0').key if e.kw.get('#0') else '') and (e.kw.get('#1').key if e.kw.get('#1') else '') == 'path' and e.kw.get('#2') is not None}
    sentinels = {e.kw['#2'].key for p in paths for e in p.effects('resolve') if e.key in target_keys}

    def rn(k: str) -> str:
        for t in sorted(target_keys, key=len, reverse=True):
            k = k.replace(t, 'TARGET')
        for s_ in sorted(sentinels, key=len, reverse=True):
            k = k.replace(s_, 'NOTHING') if s_ not in ('None',) else k
        return k
    atoms = {
        'NONE': r'^isnone\(value\)$',
        'MAP': r'^isinstance\(value, collections\.abc\.Mapping\)$',
        'PATH': r'^truthy\(path\)$',
        'MISSING': r'^eq\((TARGET, NOTHING|NOTHING, TARGET)\)$|^isnone\(TARGET\)$',
        'TMAP': r'^isinstance\(TARGET, collections\.abc\.Mapping\)$',
        'KEYS': r'^nonempty\(value\.(items|keys)\(\)\)$|^nonempty\(value\)$',
    }

    def observe(p: absint.Path):
        ops = []
        for e in p.trace:
            a1, a2 = e.kw.get('#1'), e.kw.get('#2')
            if e.label == 'remove':
                ops.append('remove' if a1 is not None and a1.key == 'path' else 'remove?')
            elif e.label == 'ensure':
                if a1 is not None and a1.key == 'path' and a2 is not None and a2.key == '{}':
                    ops.append('replace-by-{}')
                elif a1 is not None and a1.key == 'path' and a2 is not None and a2.key == 'value':
                    ops.append('set')
                else:
                    ops.append('ensure?')
            elif e.label == 'recurse':
                ext = a1 is not None and a1.key.startswith('(path Add (') and (e.kw.get('#0').key if e.kw.get('#0') else '') == 'body'
                ops.append('descend' if ext else 'descend?')
        return tuple(ops) if p.status in ('run', 'return') else (f'<{p.status}>',)

    def spec(v):
        if v['NONE']:
            return ('remove',)
        if not v['MAP']:
            return ('set',)             # scalars and lists overwrite
        ops = []
        if v['PATH'] and not v['MISSING'] and not v['TMAP']:
            ops.append('replace-by-{}')  # RFC 7386: a non-mapping target is replaced by a mapping before merging
        if v['KEYS']:
            ops.append('descend')
        return tuple(ops)
    lazy_table(ctx, rule, f, [(p, observe(p)) for p in paths], atoms, spec, rename=rn,
               what='Patch._apply_patch: None => remove; mapping => (an existing non-mapping target is first replaced by {}) then descend per key; '
                    'anything else => set; so dicts.ensure/remove never meet a non-mapping parent on the reviewed body')
    ctx.require_sites(rule, 'Patch._apply_patch: type-guarded look-up (dicts.resolve with a default) of the merge target', len(target_keys), 1, f.loc())

    # the application starts at the root with the whole patch, on a deep copy of the reviewed body
    j = repo.fn('kopf._cogs.structs.patches.Patch.as_json_patch')
    ctx.analysed(j)
    starts = [x for x in calls_in(j.node) if is_call_to(repo, j, x, 'patches.Patch._apply_patch')]
    ctx.require_sites(rule, 'Patch.as_json_patch: application of the merge-patch', len(starts), 1, j.loc())
    for x in starts:
        root = x.args[1] if len(x.args) > 1 else kwarg(x, 'path')
        tgt = origin(j, x.args[0]) if x.args else None
        copied = isinstance(tgt, ast.Call) and (repo.resolve(j.module, tgt.func) or '') == 'copy.deepcopy'
        ok = isinstance(root, ast.Tuple) and not root.elts and copied
        ctx.ob(rule, 'Patch.as_json_patch: the merge-patch is applied from the root (empty path: every parent below was made a mapping by the guard) '
               'to a deep copy of the reviewed body', ok, loc=j.loc(x), construct=construct(j, 'config:_apply_patch(copy, (), patch)'),
               detail=f'{norm(x)}; target = {norm(tgt)}')


def check(ctx: Ctx) -> None:
    check_r18_1(ctx)
    check_r18_2(ctx)
    check_r18_3(ctx)
    check_r18_4(ctx)
    from . import _extra
    _extra.check_presence_probe(ctx, 'R18.4')


SPEC = PropSpec(
    id='C18',
    title='Admission responses faithfully reflect handler outcomes and requested mutations',
    technique='static analysis: boolean-structure extraction by path enumeration over a predicate abstraction compared with the property text as '
              'truth tables (FORMULA/TABLE), class-hierarchy ranking of an isinstance chain (DISPATCH), constant keyword and def-use facts '
              '(CONFIG/FLOW), dominating conditions (GUARD)',
    level_text='Static analysis of the current source: decides that build_response computes allowed as "every outcome has no exception", collects all '
               'exceptions, ranks them AdmissionError < PermanentError < TemporaryError < other by class (subclass first) and reports message and code of '
               'the first one (code only from an AdmissionError, else 500); that serve_admission_request executes exactly the handlers selected by the '
               'webhooks registry with default_errors=PERMANENT and lifecycle=all_at_once and builds the response from those outcomes, the handlers\' '
               'patch and warnings; that WebhooksRegistry.iter_handlers is, on all feasible paths and valuations, the conjunction required by the property '
               '(type and id hints, declared operations, no mutation on DELETE without opt-in, match incl. subresource); that Patch._apply_patch replaces a '
               'non-mapping target by a mapping before descending. Decides the shape of these functions, NOT the fidelity of the JSON patch over all bodies.',
    level_note='outcome/exception values are opaque; execute_handlers_once turns every raised exception into an outcome with an exception under '
               'PERMANENT (C11 R11.2); jsonpatch is trusted; DESIGN.md §3',
    design_ref='DESIGN.md §4 C18',
    explanation='FORMULA over the elements of the two comprehensions of build_response and DISPATCH over its priority key (ranks evaluated per exception '
                'class from the class hierarchy), GUARD/ORDER on its CFG; CONFIG/FLOW over serve_admission_request; FORMULA (13 atoms, lazy truth-table '
                'comparison) over one iteration of WebhooksRegistry.iter_handlers plus registries.match and _matches_subresource, CONFIG over on.validate/'
                'on.mutate and the reconstructed cause; TABLE over Patch._apply_patch.',
    not_decided='fidelity of the returned JSON patch over all (body, patch, fns) triples (jsonpatch diff, RFC 6902 escaping); order of warnings beyond '
                'being the handlers\' own list; behaviour of webhook servers/tunnels.',
    check=check,
)
