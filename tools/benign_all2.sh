#!/bin/sh
# Development aid: quick checks (4 at a time) on every refactoring of benign round 2 (out2/).
ls -d /tmp/seedwork/B*/out2/R* | xargs -P 12 -I{} sh -c '[ -f {}/patch.diff ] || exit 0; out=$(/verif/tools/try_seed.sh {}/patch.diff quick 2>&1); echo "$out" > {}/checks.txt; echo "$(echo {} | sed "s#/tmp/seedwork/##") $(echo "$out" | grep DETECTED-BY)"' | sort
