#!/bin/sh
# Development aid: run all checks against every benign refactoring patch found under the given glob; report alarms.
out="${2:-/root/seedtools/benign_report.txt}"
: > "$out"
for d in $1; do
  r="$(/verif/tools/try_seed.sh $d/patch.diff 2>&1)"
  echo "######## $(basename $d): $(echo "$r" | grep DETECTED)" >> "$out"
  echo "$r" | grep -v DETECTED | grep "^==\|^  R\|^  C[0-9][0-9]/\|ANALYSIS" | cut -c1-420 >> "$out"
done
echo finished >> "$out"
