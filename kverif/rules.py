"""Generic rule kinds (DESIGN.md §2.1) over the source model, the CFG and the abstract interpreter.

Every helper records obligations on the ``Ctx`` and returns data a property module can build on.
Sites are selected by semantic role (resolved callee, written field, constructed class), never by text position.
"""
from __future__ import annotations

import ast
import re
from typing import Any, Callable, Iterable, Optional

from . import absint
from .cfg import CFG, Node
from .core import Ctx
from .srcmodel import AnalysisError, FuncInfo, Repo, dotted, src, walk_no_defs

_cfg_cache: dict = {}


def cfg_of(ctx: Ctx, ref: str | FuncInfo) -> tuple[FuncInfo, CFG]:
    f = ctx.repo.fn(ref) if isinstance(ref, str) else ref
    key = (id(ctx.repo), f.qualname)
    if key not in _cfg_cache:
        _cfg_cache[key] = CFG(ctx.repo, f)
    ctx.analysed(f)
    return f, _cfg_cache[key]


def norm(node: Optional[ast.AST], limit: int = 120) -> str:
    """Normalised statement text used in construct keys (whitespace-insensitive, no positions)."""
    return src(node, limit)


def construct(f: FuncInfo, what: str) -> str:
    return f'{f.qualname}:{what}'


# ---------------------------------------------------------------------- expression matchers
def calls_in(node: ast.AST) -> list[ast.Call]:
    return [n for n in walk_no_defs(node, include_lambdas=True) if isinstance(n, ast.Call)]


def is_call_to(repo: Repo, f: FuncInfo, call: ast.AST, *targets: str) -> bool:
    """Resolved callee of ``call`` is one of the targets ('module.func' / 'module.Class.meth' / external dotted)."""
    if not isinstance(call, ast.Call):
        return False
    names = repo.callee_names(f, call)
    for t in targets:
        tq = repo._qual(t)
        if tq in names:
            return True
        if any(n == t or n.endswith('.' + t) for n in names):
            return True
    return False


def method_call(call: ast.AST, attr: str) -> Optional[ast.AST]:
    """Receiver expression of ``<recv>.attr(...)``, else None."""
    if isinstance(call, ast.Call) and isinstance(call.func, ast.Attribute) and call.func.attr == attr:
        return call.func.value
    return None


def kwarg(call: ast.Call, name: str, pos: Optional[int] = None) -> Optional[ast.AST]:
    for k in call.keywords:
        if k.arg == name:
            return k.value
    if pos is not None and pos < len(call.args):
        return call.args[pos]
    return None


def arg_of(repo: Repo, f: FuncInfo, call: ast.Call, name: str) -> Optional[ast.AST]:
    """Argument bound to parameter ``name`` of the (single) resolved repo callee, by keyword or position."""
    v = kwarg(call, name)
    if v is not None:
        return v
    for c in repo.callees(f, call):
        g = repo.funcs.get(c.lstrip('?'))
        if g is None and c.lstrip('?') in repo.classes:
            g = repo.find_method(c.lstrip('?'), '__init__')
        if g is None:
            continue
        params = [a.arg for a in (g.node.args.posonlyargs + g.node.args.args)]  # type: ignore[attr-defined]
        if g.cls is not None and params and params[0] in ('self', 'cls'):
            params = params[1:]
        if name in params and params.index(name) < len(call.args):
            return call.args[params.index(name)]
    return None


def names_in(node: ast.AST) -> set[str]:
    return {n.id for n in ast.walk(node) if isinstance(n, ast.Name)}


def const_value(repo: Repo, f: FuncInfo, node: Optional[ast.AST]) -> Any:
    """Python value of a constant expression or the resolved name of an enum member / global; else None."""
    if node is None:
        return None
    if isinstance(node, ast.Constant):
        return node.value
    r = repo.resolve(f.module, node)
    return r


# ---------------------------------------------------------------------- CFG-based rule kinds
def loop_nodes(g: CFG, loop_stmt: ast.AST) -> set[Node]:
    """Nodes lexically inside the body of a loop statement (incl. the loop head)."""
    out = set()
    for n in g.nodes:
        if any(fr.kind == 'loop' and fr.stmt is loop_stmt for fr in n.frames):
            out.add(n)
        if n.kind == 'loop' and n.stmt is loop_stmt:
            out.add(n)
    return out


def leaving_targets(g: CFG, inside: set[Node]) -> list[tuple[Node, Node]]:
    return [(a, b) for a in inside for b in a.succ if b not in inside]


def suspensions_from(g: CFG, starts_inclusive: Iterable[Node], targets: Iterable[Node]) -> list[Node]:
    """Suspension points on a path from one of ``starts`` (inclusive) to one of ``targets`` (exclusive)."""
    tset = set(targets)
    starts = list(starts_inclusive)
    fwd = g.reach(starts, stop=lambda n: n in tset) | set(starts)
    back = g.reach_back(tset)
    return sorted((n for n in fwd & back if n.suspends and n not in tset), key=lambda n: n.id)


def in_handler_of(n: Node, exc_suffix: str) -> bool:
    for fr in n.frames:
        if fr.kind == 'try-rest' and getattr(fr, 'handler_classes', None):
            if any(c == exc_suffix or c.endswith('.' + exc_suffix) or c.endswith(exc_suffix) for c in fr.handler_classes):
                return True
    return False


def dominating_conditions(g: CFG, target: Node, *, within: Optional[set] = None, edge_ok=None) -> list[tuple[ast.AST, bool, Node]]:
    """(test, outcome, branch node) of branch nodes through which every entry->target path passes."""
    out = []
    reach_all = g.reach([g.entry], edge_ok=edge_ok)
    if target not in reach_all:
        return out
    for b in g.nodes:
        if b.kind == 'branch' and b.cond is not None and b is not target:
            if within is not None and b not in within:
                continue
            if not g.dominated([target], [b], edge_ok=edge_ok):
                out.append((b.cond[0], b.cond[1], b))
    return out


def cond_implies(test: ast.AST, outcome: bool, pred: Callable[[ast.AST, bool], bool]) -> bool:
    """Does (test == outcome) imply an atomic fact recognised by ``pred(atom_expr, atom_outcome)``?

    Looks through `not`, and through `and` when the outcome is True / `or` when the outcome is False.
    """
    if isinstance(test, ast.UnaryOp) and isinstance(test.op, ast.Not):
        return cond_implies(test.operand, not outcome, pred)
    if isinstance(test, ast.BoolOp):
        if isinstance(test.op, ast.And) and outcome:
            return any(cond_implies(v, True, pred) for v in test.values)
        if isinstance(test.op, ast.Or) and not outcome:
            return any(cond_implies(v, False, pred) for v in test.values)
        return False
    if isinstance(test, ast.Compare) and len(test.ops) == 1:
        op = test.ops[0]
        if isinstance(op, (ast.IsNot, ast.NotEq, ast.NotIn)):
            flipped = {ast.IsNot: ast.Is, ast.NotEq: ast.Eq, ast.NotIn: ast.In}[type(op)]()
            return pred(ast.Compare(test.left, [flipped], test.comparators), not outcome)
    return pred(test, outcome)


def holds_at(g: CFG, target: Node, pred: Callable[[ast.AST, bool], bool], *, within: Optional[set] = None, edge_ok=None) -> bool:
    """Some condition dominating ``target`` implies the fact."""
    return any(cond_implies(t, o, pred) for t, o, _ in dominating_conditions(g, target, within=within, edge_ok=edge_ok))


def nullness_assumption(*not_none: str) -> Callable[[ast.AST, bool], Optional[bool]]:
    """Assume the named parameters are not None ('None for tests'): prune contradicting branches."""
    names = set(not_none)

    def assume(test: ast.AST, outcome: bool) -> Optional[bool]:
        def fact(e: ast.AST, o: bool) -> bool:
            # is "e == o" contradicting "x is not None"?
            if isinstance(e, ast.Compare) and len(e.ops) == 1 and isinstance(e.comparators[0], ast.Constant) and e.comparators[0].value is None:
                d = dotted(e.left)
                if d in names and isinstance(e.ops[0], ast.Is):
                    return o is True          # "x is None" taken as True: contradiction
            return False
        # the branch is impossible if it *implies* x is None
        if cond_implies(test, outcome, fact):
            return False
        # "x is not None and ..." taken False is possible (other conjuncts); keep
        return None
    return assume


def witness(g: CFG, starts: Iterable[Node], goal: Node, avoid: Iterable[Node] = (), edge_ok=None) -> str:
    av = set(avoid)
    p = g.path(list(starts), lambda n: n is goal, stop=lambda n: n in av, edge_ok=edge_ok)
    return g.describe_path(p)


# ---------------------------------------------------------------------- who-may-call / who-may-write
def callers_of(ctx: Ctx, target: str, *, exact: bool = True) -> list[tuple[FuncInfo, ast.Call]]:
    return ctx.repo.call_sites_of(target, exact=exact)


def confine_calls(ctx: Ctx, rule: str, target: str, allowed: Iterable[str], *, minimum: int = 1, what: str = '') -> list[tuple[FuncInfo, ast.Call]]:
    """Every call site of ``target`` lies in one of the allowed functions (qualified-name suffixes)."""
    allowed = list(allowed)
    sites = callers_of(ctx, target, exact=False)
    label = what or f'calls of {target}'
    ctx.require_sites(rule, label, len(sites), minimum)
    for f, c in sites:
        ok = any(f.qualname == ctx.repo._qual(a) or f.qualname.endswith('.' + a) or f.qualname.startswith(ctx.repo._qual(a) + '.') for a in allowed)
        ctx.ob(rule, f'{label}: call in {f.short} is inside the allowed set {allowed}', ok, loc=f.loc(c),
               construct=f'{f.qualname}:call:{target}')
    return sites


def attribute_writes(repo: Repo, attr: str) -> list[tuple[FuncInfo, ast.AST, Optional[ast.AST]]]:
    """(function, target node, value) for every assignment `<x>.attr = v` / augmented / annotated in the package."""
    out = []
    for f in repo.all_functions():
        for n in walk_no_defs(f.node):
            tgts: list[tuple[ast.AST, Optional[ast.AST]]] = []
            if isinstance(n, ast.Assign):
                tgts = [(t, n.value) for t in n.targets]
            elif isinstance(n, ast.AugAssign):
                tgts = [(n.target, None)]
            elif isinstance(n, ast.AnnAssign) and n.value is not None:
                tgts = [(n.target, n.value)]
            for t, v in tgts:
                for tt in (t.elts if isinstance(t, (ast.Tuple, ast.List)) else [t]):
                    if isinstance(tt, ast.Attribute) and tt.attr == attr:
                        out.append((f, tt, v))
    return out


# ---------------------------------------------------------------------- DISPATCH
def except_chain_order(ctx: Ctx, rule: str, f: FuncInfo, try_stmt: ast.Try, *, label: str = '') -> list[list[str]]:
    """In an except chain no handler is shadowed by an earlier handler for one of its superclasses."""
    repo = ctx.repo
    chain: list[list[str]] = []
    for h in try_stmt.handlers:
        if h.type is None:
            classes = ['BaseException']
        else:
            elts = h.type.elts if isinstance(h.type, ast.Tuple) else [h.type]
            classes = [repo.resolve(f.module, e) or src(e) for e in elts]
        chain.append(classes)
    for i, later in enumerate(chain):
        for c in later:
            shadow = [e for j in range(i) for e in chain[j] if repo.is_subclass(c, e)]
            ctx.ob(rule, f'{label or f.short}: handler for {c.split(".")[-1]} is not shadowed by an earlier handler'
                   + (f' (shadowed by {shadow[0].split(".")[-1]})' if shadow else ''), not shadow,
                   loc=f.loc(try_stmt.handlers[i]), construct=f'{f.qualname}:except:{c.split(".")[-1]}')
    return chain


# ---------------------------------------------------------------------- TABLE / FORMULA support
def table_check(ctx: Ctx, rule: str, f: FuncInfo, paths: list[absint.Path], atoms: dict[str, str],
                spec: Callable[[dict], Any], observe: Callable[[absint.Path], Any], *, what: str,
                describe: Optional[Callable[[Any], str]] = None, max_report: int = 6) -> int:
    """For every feasible path and every completion of the spec atoms the path left undecided,
    the observed effects must equal the specified ones.  Returns the number of (path, valuation) pairs checked."""
    n = 0
    bad = 0
    seen_rows = set()
    for p in paths:
        obs = observe(p)
        try:
            vals = list(absint.completions(p, atoms, lambda k, _p=p: absint.entails(ctx.repo, f, _p, k)))
        except absint.AmbiguousAtom as e:
            # the code evaluates one predicate of the table at two program points (with a mutation in between) and the
            # outcomes differ on this path: the specification table has a single evaluation point => not the table's structure
            bad += 1
            if bad <= max_report:
                ctx.ob(rule, f'{what}: every table predicate has one evaluation point per path', False, loc=f.loc(),
                       construct=f'{f.qualname}:table:evaluation-points', detail=str(e)[:300])
            continue
        for val in vals:
            n += 1
            exp = spec(val)
            if exp is SKIP:
                continue
            row = (tuple(sorted(val.items())), repr(exp))
            ok = (obs == exp)
            if not ok:
                bad += 1
                if bad <= max_report:
                    ctx.ob(rule, f'{what}: valuation {_fmt(val)} must give {exp!r}', False, loc=f.loc(),
                           construct=f'{f.qualname}:table:{_fmt(val)}', detail=f'observed {obs!r} on path [{_fmt_atoms(p)}]')
            elif row not in seen_rows:
                seen_rows.add(row)
    ctx.count('paths', len(paths))
    ctx.count('valuations', n)
    ctx.ob(rule, f'{what}: {len(paths)} feasible paths x completions = {n} valuations all agree with the specification table '
           f'({len(seen_rows)} distinct rows exercised)', bad == 0, loc=f.loc(), construct=f'{f.qualname}:table',
           detail='' if bad == 0 else f'{bad} disagreeing valuations', nontrivial=len(seen_rows) > 1)
    ctx.sample({'rule': rule, 'function': f.short, 'paths': len(paths), 'valuations': n,
                'example_path': paths[0].describe()[:300] if paths else None})
    return n


class _Skip:
    def __repr__(self) -> str:
        return 'SKIP'


SKIP = _Skip()


def _fmt(val: dict) -> str:
    return ' '.join(f'{k}={"1" if v is True else "0" if v is False else v}' for k, v in sorted(val.items()))


def _fmt_atoms(p: absint.Path) -> str:
    return '; '.join(f'{k[:70]}={v}' for k, v in p.atoms.items())


def find_stmt(f: FuncInfo, pred: Callable[[ast.AST], bool]) -> list[ast.AST]:
    return [n for n in walk_no_defs(f.node) if pred(n)]


def find_loops(f: FuncInfo, pred: Callable[[ast.AST], bool]) -> list[ast.AST]:
    return [n for n in walk_no_defs(f.node) if isinstance(n, (ast.While, ast.For, ast.AsyncFor)) and pred(n)]


def contains_call(repo: Repo, f: FuncInfo, node: ast.AST, *targets: str) -> bool:
    return any(is_call_to(repo, f, c, *targets) for c in calls_in(node))


def body_contains(stmt: ast.AST, pred: Callable[[ast.AST], bool]) -> bool:
    return any(pred(n) for n in walk_no_defs(stmt))


def origin(f: FuncInfo, e: ast.AST, depth: int = 3) -> ast.AST:
    """Follow single-assignment locals: the expression a Name was (only ever) bound to."""
    while depth > 0 and isinstance(e, ast.Name):
        defs = []
        for n in walk_no_defs(f.node):
            if isinstance(n, ast.Assign) and len(n.targets) == 1 and isinstance(n.targets[0], ast.Name) and n.targets[0].id == e.id:
                defs.append(n.value)
            elif isinstance(n, ast.AnnAssign) and isinstance(n.target, ast.Name) and n.target.id == e.id and n.value is not None:
                defs.append(n.value)
            elif isinstance(n, ast.Name) and n.id == e.id and isinstance(n.ctx, ast.Store) and not isinstance(f.module.parent.get(n), (ast.Assign, ast.AnnAssign)):
                defs.append(None)
        if len(defs) != 1 or defs[0] is None:
            return e
        e = defs[0]
        depth -= 1
    return e


def origin_src(f: FuncInfo, e: Optional[ast.AST]) -> str:
    return src(origin(f, e), 200) if e is not None else ''
