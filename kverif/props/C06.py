"""C06 -- the finalizer is never released early, always released eventually (R6.1-R6.6)."""
from __future__ import annotations

import ast

from .. import absint
from ..core import Ctx, PropSpec
from ..rules import calls_in, cfg_of, construct, is_call_to, kwarg, method_call, norm
from ..srcmodel import AnalysisError, dotted, src, walk_no_defs
from . import _prc

FIN = 'kopf._cogs.structs.finalizers'


def check_stop_daemons(ctx: Ctx) -> None:
    """R6.2: one iteration of stop_daemons: every path ends with 'task done' decided last, a delay appended, or ABANDONED set."""
    repo = ctx.repo
    f = repo.fn('daemons.stop_daemons')
    ctx.analysed(f)
    loops = [n for n in walk_no_defs(f.node) if isinstance(n, ast.For) and 'daemons' in src(n.iter)]
    if len(loops) != 1:
        raise AnalysisError(f'{f.loc()}: expected one loop over the daemons in stop_daemons')
    loop = loops[0]

    def eff(it, p, call, names):
        r = method_call(call, 'append')
        if r is not None and dotted(r) == 'delays':
            return 'delay'
        r = method_call(call, 'set')
        if r is not None and call.keywords:
            v = it.ev(call.keywords[0].value, p).key
            if v.endswith('DAEMON_ABANDONED'):
                return 'abandoned'
            if v.endswith('DAEMON_CANCELLED'):
                return 'set-cancelled'
            if v.endswith('DAEMON_SIGNALLED'):
                return 'set-signalled'
            return 'set-flag'
        r = method_call(call, 'cancel')
        if r is not None and src(r).endswith('.task'):
            return 'cancel'
        return None
    paths = absint.analyse(repo, f, absint.Config(effect=eff), stmts=loop.body)
    bad = []
    n_done = n_delay = n_aband = 0
    for p in paths:
        if p.status == 'raise':
            continue   # the "unsupported handler" arm
        labels = p.labels('delay', 'abandoned')
        # the `done()` atom decided last on this path
        done_atoms = [k for k in p.order if 'task.done()' in k]
        last_done = p.atoms.get(done_atoms[-1]) if done_atoms else None
        already_abandoned = any('DAEMON_ABANDONED' in k and v is True for k, v in p.atoms.items())
        if 'delay' in labels:
            n_delay += 1
        elif 'abandoned' in labels or already_abandoned:
            n_aband += 1
        elif last_done is True:
            n_done += 1
        else:
            bad.append(p)
    ctx.count('paths', len(paths))
    ctx.ob('R6.2', f'stop_daemons, one daemon ({len(paths)} feasible paths): every path either sees the task done (tested last), appends a '
           f'delay, or marks the daemon abandoned => "no delays" implies every daemon exited or was abandoned '
           f'({n_done} done / {n_delay} delayed / {n_aband} abandoned)', not bad and n_done and n_delay and n_aband,
           loc=f.loc(loop), construct=construct(f, 'table:done-or-delay-or-abandoned'),
           detail='; '.join(p.describe()[:260] for p in bad[:2]))
    # the returned value is the list the delays were appended to
    rets = [n for n in walk_no_defs(f.node) if isinstance(n, ast.Return)]
    ctx.ob('R6.2', 'stop_daemons returns the accumulated delays', all(r.value is not None and dotted(r.value) == 'delays' for r in rets) and bool(rets),
           loc=f.loc(rets[0]) if rets else f.loc(), construct=construct(f, 'flow:return delays'))


def check_flow_delays(ctx: Ctx) -> None:
    """R6.3: the delays gating the release are spawning_delays + changing_delays, changing_delays = state.delays, unfiltered."""
    repo = ctx.repo
    f, ps = _prc.paths(ctx)
    # (the table already compares which delays are returned; here: the gate reads the *same* value it returns)
    gate_ok = True
    n = 0
    for p in ps:
        rel = [e for e in p.trace if e.label == 'append:allow']
        if p.status == 'return' and p.retval is not None and p.retval.kind == 'tuple':
            n += 1
    pc = repo.fn('processing.process_changing_cause')
    ctx.analysed(pc)
    rets = [r for r in walk_no_defs(pc.node) if isinstance(r, ast.Return)]
    assigns = [a for a in walk_no_defs(pc.node) if isinstance(a, ast.Assign) and any(dotted(t) == 'delays' for t in a.targets)]
    from_state = [a for a in assigns if isinstance(a.value, ast.Attribute) and a.value.attr == 'delays' and 'state' in src(a.value.value)]
    ctx.ob('R6.3', 'process_changing_cause returns `state.delays` of the state after the outcomes were merged (unfiltered)',
           bool(rets) and all(dotted(r.value) == 'delays' for r in rets) and len(from_state) >= 1
           and all(isinstance(a.value, (ast.List,)) and not a.value.elts or a in from_state for a in assigns),
           loc=pc.loc(), construct=construct(pc, 'flow:delays=state.delays'),
           detail='; '.join(norm(a) for a in assigns))
    # process_spawning_cause on deletion returns the stop_daemons delays
    sc = repo.fn('processing.process_spawning_cause')
    ctx.analysed(sc)
    g = cfg_of(ctx, sc)[1]
    stops = g.call_nodes('daemons.stop_daemons')
    ctx.require_sites('R6.3', 'process_spawning_cause: stop_daemons call', len(stops), 1, sc.loc())
    for sn in stops:
        tgt = sn.stmt.targets[0].id if isinstance(sn.stmt, ast.Assign) and isinstance(sn.stmt.targets[0], ast.Name) else None
        returned = [r for r in walk_no_defs(sc.node) if isinstance(r, ast.Return) and tgt and dotted(r.value) == tgt]
        direct = isinstance(sn.stmt, ast.Return)
        ctx.ob('R6.3', 'process_spawning_cause: on a deletion mark the delays of stop_daemons are returned unfiltered', bool(returned) or direct,
               loc=sc.loc(sn.stmt), construct=construct(sc, 'flow:return stop_daemons delays'))

        def ongoing(e, o):
            return isinstance(e, ast.Call) and is_call_to(repo, sc, e, f'{FIN}.is_deletion_ongoing') and o is True
        from ..rules import holds_at
        ctx.ob('R6.3', 'process_spawning_cause: daemons are stopped under the deletion mark', holds_at(g, sn, ongoing), loc=sc.loc(sn.stmt),
               construct=construct(sc, 'guard:stop under deletion mark'))


def check_finalizer_writers(ctx: Ctx) -> None:
    """R6.4: who may write `finalizers`."""
    repo = ctx.repo
    block = repo.fn(f'{FIN}.block_deletion')
    allow = repo.fn(f'{FIN}.allow_deletion')
    ctx.analysed(block, allow)
    # 1. string-keyed writes of 'finalizers' anywhere in the package (merge-patch writes, raw dict writes)
    offenders = []
    n_sites = 0
    for f in repo.all_functions():
        for n in walk_no_defs(f.node):
            tgt = None
            if isinstance(n, (ast.Assign, ast.AugAssign, ast.AnnAssign)):
                tgts = n.targets if isinstance(n, ast.Assign) else [n.target]
                for t in tgts:
                    if isinstance(t, ast.Subscript) and isinstance(t.slice, ast.Constant) and t.slice.value == 'finalizers':
                        tgt = t
                    if isinstance(t, ast.Attribute) and t.attr == 'finalizers':
                        tgt = t
            elif isinstance(n, ast.Delete):
                for t in n.targets:
                    if isinstance(t, ast.Subscript) and isinstance(t.slice, ast.Constant) and t.slice.value == 'finalizers':
                        tgt = t
            elif isinstance(n, ast.Call) and isinstance(n.func, ast.Attribute) and n.func.attr in ('append', 'remove', 'insert', 'extend', 'pop', 'clear', 'sort', 'reverse'):
                if "'finalizers'" in src(n.func.value) or src(n.func.value).endswith('.finalizers'):
                    tgt = n
            elif isinstance(n, ast.Call) and isinstance(n.func, ast.Attribute) and n.func.attr in ('setdefault', 'update', '__setitem__') \
                    and n.args and isinstance(n.args[0], ast.Constant) and n.args[0].value == 'finalizers':
                tgt = n
            elif isinstance(n, ast.Call) and is_call_to(repo, f, n, 'dicts.ensure', 'dicts.remove'):
                if any('finalizers' in src(a) for a in n.args[1:2]):
                    tgt = n
            if tgt is not None:
                n_sites += 1
                if f not in (block, allow):
                    offenders.append((f, tgt))
    ctx.count('finalizer_write_sites', n_sites)
    ctx.require_sites('R6.4', 'writes of a finalizers list', n_sites, 3)
    ctx.ob('R6.4', 'only finalizers.block_deletion / allow_deletion mutate a `finalizers` list (no merge-patch key, no raw write elsewhere)',
           not offenders, loc=offenders[0][0].loc(offenders[0][1]) if offenders else block.loc(), construct='confine:finalizers-writers',
           detail='; '.join(f'{f.short}: {norm(repo.stmt_of(f.module, t), 80)}' for f, t in offenders[:3]))
    # 2. they touch only their `finalizer` argument and are idempotent (membership-guarded)
    for fn, verb in ((block, 'append'), (allow, 'remove')):
        muts = [c for c in calls_in(fn.node) if isinstance(c.func, ast.Attribute) and c.func.attr in ('append', 'remove', 'insert', 'extend', 'pop')]
        ok_arg = all(len(c.args) == 1 and dotted(c.args[0]) == 'finalizer' and c.func.attr == verb for c in muts) and bool(muts)
        ctx.ob('R6.4', f'{fn.short}: the only list mutation is `{verb}(finalizer)` of its own argument (foreign finalizers untouched, order kept)', ok_arg,
               loc=fn.loc(), construct=construct(fn, 'flow:only own finalizer'), detail='; '.join(norm(c) for c in muts))
        g = cfg_of(ctx, fn)[1]
        guarded = True
        for c in muts:
            nodes = g.stmt_nodes(lambda x, _c=c: x is _c)
            from ..rules import dominating_conditions, cond_implies
            for nd in nodes:
                def member(e, o, _verb=verb):
                    if isinstance(e, ast.Compare) and len(e.ops) == 1 and dotted(e.left) == 'finalizer':
                        if isinstance(e.ops[0], ast.In):
                            return o is (_verb == 'remove')
                        if isinstance(e.ops[0], ast.NotIn):
                            return o is (_verb == 'append')
                    return False
                if not any(cond_implies(t, o, member) for t, o, _ in dominating_conditions(g, nd)):
                    guarded = False
        ctx.ob('R6.4', f'{fn.short}: idempotent (the mutation is guarded by a membership test of the own finalizer)', guarded and bool(muts), loc=fn.loc(),
               construct=construct(fn, 'guard:membership'))
    # 3. they are only ever attached as patch.fns (JSON-patch with a resourceVersion test), never called on a merge-patch
    for fn in (block, allow):
        uses = []
        for f in repo.all_functions():
            for n in walk_no_defs(f.node, include_lambdas=True):
                if isinstance(n, (ast.Attribute, ast.Name)) and repo.resolve(f.module, n) == fn.qualname and isinstance(getattr(n, 'ctx', None), ast.Load):
                    parent = f.module.parent.get(n)
                    if isinstance(parent, ast.Attribute):
                        continue
                    uses.append((f, n, parent))
        bad = []
        for f, n, parent in uses:
            ok = False
            if isinstance(parent, ast.Call) and repo.resolve(f.module, parent.func) == 'functools.partial' and parent.args and parent.args[0] is n:
                gp = f.module.parent.get(parent)
                if isinstance(gp, ast.Call) and method_call(gp, 'append') is not None and src(method_call(gp, 'append')).endswith('.fns'):
                    ok = True
            if not ok:
                bad.append((f, n))
        ctx.require_sites('R6.4', f'uses of {fn.short}', len(uses), 1)
        ctx.ob('R6.4', f'{fn.short} is only ever attached as a transformation fn (`patch.fns.append(functools.partial(...))`)', not bad,
               loc=bad[0][0].loc(bad[0][1]) if bad else fn.loc(), construct=f'confine:use-of:{fn.short}',
               detail='; '.join(f'{f.short}: {norm(repo.stmt_of(f.module, n), 80)}' for f, n in bad[:3]))


def check_requires_finalizer(ctx: Ctx) -> None:
    """R6.5: decorator facts + SpawningRegistry.requires_finalizer honours excluded=."""
    repo = ctx.repo
    from .C05 import ctor_kwargs_in
    want = {
        'delete': ('handlers.ChangingHandler', 'bool(not optional)'),
        'daemon': ('handlers.DaemonHandler', True),
        'timer': ('handlers.TimerHandler', True),
        'create': ('handlers.ChangingHandler', None),
        'update': ('handlers.ChangingHandler', None),
        'resume': ('handlers.ChangingHandler', None),
        'field': ('handlers.ChangingHandler', None),
    }
    for dec, (cls, val) in want.items():
        f = repo.fn(f'kopf.on.{dec}')
        ctx.analysed(f)
        ctors = ctor_kwargs_in(repo, f, cls)
        ctx.require_sites('R6.5', f'on.{dec}: handler construction', len(ctors), 1, f.loc())
        for call, kws in ctors:
            v = kws.get('requires_finalizer')
            if isinstance(val, str):
                # bool(not optional): a call of bool on the negation of the `optional` parameter
                ok = isinstance(v, ast.Call) and dotted(v.func) == 'bool' and len(v.args) == 1 and isinstance(v.args[0], ast.UnaryOp) \
                    and isinstance(v.args[0].op, ast.Not) and dotted(v.args[0].operand) == 'optional'
                ok = ok or (isinstance(v, ast.UnaryOp) and isinstance(v.op, ast.Not) and dotted(v.operand) == 'optional')
            else:
                ok = isinstance(v, ast.Constant) and v.value is val
            ctx.ob('R6.5', f'on.{dec} registers requires_finalizer={val}', ok, loc=f.loc(call), construct=f'kopf.on.{dec}:config:requires_finalizer',
                   detail=f'found {norm(v)}')
    # registries: requires_finalizer = any non-excluded handler with requires_finalizer and (pre)match
    for ref, matcher in (('registries.SpawningRegistry.requires_finalizer', 'registries.match'),
                         ('registries.ChangingRegistry.requires_finalizer', 'registries.prematch')):
        f = repo.fn(ref)
        ctx.analysed(f)
        loops = [n for n in walk_no_defs(f.node) if isinstance(n, ast.For)]
        if len(loops) != 1:
            raise AnalysisError(f'{f.loc()}: expected one loop in {f.short}')
        hv = loops[0].target.id
        paths = absint.analyse(repo, f, absint.Config(), stmts=loops[0].body, env={hv: absint.sym('handler')})
        bad = []
        for p in paths:
            x = p.atom(r'in\(handler\.id, excluded\)')
            rf = p.atom(r'truthy\(handler\.requires_finalizer\)')
            mt = p.atom(r'truthy\(.*registries\.(pre)?match\(')
            returns_true = p.status == 'return' and p.retval is not None and p.retval.kind in ('const', 'bool') and p.retval.data is True
            want_true = (x is False) and (rf is True) and (mt is True)
            if returns_true != want_true:
                bad.append(p)
        ctx.count('paths', len(paths))
        ctx.ob('R6.5', f'{f.short}: True iff some non-excluded handler requires the finalizer and matches the object', not bad and len(paths) >= 3,
               loc=f.loc(), construct=construct(f, 'formula'), detail='; '.join(p.describe()[:200] for p in bad[:2]))
        tail = [s for s in f.node.body if isinstance(s, ast.Return)]
        ctx.ob('R6.5', f'{f.short}: False when no handler qualifies', bool(tail) and isinstance(tail[-1].value, ast.Constant) and tail[-1].value.value is False,
               loc=f.loc(), construct=construct(f, 'formula:default False'))
    # the caller passes the forever-stopped set
    pr = repo.fn(_prc.FN)
    calls = [c for c in calls_in(pr.node) if is_call_to(repo, pr, c, 'registries.SpawningRegistry.requires_finalizer')]
    ctx.require_sites('R6.5', 'process_resource_causes: spawning requires_finalizer call', len(calls), 1, pr.loc())
    for c in calls:
        ex = kwarg(c, 'excluded')
        ctx.ob('R6.5', 'process_resource_causes: daemons that exited on their own (forever_stopped) do not hold the finalizer', ex is not None and src(ex).endswith('forever_stopped'),
               loc=pr.loc(c), construct=construct(pr, 'config:requires_finalizer(excluded=forever_stopped)'))


def check(ctx: Ctx) -> None:
    _prc.check_table(ctx, 'R6.1', 'process_resource_causes (Appendix A.3): block_deletion appended iff must and not blocked and not ongoing; '
                     'allow_deletion iff (not must and blocked) or (not DELETED and ongoing and blocked and no delays and the consistency gate '
                     'did not return early); handlers skipped on add/remove cycles')
    check_stop_daemons(ctx)
    from . import _stoppers
    _stoppers.check_flag_setter(ctx, 'R6.2')
    check_flow_delays(ctx)
    check_finalizer_writers(ctx)
    check_requires_finalizer(ctx)
    # R6.6 = R8.3-R8.5: a 422 on the finalizer JSON-patch carries the transformation forward (never dropped)
    from . import C08
    C08.check_carry_forward(ctx, rule_prefix='R6.6')
    C08.check_patch_obj(ctx, rule_prefix='R6.6')


SPEC = PropSpec(
    id='C06',
    title='The finalizer is never released early, always released eventually',
    technique='static analysis: decision table of process_resource_causes by path enumeration over a predicate abstraction (TABLE), per-iteration '
              'table of stop_daemons, who-may-write `finalizers` over the whole package (CONFINE), def-use of the gating delays (FLOW), decorator facts (CONFIG), '
              'no-drop of the remaining patch (NODROP)',
    level_text='Static analysis of the current source: for ALL valuations of the 17 branch predicates of process_resource_causes the finalizer is added iff '
               'required and absent and no deletion is ongoing, and released iff not required, or (deletion ongoing, blocked, not a DELETED event, no delays '
               'left from daemons or handlers, and the consistency gate did not return early); stop_daemons reports a delay for every daemon that has neither '
               'exited nor been abandoned; only block_deletion/allow_deletion mutate a finalizers list, only their own entry, idempotently, and only as '
               'JSON-patch transformation fns; a 422 carries them forward. Necessary conditions; liveness ("always eventually") is NOT decided.',
    level_note='branch predicates are opaque atoms; the cycle patch is versioned across calls that can write it; DESIGN.md §3',
    design_ref='DESIGN.md §4 C06, Appendix A.3, A.9',
    explanation='TABLE (A.3) over processing.process_resource_causes; TABLE over one iteration of daemons.stop_daemons; FLOW of delays; CONFINE of every '
                'write to a finalizers list in the package; CONFIG of requires_finalizer in kopf/on.py and FORMULA of the registries; NODROP of remaining patches.',
    not_decided='"always released eventually" (liveness); interleavings with foreign finalizer edits beyond the atomicity of the resourceVersion test op.',
    check=check,
)
