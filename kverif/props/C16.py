"""C16 -- persistence storages: one location family per class, every operation overridden/forwarded, generated
annotation names valid, bounded and deterministic (DESIGN.md §4 C16, R16.1-R16.4).

This module also hosts the machinery shared with C04 (same author): the abstract string domain (STRDOM) that evaluates
the key-forming functions over their AST, and the location/erase-footprint model of the storage classes.
"""
from __future__ import annotations

import ast
import itertools
import string
from dataclasses import dataclass, replace
from typing import Any, Optional

from ..core import Ctx, PropSpec
from ..rules import calls_in, is_call_to, kwarg, norm
from ..srcmodel import AnalysisError, FuncInfo, Repo, dotted, src, walk_no_defs

CONV = 'kopf._cogs.configs.conventions'
PROG = 'kopf._cogs.configs.progress'
DIFB = 'kopf._cogs.configs.diffbase'
DICTS = 'kopf._cogs.structs.dicts'
PATCH_CLS = 'kopf._cogs.structs.patches.Patch'
BODY_CLS = 'kopf._cogs.structs.bodies.Body'
FORMING = f'{CONV}.StorageKeyFormingConvention'
MARKING = f'{CONV}.StorageKeyMarkingConvention'

# ====================================================================================== STRDOM: abstract strings
ALNUM = frozenset(string.ascii_letters + string.digits)
NAME_BODY = ALNUM | frozenset('_.-')            # Kubernetes qualified name: body characters of the name part
ID_ALPHABET = ALNUM | frozenset('_./<>-')       # handler ids quantified over by the property
NAME_MAX = 63


def _fmt_chars(cs: Optional[frozenset]) -> str:
    if cs is None:
        return '<any character>'
    rest = sorted(c for c in cs if c not in ALNUM)
    out = ('[alnum]' if cs & ALNUM else '') + ''.join(rest)
    return out or '<none>'


@dataclass(frozen=True)
class Seg:
    chars: Optional[frozenset]      # None = any character
    lo: int
    hi: Optional[int]               # None = unbounded
    tag: str = ''


@dataclass(frozen=True)
class AStr:
    """A string as a sequence of segments; ``last_not``: if the string is non-empty its last character is not in the set."""
    segs: tuple = ()
    last_not: frozenset = frozenset()

    @property
    def minlen(self) -> int:
        return sum(s.lo for s in self.segs)

    @property
    def maxlen(self) -> Optional[int]:
        tot = 0
        for s in self.segs:
            if s.hi is None:
                return None
            tot += s.hi
        return tot

    def chars(self) -> Optional[frozenset]:
        out: frozenset = frozenset()
        for s in self.segs:
            if s.hi == 0:
                continue
            if s.chars is None:
                return None
            out |= s.chars
        return out

    def first(self) -> Optional[frozenset]:
        out: frozenset = frozenset()
        for s in self.segs:
            if s.hi == 0:
                continue
            if s.chars is None:
                return None
            out |= s.chars
            if s.lo >= 1:
                break
        return out

    def last(self) -> Optional[frozenset]:
        out: frozenset = frozenset()
        for s in reversed(self.segs):
            if s.hi == 0:
                continue
            if s.chars is None:
                return None
            out |= s.chars
            if s.lo >= 1:
                break
        return out - self.last_not

    def concat(self, other: 'AStr') -> 'AStr':
        ln = other.last_not if other.minlen >= 1 else (self.last_not & other.last_not)
        return AStr(self.segs + other.segs, ln)

    def replaced(self, k: str, v: str) -> 'AStr':
        if len(k) != 1:
            segs = tuple(Seg(None if s.chars is None else s.chars | frozenset(v), 0, None if len(v) > len(k) else s.hi, s.tag) for s in self.segs)
            return AStr(segs)
        segs = []
        for s in self.segs:
            if s.chars is None or k not in s.chars:
                segs.append(s)
                continue
            cs = (s.chars - {k}) | frozenset(v)
            lo = s.lo if len(v) >= 1 else 0
            hi = s.hi if len(v) <= 1 else None
            segs.append(Seg(cs, lo, hi, s.tag))
        ln = (self.last_not - frozenset(v)) | (frozenset(k) - frozenset(v))
        return AStr(tuple(segs), ln)

    def rstripped(self, strip: frozenset) -> 'AStr':
        segs = list(self.segs)
        while segs and segs[-1].chars is not None and segs[-1].chars <= strip:
            segs.pop()
        out = []
        stopped = False
        for s in reversed(segs):
            if stopped or (s.chars is not None and not (s.chars & strip)):
                out.append(s)
                stopped = stopped or s.lo >= 1
            else:
                out.append(Seg(s.chars, 0, s.hi, s.tag))
        return AStr(tuple(reversed(out)), frozenset(strip))

    def prefix_slice(self, cap: Optional[int]) -> 'AStr':
        """``s[:n]`` for a non-negative n <= cap: a prefix (any character of s may become the last one)."""
        segs = []
        for s in self.segs:
            hi = s.hi if cap is None else (cap if s.hi is None else min(s.hi, cap))
            segs.append(Seg(s.chars, 0, hi, s.tag))
        return AStr(tuple(segs))

    def describe(self) -> str:
        return ' + '.join(f'{_fmt_chars(s.chars)}{{{s.lo},{"∞" if s.hi is None else s.hi}}}' for s in self.segs) or "''"


def lit(s: str) -> AStr:
    return AStr(tuple(Seg(frozenset(c), 1, 1) for c in s))


ANY_STR = AStr((Seg(None, 0, None),))


# ---------------------------------------------------------------------------------------------- abstract values
@dataclass(frozen=True)
class Part:
    val: 'SVal'
    term: Optional[tuple] = None         # identity of the variable the part reads (for len() relations)
    bound: Optional['IVal'] = None       # upper slice bound if the part is ``x[:bound]``
    base: Optional['SVal'] = None        # the sliced string
    node: Optional[ast.AST] = None


@dataclass(frozen=True)
class SVal:
    alts: tuple                          # alternatives (AStr)
    const: Optional[str] = None          # exact literal if known
    parts: Optional[tuple] = None        # concatenation structure (Part, ...) if the value is a concatenation
    term: Optional[tuple] = None


@dataclass(frozen=True)
class IVal:
    kind: str                            # const | lin | max | min | alt | top
    a: Any = None
    b: Any = None


@dataclass(frozen=True)
class BVal:
    n: Optional[int]
    text: Optional[AStr] = None


@dataclass(frozen=True)
class HVal:
    n: Optional[int]


@dataclass(frozen=True)
class DVal:
    items: tuple                         # ((str, str), ...)
    as_items: bool = False


@dataclass(frozen=True)
class TopVal:
    why: str = ''


TOP = TopVal()
I_TOP = IVal('top')


def s_top() -> SVal:
    return SVal((ANY_STR,))


def s_lit(s: str) -> SVal:
    return SVal((lit(s),), const=s)


def as_str(v: Any) -> SVal:
    return v if isinstance(v, SVal) else s_top()


def s_concat(a: SVal, b: SVal) -> SVal:
    alts = tuple(x.concat(y) for x in a.alts for y in b.alts)
    if len(alts) > 64:
        alts = (ANY_STR,)
    pa = a.parts if a.parts is not None else (Part(a, a.term),)
    pb = b.parts if b.parts is not None else (Part(b, b.term),)
    const = a.const + b.const if a.const is not None and b.const is not None else None
    return SVal(alts, const=const, parts=pa + pb)


def s_join(a: SVal, b: SVal) -> SVal:
    alts = tuple(dict.fromkeys(a.alts + b.alts))
    return SVal(alts, const=a.const if a.const == b.const else None)


def i_const(n: int) -> IVal:
    return IVal('const', n)


def i_lin(c: int, terms: dict) -> IVal:
    terms = {t: k for t, k in terms.items() if k}
    if not terms:
        return i_const(c)
    return IVal('lin', c, tuple(sorted(terms.items(), key=repr)))


def _lin_parts(v: IVal) -> Optional[tuple[int, dict]]:
    if v.kind == 'const':
        return v.a, {}
    if v.kind == 'lin':
        return v.a, dict(v.b)
    return None


def i_add(x: IVal, y: IVal, sign: int = 1) -> IVal:
    px, py = _lin_parts(x), _lin_parts(y)
    if px is None or py is None:
        return I_TOP
    terms = dict(px[1])
    for t, k in py[1].items():
        terms[t] = terms.get(t, 0) + sign * k
    return i_lin(px[0] + sign * py[0], terms)
