"""C07 -- change handlers never run on a view older than the operator's own last write (R7.1-R7.5)."""
from __future__ import annotations

import ast

from .. import absint
from ..core import Ctx, PropSpec
from ..rules import calls_in, construct, is_call_to, kwarg, method_call, norm, origin
from ..srcmodel import AnalysisError, dotted, src, walk_no_defs
from . import _prc

Q = 'kopf._core.reactor.queueing'


def check_worker_bookkeeping(ctx: Ctx) -> None:
    """R7.2: the worker remembers the patched version and clears it only when that version arrives."""
    repo = ctx.repo
    f = repo.fn(f'{Q}.worker')
    ctx.analysed(f)
    loops = [n for n in walk_no_defs(f.node) if isinstance(n, ast.While)
             and any(method_call(c, 'get') is not None and not c.args for c in calls_in(n))]
    if len(loops) != 1:
        raise AnalysisError(f'{f.loc()}: expected one dequeue loop in worker')
    loop = loops[0]
    proc_calls = [c for c in calls_in(loop) if isinstance(c.func, ast.Name) and c.func.id == 'processor']
    ctx.require_sites('R7.2', 'worker: processor call', len(proc_calls), 1, f.loc())
    if not proc_calls:
        return
    ct_arg = kwarg(proc_calls[0], 'consistency_time')
    ctx.ob('R7.2', 'worker: the processor receives the consistency deadline', ct_arg is not None and isinstance(ct_arg, ast.Name), loc=f.loc(proc_calls[0]),
           construct=construct(f, 'config:processor(consistency_time=)'), detail=norm(ct_arg))
    if not isinstance(ct_arg, ast.Name):
        return
    ctv = ct_arg.id
    # the variable holding the awaited version: the one compared against get_version(<event>)
    evs = [n for n in walk_no_defs(loop) if isinstance(n, ast.Compare) and len(n.ops) == 1 and isinstance(n.ops[0], ast.Eq)
           and any(isinstance(x, ast.Call) and is_call_to(repo, f, x, f'{Q}.get_version') for x in [n.left, n.comparators[0]])]
    ctx.require_sites('R7.2', 'worker: comparison of the awaited version with the incoming event version', len(evs), 1, f.loc(loop))
    if not evs:
        return
    evn = evs[0].left if isinstance(evs[0].left, ast.Name) else evs[0].comparators[0]
    if not isinstance(evn, ast.Name):
        raise AnalysisError(f'{f.loc(evs[0])}: cannot identify the awaited-version variable')
    ev = evn.id

    def eff(it, p, call, names):
        if isinstance(call.func, ast.Name) and call.func.id == 'processor':
            return 'process'
        return None
    cfg = absint.Config(effect=eff, raising={'asyncio.wait_for': ['asyncio.TimeoutError']})
    env = {ev: absint.sym('EV'), ctv: absint.sym('CT')}
    paths = absint.analyse(repo, f, cfg, stmts=loop.body, env=env)
    atoms = {
        'EVN': r'^isnone\(EV\)$',
        'ARR': r'^eq\(.*EV.*get_version\(|^eq\(.*get_version\(.*EV',
        'RN': r'^isnone\(processor\(',
        'TO': r'^truthy\(settings\.persistence\.consistency_timeout\)$',
    }
    bad = []
    n = 0
    rows = set()
    for p in paths:
        procs = p.effects('process')
        if not procs:
            # timeout / EOS iterations: the bookkeeping must be untouched
            if p.env.get(ev, absint.sym('?')).key != 'EV' or p.env.get(ctv, absint.sym('?')).key != 'CT':
                bad.append((p, 'bookkeeping changed in an iteration that processed nothing'))
            continue
        for v in absint.completions(p, atoms, lambda k, _p=p: absint.entails(repo, f, _p, k)):
            n += 1
            cleared = (not v['EVN']) and v['ARR']
            passed = procs[0].kw.get('consistency_time')
            exp_passed = 'None' if cleared else 'CT'
            if passed is None or passed.key != exp_passed:
                bad.append((p, f'{_fmt(v)}: processor got consistency_time={passed.key if passed else None}, expected {exp_passed}'))
                continue
            set_new = (not v['RN']) and v['TO']
            fev, fct = p.env.get(ev), p.env.get(ctv)
            rows.add((cleared, set_new))
            if set_new:
                ok = fev is not None and fev.key == procs[0].key and fct is not None and '.time()' in fct.key and 'consistency_timeout' in fct.key
            elif cleared:
                ok = fev is not None and fev.key == 'None' and fct is not None and fct.key == 'None'
            else:
                ok = fev is not None and fev.key == 'EV' and fct is not None and fct.key == 'CT'
            if not ok:
                bad.append((p, f'{_fmt(v)}: after the iteration awaited-version={fev.key if fev else None}, deadline={fct.key[:60] if fct else None}'))
    ctx.count('paths', len(paths)); ctx.count('valuations', n)
    ctx.ob('R7.2', f'worker, one iteration ({len(paths)} paths, {n} valuations): the awaited version and its deadline are set iff the processor returned a version '
           'and the timeout is configured; cleared iff the incoming event carries exactly the awaited version; otherwise kept; the current deadline is what '
           'the processor receives', not bad and len(rows) >= 4, loc=f.loc(loop), construct=construct(f, 'table:version-bookkeeping'),
           detail=' | '.join(m for _, m in bad[:3]))
    # R7.5: the idle timeout is extended by the remaining consistency time (a worker must not retire while a version is awaited)
    wf = [c for c in calls_in(loop) if (repo.resolve(f.module, c.func) or '') == 'asyncio.wait_for']
    ok = False
    for c in wf:
        t = kwarg(c, 'timeout', 1)
        o = origin(f, t) if t is not None else None
        if isinstance(o, ast.Call) and dotted(o.func) == 'max' and len(o.args) >= 2:
            # what each argument depends on, through locals however often they are (re)bound
            deps = [_depends_on(f, a) for a in o.args]
            ok = any(ctv in d[0] for d in deps) and any('idle_timeout' in d[1] for d in deps)
    ctx.ob('R7.5', 'worker: the dequeue timeout is max(idle timeout, remaining consistency time)', ok, loc=f.loc(wf[0]) if wf else f.loc(),
           construct=construct(f, 'config:timeout=max(idle, consistency)'))


def _depends_on(f, e: ast.AST, depth: int = 4) -> tuple[set, str]:
    """(names, source text) an expression depends on, following locals through all their bindings."""
    names = {x.id for x in ast.walk(e) if isinstance(x, ast.Name)}
    text = src(e, 300)
    seen = set()
    for _ in range(depth):
        new = names - seen
        if not new:
            break
        seen |= new
        for n in walk_no_defs(f.node):
            tgts, val = [], None
            if isinstance(n, ast.Assign):
                tgts, val = n.targets, n.value
            elif isinstance(n, ast.AnnAssign) and n.value is not None:
                tgts, val = [n.target], n.value
            for t in tgts:
                if isinstance(t, ast.Name) and t.id in new and val is not None:
                    names |= {x.id for x in ast.walk(val) if isinstance(x, ast.Name)}
                    text += ' ' + src(val, 300)
    return names, text


def _fmt(v: dict) -> str:
    return ' '.join(f'{k}={int(bool(x))}' for k, x in sorted(v.items()))


def check_version_flow(ctx: Ctx) -> None:
    """R7.3: the version handed to the worker is the resourceVersion of the last PATCH response."""
    repo = ctx.repo
    pe = repo.fn('processing.process_resource_event')
    ap = repo.fn('application.apply')
    pc = repo.fn('application.patch_and_check')
    ctx.analysed(pe, ap, pc)
    # process_resource_event: returns apply()[1] or None
    rets = [r for r in walk_no_defs(pe.node) if isinstance(r, ast.Return)]
    unpack = [a for a in walk_no_defs(pe.node) if isinstance(a, ast.Assign) and isinstance(a.targets[0], ast.Tuple) and isinstance(a.value, ast.Await)
              and is_call_to(repo, pe, a.value.value, 'application.apply')]
    ok = len(unpack) == 1 and len(unpack[0].targets[0].elts) == 3
    rv = unpack[0].targets[0].elts[1].id if ok and isinstance(unpack[0].targets[0].elts[1], ast.Name) else None
    okr = bool(rets) and all((isinstance(r.value, ast.Constant) and r.value.value is None) or r.value is None or (rv and dotted(r.value) == rv) for r in rets) \
        and any(rv and dotted(r.value) == rv for r in rets)
    ctx.ob('R7.3', 'process_resource_event returns the resource version reported by apply() (or None)', ok and okr, loc=pe.loc(),
           construct=construct(pe, 'flow:return apply()[1]'))
    # apply: element 1 of every returned triple is bound only from patch_and_check()[0]
    arets = [r for r in walk_no_defs(ap.node) if isinstance(r, ast.Return) and isinstance(r.value, ast.Tuple) and len(r.value.elts) == 3]
    name = dotted(arets[0].value.elts[1]) if arets else None
    binds = []
    for n in walk_no_defs(ap.node):
        if isinstance(n, ast.Name) and n.id == name and isinstance(n.ctx, ast.Store):
            a = repo.stmt_of(ap.module, n)
            good = isinstance(a, ast.Assign) and isinstance(a.targets[0], ast.Tuple) and a.targets[0].elts[0] is n and isinstance(a.value, ast.Await) \
                and is_call_to(repo, ap, a.value.value, 'application.patch_and_check')
            binds.append(good)
    ctx.ob('R7.3', 'apply(): the reported version is the one of the last patch_and_check (the touch-patch overrides the first)', bool(arets) and all(
        dotted(r.value.elts[1]) == name for r in arets) and len(binds) >= 2 and all(binds), loc=ap.loc(), construct=construct(ap, 'flow:resource_version'))
    # patch_and_check: resourceVersion of the response body; the never-arriving sentinel when the last finalizer goes
    prets = [r for r in walk_no_defs(pc.node) if isinstance(r, ast.Return) and isinstance(r.value, ast.Tuple) and len(r.value.elts) == 2]
    nm = next((dotted(r.value.elts[0]) for r in prets if isinstance(r.value.elts[0], ast.Name)), None)
    assigns = [a for a in walk_no_defs(pc.node) if isinstance(a, ast.Assign) and any(dotted(t) == nm for t in a.targets)]
    body_name = None
    for a in walk_no_defs(pc.node):
        if isinstance(a, ast.Assign) and isinstance(a.targets[0], ast.Tuple) and isinstance(a.value, ast.Await) and is_call_to(repo, pc, a.value.value, 'patching.patch_obj'):
            body_name = dotted(a.targets[0].elts[0])
    from_body = []
    for a in assigns:
        names, text = _depends_on(pc, a.value)
        if body_name and body_name in names and "'resourceVersion'" in text and not isinstance(a.value, ast.JoinedStr):
            from_body.append(a)
    sentinel = [a for a in assigns if isinstance(a.value, ast.JoinedStr) and nm in {x.id for x in ast.walk(a.value) if isinstance(x, ast.Name)}]
    others = [a for a in assigns if a not in from_body and a not in sentinel]
    ctx.ob('R7.3', 'patch_and_check: the version is metadata.resourceVersion of the PATCH response body', bool(from_body) and not others and nm is not None,
           loc=pc.loc(), construct=construct(pc, 'flow:resourceVersion of the response'), detail='; '.join(norm(a) for a in others))
    ok_s = False
    if sentinel:
        g = __import__('kverif.rules', fromlist=['cfg_of']).cfg_of(ctx, pc)[1]
        from ..rules import dominating_conditions
        for a in sentinel:
            for n in [x for x in g.nodes if x.stmt is a]:
                cs = dominating_conditions(g, n)
                txt = ' '.join(src(t) for t, o, _ in cs if o)
                ok_s = 'ongoing' in txt and 'blocked' in txt or ('deletionTimestamp' in txt)
    ctx.ob('R7.3', 'patch_and_check: when the last finalizer is removed from a deleting object the version becomes a sentinel that never arrives '
           '(no handler waits for an echo that cannot come... and none runs on a stale view either)', bool(sentinel) and ok_s, loc=pc.loc(),
           construct=construct(pc, 'flow:never-arriving sentinel'))
    # the deadline reaches the gate
    calls = [c for c in calls_in(pe.node) if is_call_to(repo, pe, c, 'processing.process_resource_causes')]
    ctx.ob('R7.5', 'process_resource_event hands consistency_time to process_resource_causes unchanged', len(calls) == 1 and dotted(kwarg(calls[0], 'consistency_time')) == 'consistency_time',
           loc=pe.loc(), construct=construct(pe, 'config:process_resource_causes(consistency_time=)'))


def check(ctx: Ctx) -> None:
    _prc.check_table(ctx, 'R7.1', 'process_resource_causes (Appendix A.3): change handlers run iff a changing cause is present and (no version is awaited, or the '
                     'barrier sleep ran out un-woken, or the object is gone) and the patch was empty at entry; otherwise an early return with matched=False; '
                     'raw-event handlers and daemons/timers always run before the barrier (R7.4); the barrier sleep is interruptible by new events (R7.5)')
    check_worker_bookkeeping(ctx)
    check_version_flow(ctx)


SPEC = PropSpec(
    id='C07',
    title="Change handlers never run on a view older than the operator's own last write",
    technique='static analysis: decision table of process_resource_causes (TABLE, incl. the order of effects: low-level handlers before the barrier), '
              'per-iteration table of the worker\'s version bookkeeping (TABLE), def-use of the reported resource version across three functions (FLOW), keyword facts (CONFIG)',
    level_text='Static analysis of the current source: for all valuations of the branch predicates, process_changing_cause is reached only when no patched version '
               'is awaited, or the interruptible barrier sleep ran out un-woken, and the cycle patch was empty at entry; watching and spawning causes are processed '
               'before the barrier; the worker sets the awaited version iff a PATCH returned one (and the timeout is configured), clears it only on the event carrying '
               'exactly that version, passes its deadline to the processor and does not retire while waiting; the version is the resourceVersion of the last PATCH '
               'response. The timing statement over delivery delays is NOT decided.',
    level_note='values opaque; the comparison of versions is an equality atom; DESIGN.md §3',
    design_ref='DESIGN.md §4 C07, Appendix A.3',
    explanation='TABLE (A.3) over processing.process_resource_causes; TABLE over one iteration of queueing.worker; FLOW over process_resource_event -> apply -> patch_and_check.',
    not_decided='the timing statement over echo delivery delays below/above the timeout.',
    check=check,
)
