"""
D11 (C15): callbacks given as field criteria (`value=`, `old=`, `new=`) receive the private
registries._UNSET.token for an absent field; the documentation promises None ("The passed value
will be None if the value is absent in the resource"), and label/annotation callbacks do get None.
A criterion such as `lambda v, **_: v is None` or `not v` therefore never matches and the
handler whose declared criteria hold is not invoked.
Run: /venv/bin/python D11_sentinel_to_value_callback.py
"""
import kopf, logging
from kopf._core.intents import registries, causes
from kopf._cogs.structs import bodies, patches, references, diffs
from kopf._core.engines.indexing import OperatorIndexers
seen = []
def cb(value, **_):
    seen.append(value); return value is None
registry = registries.OperatorRegistry()
@kopf.on.create('g', 'v1', 'plural', registry=registry, field='spec.missing', value=cb)
def fn(**_): pass
@kopf.on.update('g', 'v1', 'plural', registry=registry, field='spec.missing', old=cb)
def fn2(**_): pass
@kopf.on.event('g', 'v1', 'plural', registry=registry, labels={'nolabel': cb})
def fn3(**_): pass
resource = references.Resource('g', 'v1', 'plural')
body = bodies.Body({'metadata': {'name': 'x'}, 'spec': {'other': 1}})
common = dict(resource=resource, indices=OperatorIndexers().indices, logger=logging.getLogger(), patch=patches.Patch(), body=body, memo=None)
c = causes.ChangingCause(**common, initial=False, reason=causes.Reason.CREATE, old=None, new={'spec': {'other': 1}}, diff=diffs.diff(None, {'spec': {'other': 1}}))
print('create handlers:', [h.id for h in registry._changing.get_handlers(c)], 'callback saw:', seen); seen.clear()
c = causes.ChangingCause(**common, initial=False, reason=causes.Reason.UPDATE, old={'spec': {'other': 0}}, new={'spec': {'other': 1, 'missing': 5}}, diff=diffs.diff({'spec': {'other': 0}}, {'spec': {'other': 1, 'missing': 5}}))
print('update handlers:', [h.id for h in registry._changing.get_handlers(c)], 'callback saw:', seen); seen.clear()
w = causes.WatchingCause(**common, type='ADDED', event={'type': 'ADDED', 'object': dict(body)})
print('event handlers (label callback):', [h.id for h in registry._watching.get_handlers(w)], 'callback saw:', seen)
