#!/bin/sh
# Development aid: apply a seeded change to /repo, run every registered check (tier $2, default quick), undo the change.
# usage: tools/try_seed.sh <patch.diff> [quick|thorough]
patch="$1"; tier="${2:-quick}"
cd /verif || exit 2
[ -n "$(git -C /repo status --porcelain --untracked-files=no)" ] && { echo "/repo is not clean"; exit 2; }
git -C /repo apply "$patch" || { echo "patch does not apply"; exit 2; }
trap 'git -C /repo checkout -- . ' EXIT
export KVERIF_EVIDENCE_DIR="$(mktemp -d /tmp/kverif-seed-ev-XXXXXX)"
hit=""
for p in $(/venv/bin/python -c "import json;print(' '.join(c['property_id'] for c in json.load(open('MANIFEST.json'))['checks']))"); do
  out=$(./bin/check "$p" --tier "$tier" 2>&1); e=$?
  if [ $e -ne 0 ]; then
    hit="$hit $p(exit=$e)"
    echo "== $p exit=$e"; echo "$out" | grep -v '^  analysed\|^KNOWN-FINDING\|^  fixed:' | grep -v "^$p \[" | cut -c1-400 | head -6
  fi
done
rm -rf "$KVERIF_EVIDENCE_DIR"
echo "DETECTED-BY:${hit:- none}"
