"""Extension rule set "structs": the dict/diff/patch/view helpers and the essence cleaners that C04, C16, C08, C18 and C03 rely on
but that no property module examined (DESIGN.md §8: "the change sat in a helper the design had not given a rule of its own").

dicts.resolve            R4.40 R16.40 R18.20   the default is handed out only for an absent path / a non-mapping parent; a stored None is returned
dicts.ensure             R16.41 R18.21         parents are descended into, created only when missing, never overwritten; the leaf is set on the last level
dicts.remove             R4.41 R16.42 R18.22   absent keys are no error; the key is deleted iff one segment remains; an emptied parent is dropped iff `== {}`
dicts.cherrypick         R4.42                 every field is copied through the picker; an absent field skips that field only
dicts.*MappingView       R4.43 R16.43 R8.41    views are live (source kept by reference), reads/writes go to `<path>.<key>` of the source
patches/bodies wiring    R4.44 R16.44 R8.42    metadata/spec/status/labels/annotations accessors are views of exactly that stanza of the object itself
diffs.diff_iter          R4.45                 equal values yield nothing, decided by `==` before any other case
diffs.reduce_iter/reduce R4.46                 narrowing a diff to a field: as-is / prefix stripped / re-diffed tails of old and new
patches.Patch.__init__   R8.40 R3.40           transformation functions are inherited from a source Patch AND extended by `fns=`
patches.Patch.__bool__   R8.43 R3.41           a patch is empty iff it has neither dict content nor transformation functions
Patch.as_json_patch      R18.23 R8.44          every fn is applied to the copy the merge-patch went into; ops = diff(reference -> that copy); the given body
                                               is the reference (else the original); an empty patch needs no reference
stanza cleaner           R4.47                 remove_empty_stanzas: emptied annotations/labels are dropped before the emptiness of metadata is judged, same key
                                               in test and deletion; remove_annotations: rewrite whenever ANY key to remove is present
DiffBaseStorage.build    R4.48 R16.45          the essence is a deep copy, in-place deletions touch only it; order of purge/restore/clean-up; ignored fields
mark_key / make_keys     R16.46                marked iff ReplicaSet owned by a Deployment; marked iff a body is given; v2 always, v1 iff enabled
storage constructors     R4.49 R16.47          constructor parameters reach the attributes the methods read (through the cooperative super() chain)
dicts.parse_field        R16.48                None -> root, dotted string -> segments, list/tuple -> tuple
"""
from __future__ import annotations

import ast
import itertools
import re
from typing import Any, Iterable, Optional

from .. import absint
from ..core import Ctx
from ..rules import (calls_in, cfg_of, cond_implies, construct, dominating_conditions, holds_at, is_call_to, kwarg, loop_nodes, norm,
                     origin, table_check)
from ..srcmodel import AnalysisError, FuncInfo, Repo, dotted, walk_no_defs

DICTS = 'kopf._cogs.structs.dicts'
DIFFS = 'kopf._cogs.structs.diffs'
PATCHES = 'kopf._cogs.structs.patches'
BODIES = 'kopf._cogs.structs.bodies'
CONV = 'kopf._cogs.configs.conventions'
DIFB = 'kopf._cogs.configs.diffbase'

WRAPPERS = ('tuple', 'list', 'dict')


# ====================================================================================================== small helpers
def _is_name(e: Optional[ast.AST], name: Optional[str]) -> bool:
    return isinstance(e, ast.Name) and name is not None and e.id == name


def _unwrap(repo: Repo, f: FuncInfo, e: Optional[ast.AST], *, follow: bool = False) -> Optional[ast.AST]:
    """Strip tuple()/list()/dict()/cast() wrappers (they change neither the elements nor their order); optionally follow locals."""
    for _ in range(12):
        if isinstance(e, ast.Call) and dotted(e.func) in WRAPPERS and len(e.args) == 1 and not e.keywords:
            e = e.args[0]
        elif isinstance(e, ast.Call) and (repo.resolve(f.module, e.func) or dotted(e.func) or '').endswith('cast') and len(e.args) == 2:
            e = e.args[1]
        elif follow and isinstance(e, ast.Name):
            o = origin(f, e, depth=1)
            if o is e:
                return e
            e = o
        else:
            return e
    return e


def _int(e: Optional[ast.AST]) -> Optional[int]:
    if isinstance(e, ast.Constant) and isinstance(e.value, int) and not isinstance(e.value, bool):
        return e.value
    if isinstance(e, ast.UnaryOp) and isinstance(e.op, ast.USub) and isinstance(e.operand, ast.Constant) and isinstance(e.operand.value, int):
        return -e.operand.value
    return None


def _empty_dict(e: Optional[ast.AST]) -> bool:
    return (isinstance(e, ast.Dict) and not e.keys) or (isinstance(e, ast.Call) and dotted(e.func) == 'dict' and not e.args and not e.keywords)


def _index(e: Optional[ast.AST], base: str, i: int) -> bool:
    """`base[i]` with a constant index."""
    return isinstance(e, ast.Subscript) and _is_name(e.value, base) and _int(e.slice) == i


def _slice(e: Optional[ast.AST], base: str, lower: Optional[int], upper: Optional[int]) -> bool:
    """`base[lower:upper]` with constant (or omitted) bounds."""
    if not (isinstance(e, ast.Subscript) and _is_name(e.value, base) and isinstance(e.slice, ast.Slice) and e.slice.step is None):
        return False
    lo = None if e.slice.lower is None else _int(e.slice.lower)
    up = None if e.slice.upper is None else _int(e.slice.upper)
    if e.slice.lower is not None and lo is None or e.slice.upper is not None and up is None:
        return False
    return (lo or None) == (lower or None) and up == upper


def _nodes_of(g: Any, stmt: ast.AST) -> list:
    return [n for n in g.nodes if n.stmt is stmt and n.kind in ('stmt', 'return', 'raise')]


def _node_containing(g: Any, e: ast.AST) -> list:
    return g.stmt_nodes(lambda x: x is e)


def _params(f: FuncInfo, n: int) -> list[str]:
    ps = [a.arg for a in f.params()]
    if len(ps) < n:
        raise AnalysisError(f'{f.loc()}: {f.short} is expected to take at least {n} parameters, found {ps}')
    return ps


def _path_var(repo: Repo, f: FuncInfo, field_param: str) -> str:
    """The local holding `parse_field(<field parameter>)`."""
    for n in walk_no_defs(f.node):
        if isinstance(n, ast.Assign) and len(n.targets) == 1 and isinstance(n.targets[0], ast.Name) and isinstance(n.value, ast.Call) \
                and is_call_to(repo, f, n.value, f'{DICTS}.parse_field') and n.value.args and _is_name(n.value.args[0], field_param):
            return n.targets[0].id
    raise AnalysisError(f'{f.loc()}: {f.short} no longer parses its field argument with dicts.parse_field')


def _handlers_for(g: Any, exc: str) -> list:
    """'except' nodes whose classes include the given exception."""
    out = []
    for n in g.nodes:
        if n.kind == 'except' and n.frames:
            cl = getattr(n.frames[-1], 'handler_classes', None) or []
            if any(c == exc or c.endswith('.' + exc) for c in cl):
                out.append(n)
    return out


def _ancestors(f: FuncInfo, n: ast.AST) -> Iterable[ast.AST]:
    p = f.module.parent.get(n)
    while p is not None and p is not f.node:
        yield p
        p = f.module.parent.get(p)


def _enclosing_conditions(f: FuncInfo, n: ast.AST, stop: Optional[ast.AST] = None) -> list[tuple[ast.AST, bool]]:
    """(test, outcome) of the `if`/conditional-expression arms lexically enclosing ``n`` (innermost first), up to ``stop``."""
    out = []
    child = n
    for p in _ancestors(f, n):
        if p is stop:
            break
        if isinstance(p, ast.If):
            if any(child is s for s in p.body):
                out.append((p.test, True))
            elif any(child is s for s in p.orelse):
                out.append((p.test, False))
        elif isinstance(p, ast.IfExp):
            if child is p.body:
                out.append((p.test, True))
            elif child is p.orelse:
                out.append((p.test, False))
        child = p
    return out


# ====================================================================================================== dicts.resolve
def check_resolve(ctx: Ctx, rule: str) -> None:
    repo = ctx.repo
    f, g = cfg_of(ctx, f'{DICTS}.resolve')
    D, FIELD, DEF = _params(f, 3)[:3]
    dflt = f.node.args.defaults[-1] if f.node.args.defaults else None  # type: ignore[attr-defined]
    sentinel = (repo.resolve(f.module, dflt) or '') if dflt is not None and not isinstance(dflt, ast.Constant) else ''
    ctx.ob(rule, 'resolve: "no default given" is a private sentinel, not None -- callers can ask for None (or their own sentinel) as the default and '
           'tell a stored null from an absent field', bool(sentinel), loc=f.loc(), construct=construct(f, 'config:default=sentinel'), detail=f'default is `{norm(dflt)}`')
    sentinel_cls = sentinel.rsplit('.', 1)[0] if sentinel else '#'

    steps = [n for n in walk_no_defs(f.node) if isinstance(n, ast.Assign) and len(n.targets) == 1 and isinstance(n.targets[0], ast.Name)
             and isinstance(n.value, ast.Subscript) and _is_name(n.value.value, n.targets[0].id)]
    ctx.require_sites(rule, 'resolve: step into the next level (`value = value[key]`)', len(steps), 1, f.loc())
    if not steps:
        return
    TRAV = steps[0].targets[0].id
    loops = [p for p in _ancestors(f, steps[0]) if isinstance(p, ast.For)]
    if not loops:
        ctx.ob(rule, 'resolve: the levels of the path are walked in a loop', False, loc=f.loc(steps[0]), construct=construct(f, 'sites:loop over path'))
        return
    loop = loops[0]

    def is_sentinel(e: ast.AST, o: bool) -> bool:
        """fact: (default is the sentinel) == False"""
        if isinstance(e, ast.Compare) and len(e.ops) == 1 and isinstance(e.ops[0], (ast.Is, ast.Eq)) and _is_name(e.left, DEF):
            return (repo.resolve(f.module, e.comparators[0]) or '') == sentinel and o is False
        if isinstance(e, ast.Call) and dotted(e.func) == 'isinstance' and len(e.args) == 2 and _is_name(e.args[0], DEF):
            return (repo.resolve(f.module, e.args[1]) or '') == sentinel_cls and o is False
        return False

    rets = [n for n in g.nodes if n.kind == 'return']
    def_rets = [n for n in rets if _is_name(n.stmt.value, DEF)]
    other = [n for n in rets if not _is_name(n.stmt.value, DEF) and not _is_name(n.stmt.value, TRAV)]
    ctx.ob(rule, 'resolve: the result is either the value found at the end of the path, unchanged, or the caller\'s default -- never a value derived from '
           'testing what was found (a field holding null/empty/False is a present field)', not other, loc=f.loc(other[0].stmt) if other else f.loc(),
           construct=construct(f, 'flow:returns value-or-default'), detail='; '.join(norm(n.stmt, 80) for n in other[:2]))
    ctx.require_sites(rule, 'resolve: return of the default', len(def_rets), 2, f.loc())
    for n in def_rets:
        ctx.ob(rule, 'resolve: the default is returned only when the caller gave one (otherwise the KeyError/TypeError surfaces: `key in view` and '
               '`view.get(key)` of the mapping views depend on it)', holds_at(g, n, is_sentinel), loc=f.loc(n.stmt),
               construct=construct(f, 'guard:return default only if given'))

    # after the whole path was walked nothing is decided any more
    inside = loop_nodes(g, loop)
    heads = [n for n in g.nodes if n.kind == 'loop' and n.stmt is loop]
    exhausted = [m for h in heads for m in h.succ if m not in inside]
    after = g.reach(exhausted) | set(exhausted)
    tests = [n for n in after if n.kind in ('if', 'match')]
    end_rets = [n for n in after if n.kind == 'return']
    ok = bool(end_rets) and all(_is_name(n.stmt.value, TRAV) for n in end_rets) and not tests and g.exit_normal not in \
        g.reach(exhausted, stop=lambda n: n.kind == 'return')
    ctx.ob(rule, 'resolve: once the last segment was found the value is returned as it is -- no test (None, truthiness) lies between the end of the walk '
           'and the return, so a present None is returned as None and not replaced by the default', ok,
           loc=f.loc(tests[0].stmt) if tests else f.loc(loop), construct=construct(f, 'allexits:found value returned as is'),
           detail='; '.join(n.label[:60] for n in tests[:2]))

    # the walked value is only stepped into, type-tested or returned
    bad_uses = []
    for n in walk_no_defs(f.node):
        if not (_is_name(n, TRAV) and isinstance(n.ctx, ast.Load)):
            continue
        p = f.module.parent.get(n)
        if isinstance(p, ast.Subscript) and p.value is n:
            continue
        if isinstance(p, ast.Return):
            continue
        if isinstance(p, ast.Call) and dotted(p.func) == 'isinstance' and p.args and p.args[0] is n:
            continue
        if isinstance(p, ast.Match) and p.subject is n:
            continue
        if isinstance(p, ast.FormattedValue):
            continue
        bad_uses.append(p)
    for m in [n for n in walk_no_defs(f.node) if isinstance(n, ast.Match) and _is_name(n.subject, TRAV)]:
        for cs in m.cases:
            if not _type_only(cs.pattern) or (cs.guard is not None and any(_is_name(x, TRAV) for x in ast.walk(cs.guard))):
                bad_uses.append(cs.pattern)
    ctx.ob(rule, 'resolve: the value being walked is only stepped into, tested for being a mapping, or returned (no None-/truthiness-/equality test '
           'of stored data decides between "present" and "absent")', not bad_uses, loc=f.loc(bad_uses[0]) if bad_uses else f.loc(),
           construct=construct(f, 'formula:type tests only'), detail='; '.join(norm(x, 60) for x in bad_uses[:3]))

    # stepping only into mappings; anything else is "absent" (default) or a TypeError
    def is_mapping(e: ast.AST, o: bool) -> bool:
        return isinstance(e, ast.Call) and dotted(e.func) == 'isinstance' and len(e.args) == 2 and _is_name(e.args[0], TRAV) \
            and (repo.resolve(f.module, e.args[1]) or '').endswith('Mapping') and o is True
    for s in steps:
        for sn in _nodes_of(g, s):
            cases = [c for c in g.nodes if c.kind == 'case' and isinstance(c.stmt, ast.MatchClass)
                     and (repo.resolve(f.module, c.stmt.cls) or '').endswith('Mapping') and not g.dominated([sn], [c])]
            ctx.ob(rule, 'resolve: a level is stepped into only if it is a mapping (an absent/None/scalar parent -- e.g. `old` of a creation -- reads as '
                   '"absent", it does not raise)', bool(cases) or holds_at(g, sn, is_mapping), loc=f.loc(s), construct=construct(f, 'guard:step only into mappings'))

    # KeyError handler: default or re-raise
    hs = _handlers_for(g, 'KeyError')
    ctx.require_sites(rule, 'resolve: handler of the KeyError of an absent key', len(hs), 1, f.loc())
    for h in hs:
        esc = g.escaping_exits([h], def_rets, classes=('normal',))
        ctx.ob(rule, 'resolve: an absent key ends in the given default or in the KeyError itself -- never in an implicit None', not esc, loc=f.loc(h.stmt),
               construct=construct(f, 'allexits:KeyError -> default or raise'))


def _type_only(pat: ast.AST) -> bool:
    if isinstance(pat, ast.MatchClass):
        return not pat.patterns and not pat.kwd_patterns
    if isinstance(pat, ast.MatchAs):
        return pat.pattern is None or _type_only(pat.pattern)
    if isinstance(pat, ast.MatchOr):
        return all(_type_only(p) for p in pat.patterns)
    return False


# ====================================================================================================== dicts.ensure
def check_ensure(ctx: Ctx, rule: str) -> None:
    repo = ctx.repo
    f, g = cfg_of(ctx, f'{DICTS}.ensure')
    D, FIELD, VALUE = _params(f, 3)[:3]
    PATH = _path_var(repo, f, FIELD)
    finals = [n for n in walk_no_defs(f.node) if isinstance(n, ast.Assign) and len(n.targets) == 1 and isinstance(n.targets[0], ast.Subscript)
              and _index(n.targets[0].slice, PATH, -1)]
    ctx.require_sites(rule, 'ensure: assignment of the last segment (`level[path[-1]] = value`)', len(finals), 1, f.loc())
    if len(finals) != 1:
        return
    fin = finals[0]
    base = fin.targets[0].value
    TRAV = base.id if isinstance(base, ast.Name) else None
    loops = [n for n in walk_no_defs(f.node) if isinstance(n, ast.For) and _slice(_unwrap(repo, f, n.iter), PATH, None, -1)]
    ctx.ob(rule, 'ensure: the parents walked are exactly all segments but the last (`path[:-1]`)', len(loops) == 1 and isinstance(loops[0].target, ast.Name),
           loc=f.loc(loops[0]) if loops else f.loc(), construct=construct(f, 'config:parents=path[:-1]'))
    if len(loops) != 1 or not isinstance(loops[0].target, ast.Name):
        return
    loop = loops[0]
    KEY = loop.target.id
    in_loop = any(p is loop for p in _ancestors(f, fin))
    inits = [n for n in walk_no_defs(f.node) if isinstance(n, ast.Assign) and any(_is_name(t, TRAV) for t in n.targets) and _is_name(n.value, D)
             and not any(p is loop for p in _ancestors(f, n))]
    ctx.ob(rule, 'ensure: the value is stored under the last segment on the level reached by the walk (which starts at the given dict), after the walk',
           _is_name(fin.value, VALUE) and TRAV is not None and TRAV != D and bool(inits) and not in_loop, loc=f.loc(fin),
           construct=construct(f, 'flow:leaf set on the reached level'), detail=norm(fin, 80))
    if TRAV is None:
        return
    # every pass through the loop body descends
    inside = loop_nodes(g, loop)
    rebinds = [n for n in inside if n.kind == 'stmt' and isinstance(n.stmt, ast.Assign) and any(_is_name(t, TRAV) for t in n.stmt.targets)]
    heads = [n for n in g.nodes if n.kind == 'loop' and n.stmt is loop]
    entries = [m for h in heads for m in h.succ if m in inside]
    skipped = [h for h in heads if h in g.reach(entries, stop=lambda n: n in rebinds)]
    ctx.ob(rule, 'ensure: every pass of the walk descends one level (the walking variable is re-bound on every path through the loop body, the '
           'KeyError path included)', bool(rebinds) and not skipped, loc=f.loc(loop), construct=construct(f, 'allexits:descend per segment'))
    bad = []
    for n in rebinds:
        v = n.stmt.value
        sub = isinstance(v, ast.Subscript) and _is_name(v.value, TRAV) and _is_name(v.slice, KEY)
        sd = isinstance(v, ast.Call) and isinstance(v.func, ast.Attribute) and v.func.attr == 'setdefault' and _is_name(v.func.value, TRAV) \
            and len(v.args) == 2 and _is_name(v.args[0], KEY) and _empty_dict(v.args[1])
        if not (sub or sd):
            bad.append(n)
    ctx.ob(rule, 'ensure: the next level is the existing `level[key]`, or `level.setdefault(key, {})` of the level just reached (not of the root, not a '
           'detached dict)', not bad, loc=f.loc(bad[0].stmt) if bad else f.loc(loop), construct=construct(f, 'flow:descend into level[key]'),
           detail='; '.join(norm(n.stmt, 70) for n in bad[:2]))
    # an existing parent is never overwritten
    over = []
    for n in inside:
        if n.kind == 'stmt' and isinstance(n.stmt, (ast.Assign, ast.AugAssign)):
            tgts = n.stmt.targets if isinstance(n.stmt, ast.Assign) else [n.stmt.target]
            for t in tgts:
                for tt in (t.elts if isinstance(t, ast.Tuple) else [t]):
                    if isinstance(tt, ast.Subscript):
                        def key_absent(e: ast.AST, o: bool) -> bool:
                            return isinstance(e, ast.Compare) and len(e.ops) == 1 and isinstance(e.ops[0], ast.In) and _is_name(e.left, KEY) \
                                and _is_name(e.comparators[0], TRAV) and o is False
                        in_h = any(fr.kind == 'try-rest' and any(c.endswith('KeyError') for c in (getattr(fr, 'handler_classes', None) or [])) for fr in n.frames)
                        if not (in_h or holds_at(g, n, key_absent)) or not _empty_dict(n.stmt.value if isinstance(n.stmt, ast.Assign) else None):
                            over.append(n)
    ctx.ob(rule, 'ensure: a parent level is written only when it is missing (in the KeyError handler / under `key not in level`), and then as an empty '
           'dict -- existing siblings (other handlers\' records, user data) are never wiped', not over, loc=f.loc(over[0].stmt) if over else f.loc(loop),
           construct=construct(f, 'guard:create parents only if missing'), detail='; '.join(norm(n.stmt, 70) for n in over[:2]))


def _eval_len(t: ast.AST, PATH: str, n: int) -> Optional[bool]:
    """Truth value of a condition over `len(PATH)` / the truthiness of PATH for a path of n segments; None if it is about something else."""
    if isinstance(t, ast.UnaryOp) and isinstance(t.op, ast.Not):
        v = _eval_len(t.operand, PATH, n)
        return None if v is None else not v
    if isinstance(t, ast.BoolOp):
        vs = [_eval_len(v, PATH, n) for v in t.values]
        if isinstance(t.op, ast.And):
            return False if any(v is False for v in vs) else None if any(v is None for v in vs) else True
        return True if any(v is True for v in vs) else None if any(v is None for v in vs) else False
    if _is_name(t, PATH):
        return n > 0
    if isinstance(t, ast.Compare) and len(t.ops) == 1:
        def val(e: ast.AST) -> Optional[int]:
            if isinstance(e, ast.Call) and dotted(e.func) == 'len' and len(e.args) == 1 and _is_name(e.args[0], PATH):
                return n
            return _int(e)
        a, b = val(t.left), val(t.comparators[0])
        if a is None or b is None:
            return None
        op = t.ops[0]
        return {ast.Eq: a == b, ast.NotEq: a != b, ast.Lt: a < b, ast.LtE: a <= b, ast.Gt: a > b, ast.GtE: a >= b}.get(type(op))
    return None


def _len_allows(conds: list, PATH: str, n: int) -> bool:
    for t, o, _ in conds:
        v = _eval_len(t, PATH, n)
        if v is not None and v != o:
            return False
    return True


# ====================================================================================================== dicts.remove
def check_remove(ctx: Ctx, rule: str) -> None:
    repo = ctx.repo
    f, g = cfg_of(ctx, f'{DICTS}.remove')
    D, FIELD = _params(f, 2)[:2]
    PATH = _path_var(repo, f, FIELD)

    def first_level(e: Optional[ast.AST]) -> bool:
        e = _unwrap(repo, f, e, follow=True)
        return isinstance(e, ast.Subscript) and _is_name(e.value, D) and _index(e.slice, PATH, 0)
    dels = [n for n in g.nodes if n.kind == 'stmt' and isinstance(n.stmt, ast.Delete)]
    wrong = [n for n in dels if not all(isinstance(t, ast.Subscript) and _is_name(t.value, D) and _index(t.slice, PATH, 0) for t in n.stmt.targets)]
    ctx.ob(rule, 'remove: on every level only the key of the first remaining segment is deleted from the dict at hand', bool(dels) and not wrong,
           loc=f.loc(wrong[0].stmt) if wrong else f.loc(), construct=construct(f, 'flow:del d[path[0]] only'), detail='; '.join(norm(n.stmt) for n in wrong[:2]))

    recs = [n for n in g.nodes if n.kind == 'stmt' and any(is_call_to(repo, f, c, f.qualname) for c in calls_in(n.stmt))]
    ctx.require_sites(rule, 'remove: recursion into the parent of a nested field', len(recs), 1, f.loc())
    after_rec = g.reach(recs)
    leaf = [n for n in dels if n not in after_rec]
    ctx.require_sites(rule, 'remove: deletion of the target key itself (single remaining segment)', len(leaf), 1, f.loc())
    for n in leaf:
        hs = [h for h in _handlers_for(g, 'KeyError') if h in g.reach([n])]
        quiet = 'lookup' in n.exc_edges and bool(hs) and all(not g.escaping_exits([h], [], classes=('exc',)) for h in hs)
        ctx.ob(rule, 'remove: deleting a key that is already absent is not an error (purging a purged record, clearing an essence without the field)',
               quiet, loc=f.loc(n.stmt), construct=construct(f, 'allexits:absent key tolerated'))
        conds = dominating_conditions(g, n)
        ctx.ob(rule, 'remove: the key itself is deleted exactly when ONE segment remains -- with more segments left the first one is a parent (`status` of '
               '`status.kopf.progress`) and must only be walked into', _len_allows(conds, PATH, 1) and not _len_allows(conds, PATH, 2) and not _len_allows(conds, PATH, 3),
               loc=f.loc(n.stmt), construct=construct(f, 'guard:leaf deletion iff one segment'), detail='; '.join(f'{norm(t, 50)}={o}' for t, o, _ in conds))
    for n in recs:
        c = [c for c in calls_in(n.stmt) if is_call_to(repo, f, c, f.qualname)][0]
        a0 = c.args[0] if c.args else kwarg(c, D)
        a1 = c.args[1] if len(c.args) > 1 else kwarg(c, FIELD)
        ok = first_level(a0) and _slice(_unwrap(repo, f, a1), PATH, 1, None)
        conds = dominating_conditions(g, n)
        ctx.ob(rule, 'remove: the recursion into the parent is taken for every path of two or more segments (and not for a single one)',
               _len_allows(conds, PATH, 2) and _len_allows(conds, PATH, 3) and not _len_allows(conds, PATH, 1), loc=f.loc(c),
               construct=construct(f, 'guard:recursion iff nested'), detail='; '.join(f'{norm(t, 50)}={o}' for t, o, _ in conds))
        ctx.ob(rule, 'remove: a nested field is removed from `d[path[0]]` with the remaining segments `path[1:]`', ok, loc=f.loc(c),
               construct=construct(f, 'flow:recurse(d[path[0]], path[1:])'), detail=norm(c))
        hs = [h for h in _handlers_for(g, 'KeyError') if h in g.reach([n])]
        quiet = 'lookup' in n.exc_edges and bool(hs) and all(not g.escaping_exits([h], [], classes=('exc',)) for h in hs)
        ctx.ob(rule, 'remove: an absent parent means the field is absent: not an error', quiet, loc=f.loc(c), construct=construct(f, 'allexits:absent parent tolerated'))
        # clean-up of the emptied parent after the recursion completed normally
        normal = [m for m in n.succ if m not in n.exc_edges.values()]
        after = g.reach(normal) | set(normal)
        cleanup = [d for d in dels if d in after and d not in leaf]
        ctx.require_sites(rule, 'remove: removal of the parent that the deletion left empty', len(cleanup), 1, f.loc(c))

        def emptied(e: ast.AST, o: bool) -> bool:
            if isinstance(e, ast.Compare) and len(e.ops) == 1 and isinstance(e.ops[0], ast.Eq) and o is True:
                l, r = e.left, e.comparators[0]
                return (first_level(l) and _empty_dict(r)) or (first_level(r) and _empty_dict(l))
            return False
        for d in cleanup:
            conds = dominating_conditions(g, d)
            okc = any(cond_implies(t, o, emptied) for t, o, _ in conds)
            # no weaker alternative: every condition between the recursion and the deletion that looks at the parent is that equality
            extra = [t for t, o, b in conds if b in after and not cond_implies(t, o, emptied) and any(first_level(x) for x in ast.walk(t))]
            ctx.ob(rule, 'remove: a parent is dropped iff it became exactly `{}` (tested by `== {}`: a parent holding None/False/0/"" -- user data -- stays)',
                   okc and not extra, loc=f.loc(d.stmt), construct=construct(f, 'guard:drop parent iff == {}'),
                   detail='; '.join(norm(t, 60) for t, o, b in conds if b in after))


# ====================================================================================================== dicts.cherrypick
def check_cherrypick(ctx: Ctx, rule: str) -> None:
    repo = ctx.repo
    f = repo.fn(f'{DICTS}.cherrypick')
    ctx.analysed(f)
    SRC, DST, FIELDS, PICKER = _params(f, 4)[:4]
    loops = [n for n in walk_no_defs(f.node) if isinstance(n, ast.For) and _is_name(_unwrap(repo, f, n.iter), FIELDS) and isinstance(n.target, ast.Name)]
    ctx.require_sites(rule, 'cherrypick: loop over the requested fields', len(loops), 1, f.loc())
    for loop in loops[:1]:
        FIELD = loop.target.id
        sets = [c for c in calls_in(loop) if is_call_to(repo, f, c, f'{DICTS}.ensure')]
        ctx.require_sites(rule, 'cherrypick: dicts.ensure of the picked value', len(sets), 1, f.loc(loop))
        for c in sets:
            a = list(c.args) + [None] * 3
            val = _unwrap(repo, f, a[2], follow=True)
            picked = isinstance(val, ast.Call) and _is_name(val.func, PICKER) and len(val.args) == 1
            inner = _unwrap(repo, f, val.args[0], follow=True) if picked else val
            reads = isinstance(inner, ast.Call) and is_call_to(repo, f, inner, f'{DICTS}.resolve')
            ok_rw = _is_name(a[0], DST) and _is_name(a[1], FIELD) and reads and _is_name(inner.args[0] if inner.args else None, SRC) \
                and _is_name(inner.args[1] if len(inner.args) > 1 else None, FIELD)
            ctx.ob(rule, 'cherrypick: the value read at a field of the source is written to the same field of the destination', ok_rw, loc=f.loc(c),
                   construct=construct(f, 'flow:ensure(dst, field, resolve(src, field))'), detail=norm(c))
            ctx.ob(rule, 'cherrypick: the value passes through the picker (DiffBaseStorage.build passes copy.deepcopy: the essence must not alias the body '
                   'whose annotations are deleted in place afterwards)', picked, loc=f.loc(c), construct=construct(f, 'flow:through picker'), detail=norm(a[2]))
            nodefault = reads and len(inner.args) == 2 and not inner.keywords
            ctx.ob(rule, 'cherrypick: the source is read without a default -- an absent field raises KeyError and is skipped (no `labels: None` in the essence)',
                   nodefault, loc=f.loc(c), construct=construct(f, 'config:resolve without default'))
            tries = [p for p in _ancestors(f, inner if reads else c) if isinstance(p, ast.Try) and any(
                (repo.resolve(f.module, x) or dotted(x) or '').endswith('KeyError') for h in p.handlers if h.type is not None
                for x in (h.type.elts if isinstance(h.type, ast.Tuple) else [h.type]))]
            inner_try = [t for t in tries if any(p is loop for p in _ancestors(f, t))]
            leaves = [x for t in inner_try for h in t.handlers for s in h.body for x in walk_no_defs(s) if isinstance(x, (ast.Break, ast.Return, ast.Raise))]
            ctx.ob(rule, 'cherrypick: a field absent in the source skips THAT field only -- the KeyError is handled inside the loop and the loop goes on '
                   '(labels absent must not lose the annotations)', bool(inner_try) and not leaves, loc=f.loc(tries[0]) if tries else f.loc(c),
                   construct=construct(f, 'allexits:absent field skips one field'))
    dflt = [n for n in walk_no_defs(f.node) if isinstance(n, ast.Assign) and any(_is_name(t, PICKER) for t in n.targets)]
    ident = all(isinstance(x, ast.Lambda) and len(x.args.args) == 1 and _is_name(x.body, x.args.args[0].arg)
                for n in dflt for x in ast.walk(n.value) if isinstance(x, ast.Lambda))
    ctx.ob(rule, 'cherrypick: the default picker is the identity', ident, loc=f.loc(dflt[0]) if dflt else f.loc(), construct=construct(f, 'config:default picker'),
           nontrivial=False)


# ====================================================================================================== dicts.*MappingView
def _self_attr(e: Optional[ast.AST], attr: Optional[str] = None) -> Optional[str]:
    if isinstance(e, ast.Attribute) and _is_name(e.value, 'self') and (attr is None or e.attr == attr):
        return e.attr
    return None


def _attr_assigns(f: FuncInfo, attr: str) -> list[ast.AST]:
    out = []
    for n in walk_no_defs(f.node):
        if isinstance(n, ast.Assign) and any(_self_attr(t, attr) for t in n.targets):
            out.append(n.value)
        elif isinstance(n, ast.AnnAssign) and _self_attr(n.target, attr) and n.value is not None:
            out.append(n.value)
    return out


def _subpath(e: Optional[ast.AST], path_attr: str, item: str) -> bool:
    """`self.<path_attr> + (item,)`"""
    return isinstance(e, ast.BinOp) and isinstance(e.op, ast.Add) and _self_attr(e.left, path_attr) is not None and isinstance(e.right, ast.Tuple) \
        and len(e.right.elts) == 1 and _is_name(e.right.elts[0], item)


def check_views(ctx: Ctx, rule: str) -> None:
    repo = ctx.repo
    init = repo.fn(f'{DICTS}.MappingView.__init__')
    ctx.analysed(init)
    ps = _params(init, 2)
    SRCP = ps[1]
    PATHP = ps[2] if len(ps) > 2 else None
    # which attributes hold the source and the path: those the constructor binds from its two parameters
    src_attrs = [t.attr for n in walk_no_defs(init.node) if isinstance(n, ast.Assign) for t in n.targets
                 if _self_attr(t) and any(_is_name(x, SRCP) for x in ast.walk(n.value))]
    path_attrs = [t.attr for n in walk_no_defs(init.node) if isinstance(n, ast.Assign) for t in n.targets
                  if _self_attr(t) and any(_is_name(x, PATHP) for x in ast.walk(n.value))]
    if len(src_attrs) != 1 or len(path_attrs) != 1:
        raise AnalysisError(f'{init.loc()}: MappingView.__init__ is expected to keep its source and its path in one attribute each')
    SA, PA = src_attrs[0], path_attrs[0]
    v = _attr_assigns(init, SA)
    ctx.ob(rule, 'MappingView: the view keeps the source object itself (no copy, no conversion) -- views are live: writes through a patch view land in '
           'the patch, reads of a body view see the replaced body', len(v) == 1 and _is_name(v[0], SRCP), loc=init.loc(), construct=construct(init, 'flow:source by reference'),
           detail='; '.join(norm(x) for x in v))
    pv = _attr_assigns(init, PA)
    ctx.ob(rule, 'MappingView: the path is the parsed field given to the constructor', len(pv) == 1 and isinstance(pv[0], ast.Call)
           and is_call_to(repo, init, pv[0], f'{DICTS}.parse_field') and pv[0].args and _is_name(pv[0].args[0], PATHP), loc=init.loc(),
           construct=construct(init, 'flow:path=parse_field(path)'))

    def resolve_calls(f: FuncInfo) -> list[ast.Call]:
        return [c for c in calls_in(f.node) if is_call_to(repo, f, c, f'{DICTS}.resolve')]

    gi = repo.fn(f'{DICTS}.MappingView.__getitem__')
    ctx.analysed(gi)
    ITEM = _params(gi, 2)[1]
    rc = resolve_calls(gi)
    ok = len(rc) == 1 and len(rc[0].args) == 2 and not rc[0].keywords and _self_attr(rc[0].args[0], SA) is not None and _subpath(rc[0].args[1], PA, ITEM)
    rets = [n for n in walk_no_defs(gi.node) if isinstance(n, ast.Return)]
    ok = ok and len(rets) == 1 and _unwrap(repo, gi, rets[0].value, follow=True) is rc[0]
    ctx.ob(rule, 'MappingView[key] is resolve(source, path + (key,)) WITHOUT a default: an absent key raises KeyError, which `key in view`, '
           '`view.get(key, d)` and the "marker not yet stored" test rely on', ok, loc=gi.loc(), construct=construct(gi, 'config:resolve(src, path+(key,)) no default'),
           detail='; '.join(norm(c) for c in rc))
    for meth in ('__len__', '__iter__'):
        m = repo.fn(f'{DICTS}.MappingView.{meth}')
        ctx.analysed(m)
        rc = resolve_calls(m)
        d = (rc[0].args[2] if len(rc[0].args) > 2 else kwarg(rc[0], 'default')) if rc else None
        ok = len(rc) == 1 and _self_attr(rc[0].args[0] if rc[0].args else None, SA) is not None and _self_attr(rc[0].args[1] if len(rc[0].args) > 1 else None, PA) is not None \
            and _empty_dict(d)
        ctx.ob(rule, f'MappingView.{meth}: an absent (or non-mapping) stanza reads as an empty mapping (`resolve(source, path, {{}})`)', ok, loc=m.loc(),
               construct=construct(m, 'config:resolve(src, path, {})'), detail='; '.join(norm(c) for c in rc))

    si = repo.fn(f'{DICTS}.MutableMappingView.__setitem__')
    ctx.analysed(si)
    sp = _params(si, 3)
    ec = [c for c in calls_in(si.node) if is_call_to(repo, si, c, f'{DICTS}.ensure')]
    ok = len(ec) == 1 and len(ec[0].args) == 3 and _self_attr(ec[0].args[0], SA) is not None and _subpath(ec[0].args[1], PA, sp[1]) and _is_name(ec[0].args[2], sp[2])
    ctx.ob(rule, 'MutableMappingView[key] = value is ensure(source, path + (key,), value): the value lands in the source (the patch) under the view\'s '
           'stanza, beside -- not instead of -- what is already there', ok, loc=si.loc(), construct=construct(si, 'config:ensure(src, path+(key,), value)'),
           detail='; '.join(norm(c) for c in ec))
    di = repo.fn(f'{DICTS}.MutableMappingView.__delitem__')
    ctx.analysed(di)
    dp = _params(di, 2)
    dels = [n for n in walk_no_defs(di.node) if isinstance(n, ast.Delete)]
    ok = len(dels) == 1 and len(dels[0].targets) == 1 and isinstance(dels[0].targets[0], ast.Subscript) and _is_name(dels[0].targets[0].slice, dp[1])
    if ok:
        base = _unwrap(repo, di, dels[0].targets[0].value, follow=True)
        ok = isinstance(base, ast.Call) and is_call_to(repo, di, base, f'{DICTS}.resolve') and len(base.args) == 2 and not base.keywords \
            and _self_attr(base.args[0], SA) is not None and _self_attr(base.args[1], PA) is not None
    ctx.ob(rule, 'del MutableMappingView[key] deletes the key from the stanza of the source itself', ok, loc=di.loc(), construct=construct(di, 'flow:del resolve(src, path)[key]'))

    for meth, want in (('_replace_with', 'param'), ('_replace_from', 'param.src')):
        m = repo.fn(f'{DICTS}.ReplaceableMappingView.{meth}')
        ctx.analysed(m)
        P = _params(m, 2)[1]
        v = _attr_assigns(m, SA)
        if want == 'param':
            ok = len(v) == 1 and _is_name(v[0], P)
        else:
            ok = len(v) == 1 and isinstance(v[0], ast.Attribute) and v[0].attr == SA and _is_name(v[0].value, P)
        ctx.ob(rule, f'ReplaceableMappingView.{meth}: the source is re-pointed (by reference) so that all derived views follow', ok, loc=m.loc(),
               construct=construct(m, 'flow:re-point source'), detail='; '.join(norm(x) for x in v))


# ====================================================================================================== stanza wiring of Patch / Body
WIRING = {
    f'{PATCHES}.Patch': {'metadata': 'metadata', 'meta': 'metadata', 'spec': 'spec', 'status': 'status'},
    f'{PATCHES}.MetaPatch': {'labels': 'labels', 'annotations': 'annotations'},
    f'{BODIES}.Body': {'metadata': 'metadata', 'meta': 'metadata', 'spec': 'spec', 'status': 'status'},
    f'{BODIES}.Meta': {'labels': 'labels', 'annotations': 'annotations'},
}
VIEW_BASES = (f'{DICTS}.MappingView', f'{DICTS}.MutableMappingView', f'{DICTS}.ReplaceableMappingView')


def _view_ctor(repo: Repo, f: FuncInfo, call: ast.AST, depth: int = 0) -> tuple[Optional[ast.AST], Optional[str], str]:
    """(source expression, stanza, view class) of the construction of a mapping view, following repo subclasses to their super().__init__."""
    if not isinstance(call, ast.Call) or depth > 3:
        return None, None, ''
    names = [n for n in repo.callee_names(f, call) if n in repo.classes or n.rsplit('.', 1)[0] in repo.classes]
    cls = None
    for n in names:
        c = n if n in repo.classes else n.rsplit('.', 1)[0]
        if any(repo.is_subclass(c, b) for b in VIEW_BASES):
            cls = c
    if cls is None:
        return None, None, ''
    srcx = call.args[0] if call.args else None
    if cls in VIEW_BASES:
        st = call.args[1] if len(call.args) > 1 else None
        return srcx, (st.value if isinstance(st, ast.Constant) and isinstance(st.value, str) else None), cls
    init = repo.classes[cls].methods.get('__init__')
    if init is None:
        return srcx, None, cls
    P = _params(init, 2)[1]
    for c in calls_in(init.node):
        if isinstance(c.func, ast.Attribute) and c.func.attr == '__init__' and isinstance(c.func.value, ast.Call) and dotted(c.func.value.func) == 'super':
            st = c.args[1] if len(c.args) > 1 else None
            if c.args and _is_name(c.args[0], P) and isinstance(st, ast.Constant) and isinstance(st.value, str):
                return srcx, st.value, cls
    return srcx, None, cls


def check_wiring(ctx: Ctx, rule: str, only: Optional[str] = None) -> None:
    repo = ctx.repo
    n = 0
    for cq, props in WIRING.items():
        if only and not cq.startswith(only):
            continue
        ci = repo.cls(cq)
        init = ci.methods.get('__init__')
        if init is None:
            raise AnalysisError(f'{cq}: no constructor')
        ctx.analysed(init)
        mutable = cq.startswith(PATCHES)
        for prop, stanza in props.items():
            m = ci.methods.get(prop)
            if m is None:
                ctx.ob(rule, f'{ci.node.name}.{prop}: accessor of the `{stanza}` stanza exists', False, loc=init.loc(), construct=f'{cq}.{prop}:sites:accessor')
                continue
            ctx.analysed(m)
            n += 1
            rets = [r for r in walk_no_defs(m.node) if isinstance(r, ast.Return)]
            attr = _self_attr(rets[0].value) if len(rets) == 1 else None
            vals = _attr_assigns(init, attr) if attr else []
            s, st, vcls = _view_ctor(repo, init, vals[0]) if len(vals) == 1 else (None, None, '')
            ok = st == stanza and _is_name(s, 'self') and (not mutable or repo.is_subclass(vcls, f'{DICTS}.MutableMappingView'))
            ctx.ob(rule, f'{ci.node.name}.{prop} is a {"writable " if mutable else ""}live view of the `{stanza}` stanza of the object itself (what the storages '
                   f'write through `patch.{prop if prop != "meta" else "metadata"}` lands under `{stanza}`; what they read from the body comes from `{stanza}`)', ok,
                   loc=m.loc(), construct=f'{cq}.{prop}:config:view of {stanza}', detail=f'returns self.{attr} = {norm(vals[0]) if vals else "?"} -> stanza {st!r} of {norm(s)}')
    ctx.count('view_accessors', n)


def check_wiring_patch(ctx: Ctx, rule: str) -> None:
    check_wiring(ctx, rule, only=PATCHES)


# ====================================================================================================== diffs.diff_iter: the "equal" case
def check_diff_equal(ctx: Ctx, rule: str) -> None:
    repo = ctx.repo
    f, g = cfg_of(ctx, f'{DIFFS}.diff_iter')
    A, B = _params(f, 2)[:2]

    def yields_in(stmts: list) -> bool:
        return any(isinstance(x, (ast.Yield, ast.YieldFrom)) for s in stmts for x in walk_no_defs(s))

    def equality(e: Optional[ast.AST], names: tuple[set, set]) -> bool:
        if isinstance(e, ast.Compare) and len(e.ops) == 1 and isinstance(e.ops[0], ast.Eq):
            l, r = e.left, e.comparators[0]
            if isinstance(l, ast.Name) and isinstance(r, ast.Name):
                return (l.id in names[0] and r.id in names[1]) or (l.id in names[1] and r.id in names[0])
        return False
    matches = [n for n in walk_no_defs(f.node) if isinstance(n, ast.Match) and isinstance(n.subject, ast.Tuple) and len(n.subject.elts) == 2
               and _is_name(n.subject.elts[0], A) and _is_name(n.subject.elts[1], B)]
    all_yields = [n for n in g.nodes if n.stmt is not None and n.kind == 'stmt' and any(isinstance(x, (ast.Yield, ast.YieldFrom)) for x in walk_no_defs(n.stmt))]
    ctx.require_sites(rule, 'diff_iter: yields of diff items', len(all_yields), 4, f.loc())

    def eq_false(e: ast.AST, o: bool) -> bool:
        return equality(e, ({A}, {B})) and o is False
    # yields outside any match statement on (a, b): must be dominated by `a != b`
    covered: set = set()
    detail = ''
    for m in matches:
        first_yielding = next((i for i, cs in enumerate(m.cases) if yields_in(cs.body)), len(m.cases))
        eq_case = None
        for i, cs in enumerate(m.cases[:first_yielding]):
            pat = cs.pattern
            names: tuple[set, set] = ({A}, {B})
            irrefutable = False
            if isinstance(pat, ast.MatchSequence) and len(pat.patterns) == 2 and all(isinstance(p, ast.MatchAs) and p.pattern is None for p in pat.patterns):
                irrefutable = True
                names = ({A} | ({pat.patterns[0].name} if pat.patterns[0].name else set()), {B} | ({pat.patterns[1].name} if pat.patterns[1].name else set()))
            elif isinstance(pat, ast.MatchAs) and pat.pattern is None:
                irrefutable = True
            if irrefutable and equality(cs.guard, names) and not yields_in(cs.body):
                eq_case = cs
                break
        if eq_case is not None:
            for cs in m.cases:
                for s in cs.body:
                    for x in walk_no_defs(s):
                        covered.add(id(x))
        else:
            detail = f'the first yielding case is #{first_yielding + 1}; no earlier case `_, _ if {A} == {B}` without a yield'
    bad = []
    for n in all_yields:
        if id(n.stmt) in covered:
            continue
        if not holds_at(g, n, eq_false):
            bad.append(n)
    ctx.ob(rule, 'diff_iter: equal values (compared with `==`, both-absent included) yield nothing, and this is decided BEFORE the add/remove/recurse/change '
           'cases -- so the diff is empty iff nothing differs, and two absent values are not an "add"', not bad, loc=f.loc(bad[0].stmt) if bad else f.loc(),
           construct=construct(f, 'formula:equal values first, by =='), detail=detail or '; '.join(norm(n.stmt, 60) for n in bad[:2]))


# ====================================================================================================== diffs.reduce_iter / reduce
def check_reduce(ctx: Ctx, rule: str) -> None:
    repo = ctx.repo
    f = repo.fn(f'{DIFFS}.reduce_iter')
    ctx.analysed(f)
    DP, PATH = _params(f, 2)[:2]
    item = repo.cls(f'{DIFFS}.DiffItem')
    order = list(item.fields)[:4]
    ctx.ob(rule, 'DiffItem is the 4-tuple (operation, field, old, new) in this order (it is built and unpacked positionally everywhere)',
           order == ['operation', 'field', 'old', 'new'], loc=f'{item.module.relpath()}:{item.node.lineno}', construct=f'{item.qualname}:keys:field order', detail=str(order))
    loops = [n for n in walk_no_defs(f.node) if isinstance(n, ast.For) and _is_name(_unwrap(repo, f, n.iter), DP) and isinstance(n.target, ast.Tuple)
             and len(n.target.elts) == 4 and all(isinstance(e, ast.Name) for e in n.target.elts)]
    ctx.require_sites(rule, 'reduce_iter: loop unpacking (op, field, old, new) of every diff item', len(loops), 1, f.loc())
    if not loops:
        return
    loop = loops[0]
    OP, FIELD, OLD, NEW = [e.id for e in loop.target.elts]
    roles = {OP: 'OP', FIELD: 'FIELD', OLD: 'OLD', NEW: 'NEW', PATH: 'PATH'}

    def T(e: Optional[ast.AST], depth: int = 0) -> Any:
        """Structural term of an expression over the roles OP/FIELD/OLD/NEW/PATH (tuple()/list() wrappers and single-assignment locals looked through)."""
        e = _unwrap(repo, f, e)
        if e is None or depth > 6:
            return ('?',)
        if isinstance(e, ast.Name):
            if e.id in roles:
                return roles[e.id]
            o = origin(f, e, depth=1)
            return T(o, depth + 1) if o is not e else ('?', e.id)
        if isinstance(e, ast.Constant) and e.value is None:
            return ('none',)
        if isinstance(e, ast.Tuple) and not e.elts:
            return ('empty',)
        if isinstance(e, ast.Constant) and isinstance(e.value, int):
            return ('int', e.value)
        if isinstance(e, ast.Call) and dotted(e.func) == 'len' and len(e.args) == 1:
            return ('len', T(e.args[0], depth + 1))
        if isinstance(e, ast.Subscript) and isinstance(e.slice, ast.Slice) and e.slice.step is None:
            lo, up = e.slice.lower, e.slice.upper
            if lo is None and up is not None and isinstance(T(up, depth + 1), tuple) and T(up, depth + 1)[0] == 'len':
                return ('prefix', T(e.value, depth + 1), T(up, depth + 1)[1])
            if up is None and lo is not None and isinstance(T(lo, depth + 1), tuple) and T(lo, depth + 1)[0] == 'len':
                return ('suffix', T(e.value, depth + 1), T(lo, depth + 1)[1])
        if isinstance(e, ast.Call) and is_call_to(repo, f, e, f'{DICTS}.resolve'):
            d = e.args[2] if len(e.args) > 2 else kwarg(e, 'default')
            return ('resolve', T(e.args[0], depth + 1) if e.args else ('?',), T(e.args[1], depth + 1) if len(e.args) > 1 else ('?',), T(d, depth + 1) if d is not None else ('unset',))
        return ('?', type(e).__name__)

    def eq_sides(e: ast.AST) -> Optional[set]:
        if isinstance(e, ast.Compare) and len(e.ops) == 1 and isinstance(e.ops[0], ast.Eq):
            return {T(e.left), T(e.comparators[0])}
        return None

    def classify(test: ast.AST, outcome: bool) -> Optional[str]:
        def root(e: ast.AST, o: bool) -> bool:
            if T(e) == 'PATH':
                return o is False
            return eq_sides(e) in ({('len', 'PATH'), ('int', 0)}, {'PATH', ('empty',)}) and o is True

        def longer(e: ast.AST, o: bool) -> bool:
            return eq_sides(e) == {('prefix', 'FIELD', 'PATH'), 'PATH'} and o is True

        def shorter(e: ast.AST, o: bool) -> bool:
            return eq_sides(e) == {'FIELD', ('prefix', 'PATH', 'FIELD')} and o is True
        for kind, pred in (('ROOT', root), ('LONGER', longer), ('SHORTER', shorter)):
            if cond_implies(test, outcome, pred) and not isinstance(test, ast.BoolOp):
                return kind
        return None
    found: dict[str, list] = {}
    unknown = []
    for y in [x for s in loop.body for x in walk_no_defs(s) if isinstance(x, (ast.Yield, ast.YieldFrom))]:
        conds = _enclosing_conditions(f, y, stop=loop)
        kinds = [classify(t, o) for t, o in conds if o]
        kinds = [k for k in kinds if k]
        if len(kinds) != 1:
            unknown.append(y)
        else:
            found.setdefault(kinds[0], []).append(y)
    ctx.ob(rule, 'reduce_iter: every item yielded belongs to one of the three cases (no path given / item below the path / item above the path); items '
           'unrelated to the path are dropped', not unknown, loc=f.loc(unknown[0]) if unknown else f.loc(), construct=construct(f, 'formula:three cases only'),
           detail='; '.join(norm(y, 60) for y in unknown[:2]))

    def item_args(y: ast.AST) -> Optional[list]:
        v = y.value
        if isinstance(y, ast.Yield) and isinstance(v, ast.Call) and is_call_to(repo, f, v, f'{DIFFS}.DiffItem') and len(v.args) == 4 and not v.keywords:
            return [T(a) for a in v.args]
        return None
    ys = found.get('ROOT', [])
    ctx.ob(rule, 'reduce_iter: without a path (whole-object handlers) every item is passed on as it is', len(ys) == 1 and item_args(ys[0]) == ['OP', 'FIELD', 'OLD', 'NEW'],
           loc=f.loc(ys[0]) if ys else f.loc(), construct=construct(f, 'formula:root as-is'), detail='; '.join(norm(y, 80) for y in ys) or 'no such case')
    ys = found.get('LONGER', [])
    ctx.ob(rule, 'reduce_iter: an item at or below the handler\'s field (item field starts with the path) keeps op/old/new and gets the path prefix '
           'stripped (`field[len(path):]`)', len(ys) == 1 and item_args(ys[0]) == ['OP', ('suffix', 'FIELD', 'PATH'), 'OLD', 'NEW'], loc=f.loc(ys[0]) if ys else f.loc(),
           construct=construct(f, 'formula:strip prefix'), detail='; '.join(norm(y, 80) for y in ys) or 'no such case (test `field[:len(path)] == path`)')
    ys = found.get('SHORTER', [])
    ok = len(ys) == 1 and isinstance(ys[0], ast.YieldFrom) and isinstance(ys[0].value, ast.Call) and is_call_to(repo, f, ys[0].value, f'{DIFFS}.diff_iter')
    why = 'no such case (test `field == path[:len(field)]`)' if not ys else ''
    if ok:
        c = ys[0].value
        tail = ('suffix', 'PATH', 'FIELD')
        args = [T(a) for a in c.args]
        ok = args == [('resolve', 'OLD', tail, ('none',)), ('resolve', 'NEW', tail, ('none',))] and not c.keywords
        why = '' if ok else f'diff_iter called with {args}{" and keywords" if c.keywords else ""}'
    ctx.ob(rule, 'reduce_iter: an item above the handler\'s field (whole parent added/removed/changed) is re-diffed between the tails of ITS old and new '
           'values (`resolve(old, path[len(field):], None)` -> `resolve(new, ...)`, in this order, full scope, relative paths)', ok,
           loc=f.loc(ys[0]) if ys else f.loc(), construct=construct(f, 'formula:re-diff tails old->new'), detail=why)
    r = repo.fn(f'{DIFFS}.reduce')
    ctx.analysed(r)
    RD, RP = _params(r, 2)[:2]
    inner = [c for c in calls_in(r.node) if is_call_to(repo, r, c, f'{DIFFS}.reduce_iter')]
    rets = [x for x in walk_no_defs(r.node) if isinstance(x, ast.Return)]
    ok = len(inner) == 1 and [dotted(a) for a in inner[0].args] == [RD, RP] and not inner[0].keywords and len(rets) == 1 and isinstance(rets[0].value, ast.Call) \
        and is_call_to(repo, r, rets[0].value, f'{DIFFS}.Diff') and len(rets[0].value.args) == 1 and _unwrap(repo, r, rets[0].value.args[0], follow=True) is inner[0]
    ctx.ob(rule, 'reduce(): all items of reduce_iter(d, path), in order, as a Diff', ok, loc=r.loc(), construct=construct(r, 'flow:Diff(reduce_iter(d, path))'))


# ====================================================================================================== patches.Patch.__init__
def _fns_attr(repo: Repo) -> str:
    p = repo.fn(f'{PATCHES}.Patch.fns')
    rets = [r for r in walk_no_defs(p.node) if isinstance(r, ast.Return)]
    a = _self_attr(rets[0].value) if len(rets) == 1 else None
    if a is None:
        raise AnalysisError(f'{p.loc()}: Patch.fns is expected to return one attribute of the patch')
    return a


def _contributions(f: FuncInfo, e: ast.AST, conds: tuple = ()) -> list[tuple[ast.AST, tuple, bool]]:
    """(source expression, conditions, well-formed) of the elements that make up a list-valued expression."""
    if isinstance(e, ast.BinOp) and isinstance(e.op, ast.Add):
        return _contributions(f, e.left, conds) + _contributions(f, e.right, conds)
    if isinstance(e, ast.IfExp):
        return _contributions(f, e.body, conds + ((e.test, True),)) + _contributions(f, e.orelse, conds + ((e.test, False),))
    if isinstance(e, ast.Call) and dotted(e.func) in ('list', 'tuple') and len(e.args) == 1 and not e.keywords:
        return _contributions(f, e.args[0], conds)
    if isinstance(e, ast.Call) and dotted(e.func) in ('list', 'tuple') and not e.args:
        return []
    if isinstance(e, (ast.List, ast.Tuple)):
        out: list = []
        for x in e.elts:
            out += _contributions(f, x.value, conds) if isinstance(x, ast.Starred) else [(x, conds, False)]
        return out
    if isinstance(e, ast.Name):
        o = origin(f, e, depth=1)
        if o is not e:
            return _contributions(f, o, conds)
        return [(e, conds, True)]
    if isinstance(e, ast.Attribute):
        return [(e, conds, True)]
    return [(e, conds, False)]


def check_patch_ctor(ctx: Ctx, rule: str) -> None:
    repo = ctx.repo
    f = repo.fn(f'{PATCHES}.Patch.__init__')
    ctx.analysed(f)
    ps = _params(f, 2)
    SRC = ps[1]
    if 'fns' not in ps or 'body' not in ps:
        raise AnalysisError(f'{f.loc()}: Patch(src, /, body=, fns=) expected, found {ps}')
    FA = _fns_attr(repo)
    vals = _attr_assigns(f, FA)
    ctx.require_sites(rule, 'Patch.__init__: initialisation of the list of transformation functions', len(vals), 1, f.loc())
    contribs = [c for v in vals for c in _contributions(f, v)]
    later = [c for c in calls_in(f.node) if isinstance(c.func, ast.Attribute) and c.func.attr in ('extend', 'append', 'clear', 'remove', 'pop', 'insert')
             and _self_attr(c.func.value, FA)]
    own = [(e, cs) for e, cs, ok in contribs if _is_name(e, 'fns')]
    inherited = [(e, cs) for e, cs, ok in contribs if isinstance(e, ast.Attribute) and e.attr in ('fns', FA) and _is_name(e.value, SRC)]
    rest = [e for e, cs, ok in contribs if not _is_name(e, 'fns') and not (isinstance(e, ast.Attribute) and e.attr in ('fns', FA) and _is_name(e.value, SRC))]

    def is_patch(e: ast.AST, o: bool) -> bool:
        return isinstance(e, ast.Call) and dotted(e.func) == 'isinstance' and len(e.args) == 2 and _is_name(e.args[0], SRC) \
            and (repo.resolve(f.module, e.args[1]) or '') == f'{PATCHES}.Patch' and o is True
    ctx.ob(rule, 'Patch(src, fns=...): the functions given as `fns=` are always part of the new patch (patch_obj builds the remaining patch as '
           'Patch(fns=patch.fns))', len(own) == 1 and not own[0][1] and len(vals) == 1 and not later, loc=f.loc(), construct=construct(f, 'flow:fns= included'),
           detail='; '.join(norm(v, 90) for v in vals))
    ok_inh = len(inherited) == 1 and len(inherited[0][1]) == 1 and cond_implies(inherited[0][1][0][0], inherited[0][1][0][1], is_patch)
    ctx.ob(rule, 'Patch(src): the transformation functions of a source Patch are inherited (process_resource_event and the daemons re-create the cycle '
           'patch from the remaining one: a transformation refused with a 422 is carried forward, not lost), exactly when the source is a Patch', ok_inh,
           loc=f.loc(), construct=construct(f, 'flow:src.fns inherited'), detail='; '.join(norm(v, 90) for v in vals))
    ctx.ob(rule, 'Patch(src, fns=...): inherited and given functions are concatenated -- nothing else enters the list and neither source shadows the other',
           not rest and len(vals) == 1, loc=f.loc(), construct=construct(f, 'flow:inherited + given only'), detail='; '.join(norm(e, 60) for e in rest[:3]))
    sup = [c for c in calls_in(f.node) if isinstance(c.func, ast.Attribute) and c.func.attr == '__init__' and isinstance(c.func.value, ast.Call)
           and dotted(c.func.value.func) == 'super']
    ok = len(sup) == 1 and len(sup[0].args) == 1 and any(_is_name(x, SRC) for x in ast.walk(sup[0].args[0]))
    ctx.ob(rule, 'Patch(src): the dict content of the source is taken over', ok, loc=f.loc(sup[0]) if sup else f.loc(), construct=construct(f, 'flow:dict content'))
    ov = _attr_assigns(f, '_original')
    ctx.ob(rule, 'Patch(body=...): the body the patch was created for is kept as the reference for the JSON ops (patch_obj falls back to it)',
           len(ov) == 1 and _is_name(ov[0], 'body'), loc=f.loc(), construct=construct(f, 'flow:_original=body'), detail='; '.join(norm(x) for x in ov))


# ====================================================================================================== patches.Patch.__bool__
def check_patch_bool(ctx: Ctx, rule: str) -> None:
    repo = ctx.repo
    f = repo.fn(f'{PATCHES}.Patch.__bool__')
    ctx.analysed(f)
    FA = _fns_attr(repo)
    paths = absint.analyse(repo, f, absint.Config())
    ctx.count('paths', len(paths))
    fx = rf'self\.(fns|{re.escape(FA)})'
    bad: list[str] = []
    rows = set()
    for p in paths:
        L: Optional[bool] = None    # dict content non-empty
        F: Optional[bool] = None    # transformation functions non-empty
        feasible = True
        for k, v in p.atoms.items():
            m = re.fullmatch(r'cmp\((.+), (.+)\)', k)
            if m and {m.group(1), m.group(2)} == {'0', 'len(self)'}:
                lt = v == ('<' if m.group(1) == '0' else '>')     # 0 < len(self)
                gt = v == ('>' if m.group(1) == '0' else '<')     # impossible
                feasible = feasible and not gt
                L = lt
            elif m and {m.group(1), m.group(2)} == {'0', f'len(self.fns)'} or m and {m.group(1), m.group(2)} == {'0', f'len(self.{FA})'}:
                lt = v == ('<' if m.group(1) == '0' else '>')
                gt = v == ('>' if m.group(1) == '0' else '<')
                feasible = feasible and not gt
                F = lt
            elif re.fullmatch(r'(truthy|nonempty)\((len\(self\)|list\(self\)|self\.keys\(\)|dict\(self\))\)', k):
                L = bool(v)
            elif re.fullmatch(r'eq\((len\(self\), 0|0, len\(self\))\)', k):
                L = not v
            elif re.fullmatch(rf'(truthy|nonempty)\((len\()?{fx}\)?\)', k):
                F = bool(v)
            elif re.fullmatch(rf'eq\((len\({fx}\), 0|0, len\({fx}\))\)', k):
                F = not v
            else:
                bad.append(f'decides on `{k[:60]}`, which is neither the dict content nor the transformation functions')
        if not feasible:
            continue
        if p.status != 'return' or p.retval is None or p.retval.key not in ('True', 'False'):
            bad.append(f'a path does not return a constant truth value: {p.status} {p.retval.key[:60] if p.retval else None}')
            continue
        got = p.retval.key == 'True'
        for l, fn in itertools.product(*[(x,) if x is not None else (False, True) for x in (L, F)]):
            rows.add((l, fn))
            if got != (l or fn):
                bad.append(f'content {"non-empty" if l else "empty"}, fns {"non-empty" if fn else "empty"}: bool(patch) is {got}')
    ctx.ob(rule, f'Patch.__bool__ ({len(paths)} paths): a patch is falsy iff it has NO dict content AND NO transformation functions -- a patch that only '
           'carries a finalizer edit must still be applied (and skips the handlers of the next cycle when carried forward), an empty one must cause no request',
           not bad and len(rows) == 4, loc=f.loc(), construct=construct(f, 'table:bool = content or fns'), detail=' | '.join(dict.fromkeys(bad)))


# ====================================================================================================== patches.Patch.as_json_patch
def check_as_json_patch(ctx: Ctx, rule: str) -> None:
    repo = ctx.repo
    f, g = cfg_of(ctx, f'{PATCHES}.Patch.as_json_patch')
    FA = _fns_attr(repo)
    diffs_ = [c for c in calls_in(f.node) if (repo.resolve(f.module, c.func) or '').endswith('JsonPatch.from_diff')]
    ctx.require_sites(rule, 'as_json_patch: jsonpatch.JsonPatch.from_diff', len(diffs_), 1, f.loc())
    applies = [c for c in calls_in(f.node) if is_call_to(repo, f, c, f'{PATCHES}.Patch._apply_patch')]
    ctx.require_sites(rule, 'as_json_patch: application of the merge-patch content', len(applies), 1, f.loc())
    if len(diffs_) != 1 or not applies:
        return
    fd = diffs_[0]

    def var(e: Optional[ast.AST]) -> Optional[str]:
        e = _unwrap(repo, f, e)
        return e.id if isinstance(e, ast.Name) else None
    to_be = var(applies[0].args[0] if applies[0].args else kwarg(applies[0], 'body'))
    a_src = var(fd.args[0] if fd.args else kwarg(fd, 'src'))
    a_dst = var(fd.args[1] if len(fd.args) > 1 else kwarg(fd, 'dst'))
    ctx.ob(rule, 'as_json_patch: the ops are the difference FROM the reference body TO the copy the changes were applied to (from_diff(src=as-is, dst=to-be))',
           to_be is not None and a_dst == to_be and a_src is not None and a_src != to_be, loc=f.loc(fd), construct=construct(f, 'flow:from_diff(as-is, to-be)'),
           detail=norm(fd))
    # the reference is never mutated: it is not what _apply_patch / the fns receive
    loops = [n for n in walk_no_defs(f.node) if isinstance(n, ast.For) and isinstance(n.target, ast.Name)
             and (_self_attr(_unwrap(repo, f, n.iter), 'fns') or _self_attr(_unwrap(repo, f, n.iter), FA))]
    ctx.require_sites(rule, 'as_json_patch: loop over all transformation functions of the patch', len(loops), 1, f.loc())
    fn_calls = [(lp, c) for lp in loops for c in calls_in(lp) if _is_name(c.func, lp.target.id)]
    ok = bool(fn_calls) and all(len(c.args) == 1 and var(c.args[0]) == to_be for _, c in fn_calls) and all(var(c.args[0] if c.args else None) == to_be for c in applies)
    cond = [lp for lp, c in fn_calls if _enclosing_conditions(f, c, stop=lp)]
    ctx.ob(rule, 'as_json_patch: EVERY transformation function (unconditionally, the whole list) is applied to the same copy the merge-patch content was '
           'applied to (finalizer edits and handler-requested field changes end up in one set of ops)', ok and not cond, loc=f.loc(loops[0]) if loops else f.loc(),
           construct=construct(f, 'flow:fns applied to the to-be copy'), detail='; '.join(norm(c) for _, c in fn_calls))
    fdn = _node_containing(g, fd)
    heads = [n for n in g.nodes if n.kind == 'loop' and any(n.stmt is lp for lp in loops)]
    apn = [n for c in applies for n in _node_containing(g, c)]
    ctx.ob(rule, 'as_json_patch: the diff is taken after the merge-patch content and after the transformations were applied (both dominate it)',
           bool(fdn) and bool(heads) and bool(apn) and not g.dominated(fdn, heads) and not g.dominated(fdn, apn) and not (set(fdn) & g.reach_back(heads + apn)),
           loc=f.loc(fd), construct=construct(f, 'order:apply < fns < diff'))
    rets = [n for n in g.nodes if n.kind == 'return']
    ops_rets = []
    empty_rets = []
    other = []
    for n in rets:
        v = _unwrap(repo, f, n.stmt.value, follow=True)
        if isinstance(v, ast.Attribute) and v.attr == 'patch' and _unwrap(repo, f, v.value, follow=True) is fd:
            ops_rets.append(n)
        elif isinstance(v, ast.List) and not v.elts:
            empty_rets.append(n)
        else:
            other.append(n)
    ctx.ob(rule, 'as_json_patch: the result is the op list of that diff (or nothing for an empty patch)', bool(ops_rets) and not other,
           loc=f.loc(other[0].stmt) if other else f.loc(), construct=construct(f, 'flow:return from_diff(...).patch'), detail='; '.join(norm(n.stmt) for n in other[:2]))

    # which body is the reference: the one given explicitly (patch_obj passes the freshest one, whose resourceVersion the test op pins) wins
    BODY = 'body' if 'body' in [a.arg for a in f.params()] else None
    if BODY is None:
        raise AnalysisError(f'{f.loc()}: as_json_patch(body) expected')

    def eff(it: Any, p: Any, call: ast.Call, names: set) -> Optional[str]:
        return 'diff' if call is fd else None
    paths = absint.analyse(repo, f, absint.Config(effect=eff))
    ctx.count('paths', len(paths))
    wrong = []
    seen = set()
    for p in paths:
        given = p.atom(rf'^isnone\({BODY}\)$')
        for e in p.effects('diff'):
            ref = e.kw.get('#0') or e.kw.get('src')
            k = ref.key if ref is not None else ''
            uses_given, uses_orig = bool(re.search(rf'\b{BODY}\b', k)), '_original' in k
            seen.add(given)
            if given is False and (uses_orig or not uses_given):
                wrong.append(f'a body was given, but the reference is `{k[:70]}`')
            elif given is True and not uses_orig:
                wrong.append(f'no body was given, but the reference is `{k[:70]}`')
            elif given is None:
                wrong.append(f'the reference `{k[:70]}` is chosen without testing whether a body was given (`is None`)')
    ctx.ob(rule, 'as_json_patch(body): the reference the ops are computed against is the body given by the caller whenever one is given (decided by '
           '`is None`), else the body the patch was created for -- patch_obj passes the freshest body, the one whose resourceVersion its test op pins',
           not wrong and seen == {True, False}, loc=f.loc(), construct=construct(f, 'table:reference = given body, else original'), detail=' | '.join(dict.fromkeys(wrong)))

    def is_empty(e: ast.AST, o: bool) -> bool:
        return _is_name(e, 'self') and o is False
    raises = [n for n in g.nodes if n.kind == 'raise']
    late = [n for n in raises if not holds_at(g, n, lambda e, o: _is_name(e, 'self') and o is True)]
    ctx.ob(rule, 'as_json_patch: an empty patch (no content, no fns) yields no ops BEFORE a reference body is demanded -- patch_obj asks for the ops of the '
           'remaining patch even when there are none and no body came back (404)', bool(empty_rets) and all(holds_at(g, n, is_empty) for n in empty_rets) and not late,
           loc=f.loc(late[0].stmt) if late else f.loc(), construct=construct(f, 'order:empty patch -> [] before the reference is required'))


# ====================================================================================================== conventions.remove_empty_stanzas
def _keypath(f: FuncInfo, e: Optional[ast.AST], root: str, depth: int = 0) -> Optional[tuple]:
    """Constant key path below the dict `root` named by a subscript / `.get(key, {})` chain (locals followed); None if not such a chain."""
    if e is None or depth > 8:
        return None
    if isinstance(e, ast.Name):
        if e.id == root:
            return ()
        o = origin(f, e, depth=1)
        return _keypath(f, o, root, depth + 1) if o is not e else None
    if isinstance(e, ast.Subscript) and isinstance(e.slice, ast.Constant) and isinstance(e.slice.value, str):
        b = _keypath(f, e.value, root, depth + 1)
        return None if b is None else b + (e.slice.value,)
    if isinstance(e, ast.Call) and isinstance(e.func, ast.Attribute) and e.func.attr == 'get' and e.args and isinstance(e.args[0], ast.Constant) \
            and isinstance(e.args[0].value, str) and (len(e.args) == 1 or _empty_dict(e.args[1])):
        b = _keypath(f, e.func.value, root, depth + 1)
        return None if b is None else b + (e.args[0].value,)
    return None


def check_empty_stanzas(ctx: Ctx, rule: str) -> None:
    repo = ctx.repo
    f, g = cfg_of(ctx, f'{CONV}.StorageStanzaCleaner.remove_empty_stanzas')
    ESS = _params(f, 1)[0]
    dels: dict[tuple, list] = {}
    odd = []
    for n in g.nodes:
        if n.kind == 'stmt' and isinstance(n.stmt, ast.Delete):
            for t in n.stmt.targets:
                kp = _keypath(f, t, ESS)
                if kp:
                    dels.setdefault(kp, []).append(n)
                else:
                    odd.append(n)
    ctx.ob(rule, 'remove_empty_stanzas deletes nothing but stanzas of the essence named by constant keys', not odd, loc=f.loc(odd[0].stmt) if odd else f.loc(),
           construct=construct(f, 'flow:deletes stanzas only'), nontrivial=False)
    for kp in (('metadata', 'annotations'), ('metadata', 'labels'), ('metadata',)):
        ctx.ob(rule, f'remove_empty_stanzas drops an emptied `{".".join(kp)}` (an object whose only annotations are the operator\'s own must have the same '
               'essence as one without annotations: else storing the last-handled state is itself an "update")', kp in dels, loc=f.loc(),
               construct=construct(f, f'sites:del {".".join(kp)}'))
    for kp, nodes in dels.items():
        for n in nodes:
            conds = dominating_conditions(g, n)

            def present(e: ast.AST, o: bool, _kp: tuple = kp) -> bool:
                return isinstance(e, ast.Compare) and len(e.ops) == 1 and isinstance(e.ops[0], ast.In) and isinstance(e.left, ast.Constant) \
                    and e.left.value == _kp[-1] and _keypath(f, e.comparators[0], ESS) == _kp[:-1] and o is True

            def empty(e: ast.AST, o: bool, _kp: tuple = kp) -> bool:
                if _keypath(f, e, ESS) == _kp and o is False:
                    return True
                if isinstance(e, ast.Compare) and len(e.ops) == 1 and isinstance(e.ops[0], ast.Eq) and o is True:
                    return (_keypath(f, e.left, ESS) == _kp and _empty_dict(e.comparators[0])) or (_keypath(f, e.comparators[0], ESS) == _kp and _empty_dict(e.left))
                return False
            okp = any(cond_implies(t, o, present) for t, o, _ in conds)
            oke = any(cond_implies(t, o, empty) for t, o, _ in conds)
            ctx.ob(rule, f'remove_empty_stanzas: `{".".join(kp)}` is deleted only if THAT stanza is present and THAT stanza is empty (same key in the test '
                   'and in the deletion)', okp and oke, loc=f.loc(n.stmt), construct=construct(f, f'guard:del {".".join(kp)} iff present and empty'),
                   detail='; '.join(f'{norm(t, 70)}={o}' for t, o, _ in conds))
    # children before the parent
    for parent, nodes in dels.items():
        kids = [n for kp, ns in dels.items() if len(kp) > len(parent) and kp[:len(parent)] == parent for n in ns]
        if not kids:
            continue
        tests = [b for n in nodes for _, _, b in dominating_conditions(g, n)]
        ifs = [x for x in g.nodes if x.kind == 'if' and any(b in x.succ for b in tests)]
        late = [k for k in kids if k in g.reach(ifs)]
        ctx.ob(rule, f'remove_empty_stanzas: the sub-stanzas of `{".".join(parent)}` are dropped BEFORE its own emptiness is judged (else '
               f'`{parent[0]}: {{annotations: {{}}}}` leaves an empty `{parent[0]}: {{}}` behind)', not late and bool(ifs), loc=f.loc(late[0].stmt) if late else f.loc(),
               construct=construct(f, f'order:children of {".".join(parent)} first'))


def check_remove_annotations(ctx: Ctx, rule: str) -> None:
    """Beyond R4.1 (the comprehension's filter): what is rewritten, from what, and under which guard."""
    repo = ctx.repo
    f, g = cfg_of(ctx, f'{CONV}.StorageStanzaCleaner.remove_annotations')
    ESS, KEYS = _params(f, 2)[:2]
    writes = [n for n in g.nodes if n.kind == 'stmt' and isinstance(n.stmt, ast.Assign) and any(isinstance(t, ast.Subscript) for t in n.stmt.targets)]
    ctx.require_sites(rule, 'remove_annotations: rewrite of the annotations of the essence', len(writes), 1, f.loc())
    for n in writes:
        tgt_ok = all(_keypath(f, t, ESS) == ('metadata', 'annotations') for t in n.stmt.targets)
        comp = n.stmt.value
        src_ok = False
        if isinstance(comp, ast.DictComp) and len(comp.generators) == 1:
            it = comp.generators[0].iter
            tg = comp.generators[0].target
            src_ok = isinstance(it, ast.Call) and isinstance(it.func, ast.Attribute) and it.func.attr == 'items' \
                and _keypath(f, it.func.value, ESS) == ('metadata', 'annotations') and isinstance(tg, ast.Tuple) and len(tg.elts) == 2 \
                and _is_name(comp.key, getattr(tg.elts[0], 'id', None)) and _is_name(comp.value, getattr(tg.elts[1], 'id', None))
        ctx.ob(rule, 'remove_annotations rewrites `metadata.annotations` of the essence from its own current annotations, keys and values unchanged', tgt_ok and src_ok,
               loc=f.loc(n.stmt), construct=construct(f, 'flow:annotations rebuilt from annotations'), detail=norm(n.stmt, 100))

        def keyset(e: ast.AST) -> Optional[str]:
            e = _unwrap(repo, f, e, follow=True)
            while isinstance(e, ast.Call) and dotted(e.func) in ('frozenset', 'set') and len(e.args) == 1:
                e = _unwrap(repo, f, e.args[0], follow=True)
            if _is_name(e, KEYS):
                return 'remove'
            if _keypath(f, e, ESS) == ('metadata', 'annotations'):
                return 'current'
            return None

        def overlap(e: ast.AST, o: bool) -> bool:
            if isinstance(e, ast.BinOp) and isinstance(e.op, ast.BitAnd):
                return {keyset(e.left), keyset(e.right)} == {'remove', 'current'} and o is True
            if isinstance(e, ast.Call) and isinstance(e.func, ast.Attribute) and len(e.args) == 1:
                sides = {keyset(e.func.value), keyset(e.args[0])}
                if e.func.attr == 'intersection':
                    return sides == {'remove', 'current'} and o is True
                if e.func.attr == 'isdisjoint':
                    return sides == {'remove', 'current'} and o is False
            return False
        conds = dominating_conditions(g, n)
        ok = all(cond_implies(t, o, overlap) for t, o, _ in conds)
        ctx.ob(rule, 'remove_annotations: the rewrite happens whenever ANY of the keys to remove is present (the only guard is a non-empty intersection) -- '
               'make_keys yields a v2 and a v1 key of which an object usually carries one', ok, loc=f.loc(n.stmt), construct=construct(f, 'guard:any key present'),
               detail='; '.join(f'{norm(t, 70)}={o}' for t, o, _ in conds))


def check_stanza_cleaner(ctx: Ctx, rule: str) -> None:
    check_empty_stanzas(ctx, rule)
    check_remove_annotations(ctx, rule)


# ====================================================================================================== diffbase: DiffBaseStorage.build
def check_build_flow(ctx: Ctx, rule: str) -> None:
    repo = ctx.repo
    f, g = cfg_of(ctx, f'{DIFB}.DiffBaseStorage.build')
    ps = [a.arg for a in f.params()]
    if 'body' not in ps or 'extra_fields' not in ps:
        raise AnalysisError(f'{f.loc()}: DiffBaseStorage.build(*, body, extra_fields) expected, found {ps}')
    rets = [n for n in g.nodes if n.kind == 'return']
    names = {(_unwrap(repo, f, n.stmt.value).id if isinstance(_unwrap(repo, f, n.stmt.value), ast.Name) else None) for n in rets}
    if len(names) != 1 or None in names:
        ctx.ob(rule, 'DiffBaseStorage.build returns the essence it built (one local)', False, loc=f.loc(), construct=construct(f, 'flow:returns essence'))
        return
    ESS = names.pop()
    defs = [n.value for n in walk_no_defs(f.node) if isinstance(n, (ast.Assign, ast.AnnAssign)) and any(_is_name(t, ESS) for t in (n.targets if isinstance(n, ast.Assign) else [n.target]))]
    v = _unwrap(repo, f, defs[0]) if len(defs) == 1 else None
    deep = isinstance(v, ast.Call) and (repo.resolve(f.module, v.func) or '') == 'copy.deepcopy' and len(v.args) == 1 \
        and _is_name(_unwrap(repo, f, v.args[0]), 'body')
    ctx.ob(rule, 'DiffBaseStorage.build works on a DEEP copy of the body (stanzas and annotations are deleted from it in place: the body seen by the '
           'storages/handlers afterwards must keep them)', deep, loc=f.loc(defs[0]) if defs else f.loc(), construct=construct(f, 'flow:essence=deepcopy(body)'),
           detail='; '.join(norm(d, 80) for d in defs))
    picks = [c for c in calls_in(f.node) if is_call_to(repo, f, c, f'{DICTS}.cherrypick')]
    ctx.require_sites(rule, 'DiffBaseStorage.build: cherrypick calls (labels/annotations, extra fields)', len(picks), 2, f.loc())
    for c in picks:
        pk = kwarg(c, 'picker', 3)
        s_, d_ = kwarg(c, 'src', 0), kwarg(c, 'dst', 1)
        ok = pk is not None and (repo.resolve(f.module, pk) or '') == 'copy.deepcopy' and _is_name(s_, 'body') and _is_name(d_, ESS)
        ctx.ob(rule, 'DiffBaseStorage.build: fields restored from the body are deep-copied into the essence (the annotations restored here are deleted from '
               'in place right after: without the copy the body itself would lose them -- and with them the stored last-handled state)', ok, loc=f.loc(c),
               construct=construct(f, f'flow:cherrypick(body -> essence, deepcopy):{norm(kwarg(c, "fields", 2), 30)}'), detail=norm(c, 100))
    # in-place mutations only on the essence
    muts = []
    for n in walk_no_defs(f.node):
        if isinstance(n, ast.Delete):
            muts += [(n, t.value) for t in n.targets if isinstance(t, ast.Subscript)]
        elif isinstance(n, ast.Assign):
            muts += [(n, t.value) for t in n.targets if isinstance(t, ast.Subscript)]
        elif isinstance(n, ast.Call) and isinstance(n.func, ast.Attribute) and n.func.attr in ('pop', 'clear', 'popitem', 'update', 'setdefault') \
                and isinstance(n.func.value, ast.Name):
            muts.append((n, n.func.value))
    foreign = [(n, b) for n, b in muts if _keypath(f, b, ESS) is None]
    ctx.ob(rule, 'DiffBaseStorage.build: every in-place deletion/assignment goes into the essence (the copy) or a part of it, never into the body',
           bool(muts) and not foreign, loc=f.loc(foreign[0][0]) if foreign else f.loc(), construct=construct(f, 'confine:mutations on the essence only'),
           detail='; '.join(norm(n, 60) for n, _ in foreign[:2]))
    # order: purge of the system stanzas < restore of the extra fields; annotation cleaning < remove_empty_stanzas
    extra = [n for c in picks if _is_name(kwarg(c, 'fields', 2), 'extra_fields') for n in _node_containing(g, c)]
    ctx.require_sites(rule, 'DiffBaseStorage.build: restore of the extra fields', len(extra), 1, f.loc())
    purges = [n for n in g.nodes if n.kind == 'stmt' and isinstance(n.stmt, ast.Delete) and any(_keypath(f, t, ESS) in (('metadata',), ('status',)) for t in n.stmt.targets)]
    late = [n for n in purges if n in g.reach(extra)]
    ctx.ob(rule, 'DiffBaseStorage.build: the extra fields (e.g. a status field an on.field handler watches) are restored AFTER the whole status/metadata '
           'stanzas were purged -- else they are purged again and such a handler never sees a change', bool(purges) and not late,
           loc=f.loc(late[0].stmt) if late else f.loc(), construct=construct(f, 'order:purge < restore extra fields'))
    cleaners = [n for n in g.nodes if n.kind == 'stmt' and any(isinstance(c.func, ast.Attribute) and c.func.attr == 'remove_empty_stanzas' for c in calls_in(n.stmt))]
    ann_dels = [n for n in g.nodes if n.kind == 'stmt' and isinstance(n.stmt, ast.Delete)
                and any((_keypath(f, t.value, ESS) or ())[-2:] == ('metadata', 'annotations') for t in n.stmt.targets if isinstance(t, ast.Subscript))]
    ctx.require_sites(rule, 'DiffBaseStorage.build: in-place deletion of foreign/garbage annotations', len(ann_dels), 1, f.loc())
    esc = g.escaping_exits(ann_dels + extra, cleaners, classes=('normal',))
    ctx.ob(rule, 'DiffBaseStorage.build: empty stanzas are removed after the annotations were cleaned and the extra fields restored, on every normal path',
           bool(cleaners) and not esc, loc=f.loc(), construct=construct(f, 'allexits:remove_empty_stanzas last'))
    # ignored fields
    loops = [n for n in walk_no_defs(f.node) if isinstance(n, ast.For) and _self_attr(_unwrap(repo, f, n.iter), 'ignored_fields') and isinstance(n.target, ast.Name)]
    ctx.require_sites(rule, 'DiffBaseStorage.build: loop over the ignored fields', len(loops), 1, f.loc())
    for lp in loops:
        rm = [c for c in calls_in(lp) if is_call_to(repo, f, c, f'{DICTS}.remove')]
        ok = len(rm) == 1 and _is_name(rm[0].args[0] if rm[0].args else None, ESS) and _is_name(rm[0].args[1] if len(rm[0].args) > 1 else None, lp.target.id)
        tries = [p for c in rm for p in _ancestors(f, c) if isinstance(p, ast.Try)]
        outer = [t for t in tries if not any(p is lp for p in _ancestors(f, t))]
        leaves = [x for t in tries for h in t.handlers for s in h.body for x in walk_no_defs(s) if isinstance(x, (ast.Break, ast.Return, ast.Raise))]
        ctx.ob(rule, 'DiffBaseStorage.build: EVERY ignored field is removed from the essence (a field that cannot be removed skips that field only)',
               ok and not outer and not leaves and not _enclosing_conditions(f, rm[0], stop=lp) if rm else False, loc=f.loc(lp),
               construct=construct(f, 'allexits:each ignored field removed'))
        ln = [n for n in g.nodes if n.kind == 'loop' and n.stmt is lp]
        ctx.ob(rule, 'DiffBaseStorage.build: ignored fields are removed after the extra fields were restored (ignoring wins) and before the essence is returned',
               bool(ln) and not (set(ln) & g.reach_back(extra)) and not g.dominated(rets, ln), loc=f.loc(lp), construct=construct(f, 'order:restore < ignore < return'))
    # AnnotationsDiffBaseStorage.build: own keys removed, then the emptied stanzas
    a, ga = cfg_of(ctx, f'{DIFB}.AnnotationsDiffBaseStorage.build')
    ra = [n for n in ga.nodes if n.kind == 'stmt' and any(isinstance(c.func, ast.Attribute) and c.func.attr == 'remove_annotations' for c in calls_in(n.stmt))]
    rs = [n for n in ga.nodes if n.kind == 'stmt' and any(isinstance(c.func, ast.Attribute) and c.func.attr == 'remove_empty_stanzas' for c in calls_in(n.stmt))]
    ctx.require_sites(rule, 'AnnotationsDiffBaseStorage.build: removal of the own annotations', len(ra), 1, a.loc())
    ctx.ob(rule, 'AnnotationsDiffBaseStorage.build: after the own annotations were removed the emptied stanzas are removed too, on every normal path (an object '
           'with no other annotations: `metadata` must vanish from the essence as it did before the state was stored)',
           bool(rs) and bool(ra) and not ga.escaping_exits(ra, rs, classes=('normal',)), loc=a.loc(), construct=construct(a, 'allexits:remove_empty_stanzas after own keys'))


# ====================================================================================================== conventions.mark_key / make_keys
def check_mark_key(ctx: Ctx, rule: str) -> None:
    repo = ctx.repo
    f = repo.fn(f'{CONV}.CollisionEvadingConvention.mark_key')
    ctx.analysed(f)
    KEY = _params(f, 2)[1]
    paths = absint.analyse(repo, f, absint.Config())
    atoms = {
        'RS': r"^eq\((.*\.get\('kind'\)|.*\['kind'\]), 'ReplicaSet'\)$|^eq\('ReplicaSet', .*kind.*\)$",
        'DEP': r"^truthy\(any\(.*'Deployment'.*ownerReferences.*\)\)$",
    }

    def spec(v: dict) -> str:
        return 'marked' if v['RS'] and v['DEP'] else 'plain'

    def observe(p: absint.Path) -> str:
        if p.status != 'return' or p.retval is None:
            return f'<{p.status}>'
        return 'plain' if p.retval.key == KEY else 'marked' if ('{' + KEY + '}') in p.retval.key or p.retval.key.startswith(f'({KEY} Add') else f'<{p.retval.key[:40]}>'
    table_check(ctx, rule, f, paths, atoms, spec, observe,
                what='mark_key: the key is marked iff the object is a ReplicaSet AND one of its owners is a Deployment (the one known case of annotations '
                     'propagated from an owner); every other object keeps the plain key')
    mk = repo.fn(f'{CONV}.StorageKeyFormingConvention.make_keys')
    ctx.analysed(mk)
    paths = absint.analyse(repo, mk, absint.Config())
    atoms2 = {'NOBODY': r'^isnone\(body\)$', 'V1': r'^truthy\(self\.v1\)$'}

    def observe2(p: absint.Path) -> tuple:
        k = p.retval.key if p.retval is not None and p.status == 'return' else f'<{p.status}>'
        # the returned expression may go through a comprehension over a local (opaque to the interpreter): add what the locals it names are bound to
        for r in walk_no_defs(mk.node):
            if isinstance(r, ast.Return) and r.value is not None:
                for nm_ in ast.walk(r.value):
                    if isinstance(nm_, ast.Name) and nm_.id in p.env and getattr(p.env[nm_.id], 'key', None):
                        k += ' ' + p.env[nm_.id].key
        marked = 'mark_key(' in k
        plain_too = bool(re.search(r'make_v[12]_key\(key\)', k)) and marked
        return ('marked' if marked and not plain_too else 'mixed' if marked else 'plain', 'make_v2_key' in k, 'make_v1_key' in k)
    table_check(ctx, rule, mk, paths, atoms2, lambda v: ('plain' if v['NOBODY'] else 'marked', True, bool(v['V1'])), observe2,
                what='make_keys: all keys are formed from the marked key exactly when a body is given (`body is None` test), the v2 key always, the v1 key iff enabled')


# ====================================================================================================== storage constructors
def _super_init_calls(f: FuncInfo) -> list[ast.Call]:
    return [c for c in calls_in(f.node) if isinstance(c.func, ast.Attribute) and c.func.attr == '__init__' and isinstance(c.func.value, ast.Call)
            and dotted(c.func.value.func) == 'super']


def check_storage_ctors(ctx: Ctx, rule: str) -> None:
    repo = ctx.repo
    table = [
        # class, {param: attribute it must reach}, {param forwarded by the same keyword to super().__init__}, forwards **kwargs
        (f'{CONV}.StorageKeyFormingConvention', {'prefix': 'prefix', 'v1': 'v1'}, [], True),
        (f'{DIFB}.DiffBaseStorage', {'ignored_fields': 'ignored_fields'}, [], False),
        (f'{DIFB}.AnnotationsDiffBaseStorage', {'key': 'key'}, ['prefix', 'v1', 'ignored_fields'], False),
        (f'{DIFB}.StatusDiffBaseStorage', {'field': '_field', 'name': '_field'}, ['ignored_fields'], False),
    ]
    for cq, stored, forwarded, star in table:
        init = repo.fn(f'{cq}.__init__')
        ctx.analysed(init)
        short = cq.rsplit('.', 1)[-1]
        ps = [a.arg for a in init.params()]
        for p in list(stored) + forwarded:
            if p not in ps:
                raise AnalysisError(f'{init.loc()}: {short}.__init__ has no parameter `{p}`')
        for p, attr in stored.items():
            vals = _attr_assigns(init, attr)

            def derives(e: ast.AST, depth: int = 0) -> bool:
                for x in ast.walk(e):
                    if _is_name(x, p):
                        return True
                    if isinstance(x, ast.Name) and depth < 3:
                        o = origin(init, x, depth=1)
                        if o is not x and derives(o, depth + 1):
                            return True
                    if isinstance(x, ast.Attribute) and _self_attr(x) and depth < 3 and x.attr != attr:
                        if any(derives(v, depth + 1) for v in _attr_assigns(init, x.attr)):
                            return True
                return False
            ok = len(vals) == 1 and derives(vals[0]) and not _enclosing_conditions(init, vals[0])
            plain = attr == p
            ctx.ob(rule, f'{short}(…, {p}=…): the parameter reaches `self.{attr}`, which the storage methods read' + (' (stored as given)' if plain else ''),
                   ok and (not plain or _is_name(vals[0], p) or derives(vals[0])), loc=init.loc(), construct=f'{cq}.__init__:flow:{p}->self.{attr}',
                   detail='; '.join(norm(v, 70) for v in vals))
        sup = _super_init_calls(init)
        ctx.ob(rule, f'{short}.__init__ calls the next constructor of the cooperative chain exactly once, unconditionally', len(sup) == 1
               and not _enclosing_conditions(init, sup[0]), loc=init.loc(), construct=f'{cq}.__init__:sites:super().__init__')
        for p in forwarded:
            ok = len(sup) == 1 and _is_name(kwarg(sup[0], p), p)
            ctx.ob(rule, f'{short}(…, {p}=…) hands `{p}` on to the base constructor under the same keyword (else the storage silently runs with the default: '
                   'e.g. ignored fields count as changes again)', ok, loc=init.loc(sup[0]) if sup else init.loc(), construct=f'{cq}.__init__:flow:{p} forwarded',
                   detail=norm(sup[0]) if sup else '')
        if star:
            kw = init.node.args.kwarg.arg if init.node.args.kwarg else None  # type: ignore[attr-defined]
            va = init.node.args.vararg.arg if init.node.args.vararg else None  # type: ignore[attr-defined]
            ok = len(sup) == 1 and kw is not None and any(k.arg is None and _is_name(k.value, kw) for k in sup[0].keywords) \
                and (va is None or any(isinstance(a, ast.Starred) and _is_name(a.value, va) for a in sup[0].args))
            ctx.ob(rule, f'{short}.__init__ is a cooperative mixin constructor: the keywords it does not consume (ignored_fields of the diff-base storage, '
                   'touch_key of the progress storage) are passed on to the next class', ok, loc=init.loc(sup[0]) if sup else init.loc(),
                   construct=f'{cq}.__init__:flow:**kwargs forwarded', detail=norm(sup[0]) if sup else '')
    # the `field` accessor of the status storage reads what the constructor stored
    base = f'{DIFB}.StatusDiffBaseStorage.field'
    getters = [g_ for q, g_ in repo.funcs.items() if (q == base or q.startswith(base + '#')) and any(isinstance(r, ast.Return) and r.value is not None for r in walk_no_defs(g_.node))]
    if len(getters) != 1:
        raise AnalysisError(f'{base}: expected one getter of the configured field')
    fp = getters[0]
    ctx.analysed(fp)
    rets = [r for r in walk_no_defs(fp.node) if isinstance(r, ast.Return)]
    ctx.ob(rule, 'StatusDiffBaseStorage.field returns the parsed field the constructor stored', len(rets) == 1 and _self_attr(rets[0].value, '_field') is not None,
           loc=fp.loc(), construct=construct(fp, 'flow:field=self._field'))
    si = repo.fn(f'{DIFB}.StatusDiffBaseStorage.__init__')
    vals = _attr_assigns(si, '_field')
    ok = len(vals) == 1 and isinstance(vals[0], ast.Call) and is_call_to(repo, si, vals[0], f'{DICTS}.parse_field')
    ctx.ob(rule, 'StatusDiffBaseStorage: the configured field is stored as a parsed path (build/fetch/store pass it to dicts.remove/resolve/ensure)', ok,
           loc=si.loc(), construct=construct(si, 'flow:_field=parse_field(...)'))


# ====================================================================================================== dicts.parse_field
def check_parse_field(ctx: Ctx, rule: str) -> None:
    repo = ctx.repo
    f = repo.fn(f'{DICTS}.parse_field')
    ctx.analysed(f)
    P = _params(f, 1)[0]
    paths = absint.analyse(repo, f, absint.Config())
    atoms = {
        'NONE': (rf'^isnone\({P}\)$', f'isnone({P})'),
        'STR': rf'^isinstance\({P}, str\)$',
        'LIST': rf'^isinstance\({P}, list\)$',
        'TUPLE': rf'^isinstance\({P}, tuple\)$',
    }

    def spec(v: dict) -> str:
        if v['NONE']:
            return 'root'
        if v['STR']:
            return 'split-at-dots'
        if v['LIST'] or v['TUPLE']:
            return 'as-tuple'
        return 'error'

    def observe(p: absint.Path) -> str:
        if p.status == 'raise':
            return 'error'
        k = p.retval.key if p.retval is not None else ''
        if k == '()':
            return 'root'
        if k == f"tuple({P}.split('.'))":
            return 'split-at-dots'
        if k == f'tuple({P})':
            return 'as-tuple'
        return f'<{k[:40]}>'
    # a value cannot be of two of these types at once, and None is none of them
    def consistent(v: dict) -> bool:
        return sum(bool(v[k]) for k in ('NONE', 'STR', 'LIST', 'TUPLE')) <= 1
    from ..rules import SKIP
    table_check(ctx, rule, f, paths, atoms, lambda v: spec(v) if consistent(v) else SKIP, observe,
                what='parse_field: None is the root (empty path), a string is split at "." into its segments, a list/tuple is taken segment by segment, '
                     'anything else is rejected (storage locations such as `status.kopf.progress` and handler fields are given as dotted strings)')


# ====================================================================================================== registration
EXTRA = {
    'C04': [(check_resolve, 'R4.40'), (check_remove, 'R4.41'), (check_cherrypick, 'R4.42'), (check_views, 'R4.43'), (check_wiring, 'R4.44'),
            (check_diff_equal, 'R4.45'), (check_reduce, 'R4.46'), (check_stanza_cleaner, 'R4.47'), (check_build_flow, 'R4.48'), (check_storage_ctors, 'R4.49')],
    'C16': [(check_resolve, 'R16.40'), (check_ensure, 'R16.41'), (check_remove, 'R16.42'), (check_views, 'R16.43'), (check_wiring, 'R16.44'),
            (check_build_flow, 'R16.45'), (check_mark_key, 'R16.46'), (check_storage_ctors, 'R16.47'), (check_parse_field, 'R16.48')],
    'C18': [(check_resolve, 'R18.20'), (check_ensure, 'R18.21'), (check_remove, 'R18.22'), (check_as_json_patch, 'R18.23')],
    'C08': [(check_patch_ctor, 'R8.40'), (check_views, 'R8.41'), (check_wiring_patch, 'R8.42'), (check_patch_bool, 'R8.43'), (check_as_json_patch, 'R8.44')],
    'C03': [(check_patch_ctor, 'R3.40'), (check_patch_bool, 'R3.41')],
}
