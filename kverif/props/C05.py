"""C05 -- each event maps to exactly one cause; handler kinds are mutually exclusive (R5.1-R5.5)."""
from __future__ import annotations

import ast

from .. import absint
from ..core import Ctx, PropSpec
from ..rules import (SKIP, calls_in, cfg_of, cond_implies, construct, dominating_conditions, is_call_to, kwarg, norm,
                     table_check)
from ..srcmodel import AnalysisError, dotted, src, walk_no_defs

CAUSES = 'kopf._core.intents.causes'


def ctor_kwargs_in(repo, f, cls_suffix: str):
    """(call, {kw: node}) of every construction of a class in function ``f`` (its nested defs included)."""
    out = []
    for c in [n for n in ast.walk(f.node) if isinstance(n, ast.Call)]:
        if any(n.endswith(cls_suffix) for n in repo.callee_names(f, c)):
            out.append((c, {k.arg: k.value for k in c.keywords if k.arg}))
    return out


def check_detect(ctx: Ctx) -> None:
    repo = ctx.repo
    f = repo.fn(f'{CAUSES}.detect_changing_cause')
    ctx.analysed(f)

    def eff(it, p, call, names):
        if any(n.endswith('causes.ChangingCause') for n in names):
            return 'cause'
        return None
    paths = absint.analyse(repo, f, absint.Config(effect=eff))
    atoms = {
        'D': r"eq\(raw_event\['type'\], 'DELETED'\)",
        'M': r'truthy\(.*is_deletion_ongoing\(',
        'F': r'truthy\(.*is_deletion_blocked\(',
        'O': r'isnone\(old\)',
        'E': (r'truthy\(diff\)', 'truthy(diff)'),       # NB: truthy = NOT empty
        'I': r'truthy\(initial\)',
    }

    def spec(v):
        if v['D']:
            return ('GONE', 'initial')
        if v['M'] and not v['F']:
            return ('FREE', 'initial')
        if v['M']:
            return ('DELETE', 'initial')
        if v['O']:
            return ('CREATE', 'False')
        if not v['E'] and v['I']:
            return ('RESUME', 'initial')
        if not v['E']:
            return ('NOOP', 'initial')
        return ('UPDATE', 'initial')

    def observe(p):
        causes = p.effects('cause')
        if len(causes) != 1 or p.status != 'return':
            return ('#causes', len(causes), p.status)
        c = causes[0]
        if p.retval is None or p.retval.key != c.key:
            return ('returned-something-else', p.retval.key if p.retval else None)
        r = c.kw.get('reason')
        i = c.kw.get('initial')
        return (r.key.rsplit('.', 1)[-1] if r is not None else None, i.key if i is not None else None)

    # `diff is None` implies `not diff`: completions with isnone(diff) and truthy(diff) cannot arise (theory), nothing to add.
    table_check(ctx, 'R5.1', f, paths, atoms, spec, observe,
                what='detect_changing_cause: precedence GONE > FREE > DELETE > CREATE(initial:=False) > RESUME > NOOP > UPDATE, exactly one cause')


def check_registry(ctx: Ctx) -> None:
    repo = ctx.repo
    f = repo.fn('registries.ChangingRegistry.iter_handlers')
    ctx.analysed(f)
    loops = [n for n in walk_no_defs(f.node) if isinstance(n, ast.For)]
    if len(loops) != 1:
        raise AnalysisError(f'{f.loc()}: expected one loop over the handlers in {f.short}')
    loop = loops[0]
    hv = loop.target.id if isinstance(loop.target, ast.Name) else 'handler'
    cfg = absint.Config()
    p0env = {hv: absint.sym('handler')}
    paths = absint.analyse(repo, f, cfg, stmts=loop.body, env=p0env)
    atoms = {
        'X': r'in\(handler\.id, excluded\)',
        'RN': r'isnone\(handler\.reason\)',
        'RE': r'eq\((cause\.reason, handler\.reason|handler\.reason, cause\.reason)\)',
        'HI': r'truthy\(handler\.initial\)',
        'CI': r'truthy\(cause\.initial\)',
        'CD': r'truthy\(cause\.deleted\)',
        'HD': r'truthy\(handler\.deleted\)',
        'MT': r'truthy\(.*registries\.match\(',
    }

    def spec(v):
        sel = (not v['X']) and (v['RN'] or v['RE']) and not (v['HI'] and not v['CI']) \
            and not (v['HI'] and v['CD'] and not v['HD']) and v['MT']
        return 1 if sel else 0

    def observe(p):
        return len(p.effects('yield'))
    table_check(ctx, 'R5.2', f, paths, atoms, spec, observe,
                what='ChangingRegistry.iter_handlers: a handler is yielded iff not excluded, (reason-less or reason == cause.reason), '
                     'initial handlers only in initial causes and not on deletion unless opted in, and match()')
    # The property additionally requires that creation/update handlers never run on an object marked for deletion:
    # a reason-less non-initial top-level handler (on.field: an update handler) must not be yielded for a deletion cause.
    offending = []
    for p in paths:
        if len(p.effects('yield')) == 1 and p.atom(atoms['RN']) is True and p.atom(atoms['HI']) is False:
            if p.atom(atoms['CD']) is None and not any('Reason.DELETE' in k or 'deleted' in k for k in p.atoms if 'handler.deleted' not in k and k != atoms['CD']):
                offending.append(p)
    ctx.ob('R5.2', 'ChangingRegistry.iter_handlers: a reason-less non-initial handler (on.field, an update handler) is not selected when the '
           'object is marked for deletion', not offending, loc=f.loc(loop),
           construct=construct(f, 'formula:reasonless-noninitial-handler-on-deletion'),
           detail='the yield path for reason=None, initial=False consults neither cause.deleted nor the DELETE reason')


def check_processing(ctx: Ctx) -> None:
    repo = ctx.repo
    f, g = cfg_of(ctx, 'processing.process_changing_cause')
    nodes = g.call_nodes('execution.execute_handlers_once')
    ctx.require_sites('R5.3', 'process_changing_cause: handler execution site', len(nodes), 1, f.loc())

    def in_handler_reasons(e: ast.AST, o: bool) -> bool:
        if isinstance(e, ast.Compare) and len(e.ops) == 1 and isinstance(e.ops[0], ast.In) and o is True:
            return (dotted(e.left) or '').endswith('cause.reason') and (repo.resolve(f.module, e.comparators[0]) or '').endswith('causes.HANDLER_REASONS')
        return False
    for n in nodes:
        ok = any(cond_implies(t, o, in_handler_reasons) for t, o, _ in dominating_conditions(g, n))
        ctx.ob('R5.3', 'process_changing_cause: handlers are executed only under `cause.reason in HANDLER_REASONS`', ok, loc=f.loc(n.stmt),
               construct=construct(f, 'guard:execute under HANDLER_REASONS'))
    # the sets
    m = repo.module(CAUSES)
    reason = repo.cls(f'{CAUSES}.Reason')
    members = {t.id for s in reason.node.body if isinstance(s, ast.Assign) for t in s.targets if isinstance(t, ast.Name)}

    def set_of(name: str) -> set[str]:
        v = repo.const(f'{CAUSES}.{name}')
        if not isinstance(v, (ast.Tuple, ast.List, ast.Set)):
            raise AnalysisError(f'{m.relpath()}: {name} is not a literal collection')
        return {(dotted(e) or '').rsplit('.', 1)[-1] for e in v.elts}
    hr, rr = set_of('HANDLER_REASONS'), set_of('REACTOR_REASONS')
    ctx.ob('R5.3', 'HANDLER_REASONS is exactly {CREATE, UPDATE, DELETE, RESUME}', hr == {'CREATE', 'UPDATE', 'DELETE', 'RESUME'},
           loc=m.relpath(), construct=f'{CAUSES}:HANDLER_REASONS', detail=str(sorted(hr)))
    ctx.ob('R5.3', 'no change handler for gone/released/no-op: HANDLER_REASONS is disjoint from {NOOP, FREE, GONE}', not (hr & {'NOOP', 'FREE', 'GONE'}),
           loc=m.relpath(), construct=f'{CAUSES}:HANDLER_REASONS-disjoint')
    ctx.ob('R5.3', 'HANDLER_REASONS + REACTOR_REASONS cover every Reason member', hr | rr == members, loc=m.relpath(),
           construct=f'{CAUSES}:reasons-exhaustive', detail=f'members {sorted(members)}')

    # R5.5 SIBLING: the same deletion predicates with the same arguments in the detector and in the processor
    d = repo.fn(f'{CAUSES}.detect_changing_cause')
    pr = repo.fn('processing.process_resource_causes')
    ctx.analysed(d, pr)
    for callee in ('finalizers.is_deletion_ongoing', 'finalizers.is_deletion_blocked'):
        a = [c for c in calls_in(d.node) if is_call_to(repo, d, c, callee)]
        b = [c for c in calls_in(pr.node) if is_call_to(repo, pr, c, callee)]

        def shape(c):
            return sorted((k.arg, src(k.value).split('.')[-1]) for k in c.keywords) + [src(x) for x in c.args]
        ok = len(a) == 1 and len(b) == 1 and shape(a[0]) == shape(b[0])
        ctx.ob('R5.5', f'{callee.split(".")[-1]} is evaluated with the same arguments in detect_changing_cause and process_resource_causes',
               ok, loc=pr.loc(b[0]) if b else pr.loc(), construct=f'sibling:{callee}', detail=f'{[norm(x) for x in a]} vs {[norm(x) for x in b]}')


DECORATORS = {
    # decorator -> (handler class suffix, expected constant keyword facts)
    'create': ('handlers.ChangingHandler', {'reason': 'Reason.CREATE', 'initial': None, 'field_needs_change': False}),
    'update': ('handlers.ChangingHandler', {'reason': 'Reason.UPDATE', 'initial': None, 'field_needs_change': True}),
    'delete': ('handlers.ChangingHandler', {'reason': 'Reason.DELETE', 'initial': None, 'field_needs_change': False}),
    'resume': ('handlers.ChangingHandler', {'reason': None, 'initial': True, 'field_needs_change': False}),
    'field': ('handlers.ChangingHandler', {'reason': None, 'initial': None, 'field_needs_change': True}),
    'subhandler': ('handlers.ChangingHandler', {'reason': None, 'initial': None}),
}


def check_decorators(ctx: Ctx) -> None:
    repo = ctx.repo
    n = 0
    for dec, (cls, facts) in DECORATORS.items():
        f = repo.fn(f'kopf.on.{dec}')
        ctx.analysed(f)
        ctors = ctor_kwargs_in(repo, f, cls)
        ctx.require_sites('R5.4', f'on.{dec}: construction of a {cls.split(".")[-1]}', len(ctors), 1, f.loc())
        for call, kws in ctors:
            n += 1
            for k, want in facts.items():
                v = kws.get(k)
                if want is None or isinstance(want, bool):
                    ok = isinstance(v, ast.Constant) and v.value is want
                else:
                    ok = v is not None and (repo.resolve(f.module, v) or '').endswith(want)
                ctx.ob('R5.4', f'on.{dec} registers its handler with {k}={want}', ok, loc=f.loc(call),
                       construct=f'kopf.on.{dec}:config:{k}', detail=f'found {norm(v)}')
    ctx.count('decorator_sites', n)


def check(ctx: Ctx) -> None:
    check_detect(ctx)
    check_registry(ctx)
    check_processing(ctx)
    check_decorators(ctx)
    # R5.6 (= R14.1/R14.2): the first-sight flag that separates RESUME from NOOP: `initial = noticed_by_listing and not fully_handled_once`, both monotone,
    # the latter set exactly when a cycle closes (done or nothing to do)
    from . import C14
    C14.check_flags(ctx, rule='R5.6')
    C14.check_initial_flow(ctx, rule='R5.6')


SPEC = PropSpec(
    id='C05',
    title='Each event maps to exactly one cause; handler kinds are mutually exclusive',
    technique='static analysis: decision-table extraction by path enumeration over a predicate abstraction (TABLE/FORMULA), '
              'dominating-condition guards on the CFG (GUARD), constant keyword facts of the decorators (CONFIG), sibling agreement',
    level_text='Static analysis of the current source: the full decision table of causes.detect_changing_cause (all valuations of its six '
               'branch predicates) equals the precedence list of the property with exactly one cause per valuation; the selection formula of '
               'ChangingRegistry.iter_handlers equals the documented rule; handlers execute only for HANDLER_REASONS (disjoint from gone/released/'
               'no-op, exhaustive with the reactor reasons); every @kopf.on decorator registers the reason/initial facts the table relies on. '
               'Decides the composition of these tables, NOT the closed loop over object histories.',
    level_note='branch predicates are opaque atoms; is_deletion_ongoing/is_deletion_blocked are the same callees in detector and processor (checked); DESIGN.md §3',
    design_ref='DESIGN.md §4 C05, Appendix A.1',
    explanation='TABLE over detect_changing_cause (path enumeration, 6 atoms), FORMULA over one iteration of ChangingRegistry.iter_handlers, GUARD on '
                'process_changing_cause, literal reason sets vs the Reason enum, CONFIG over six decorators in kopf/on.py.',
    not_decided='closed-loop composition over object histories; the values of the predicates themselves.',
    check=check,
)
