"""
D6 (C16): `StorageKeyFormingConvention.make_v1_key` cuts with
`safe_key[:max_length - len(prefix) - len(suffix)]`. For prefixes of ~56+ characters the bound is
negative, Python slices from the end, and the name part of the annotation grows far beyond the
63 characters Kubernetes accepts (v1 keys are written by default: v1=True). The sibling
`make_v2_key` clamps with max(0, ...).
Run: /venv/bin/python D06_v1_key_unclamped_slice.py
"""
from kopf._cogs.configs import progress
for n in (20, 54, 60, 70):
    s = progress.AnnotationsProgressStorage(prefix='a' * n)
    for keylen in (10, 100, 300):
        k1 = s.make_v1_key('h' * keylen); k2 = s.make_v2_key('h' * keylen)
        n1 = k1.split('/', 1)[1]; n2 = k2.split('/', 1)[1]
        print(f'prefix={n:3d} id={keylen:3d}  v1 name part={len(n1):3d}  v2 name part={len(n2):3d}',
              '  <-- v1 name part > 63: rejected by the API' if len(n1) > 63 else '')
